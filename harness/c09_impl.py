"""C09 helpers: stub AtomicData with arbitrary positive rate tables, case generator, runner of the
real entry points of cherab/tools/plasmas/ionisation_balance.py, and the executable statement of
the property (exact rational arithmetic) used by the failing-input search."""
import hashlib
from fractions import Fraction as F

import numpy as np

ELEMENT_NAMES = ['hydrogen', 'helium', 'lithium', 'beryllium', 'boron', 'carbon', 'nitrogen', 'oxygen', 'fluorine',
                 'neon', 'sodium', 'magnesium', 'aluminium', 'silicon', 'phosphorus', 'sulfur', 'chlorine', 'argon']

STREAMS = {"well": {"span": 1.0}, "wide": {"span": 2.0}}     # decades each rate may span
RES_THRESHOLD = F(1, 10 ** 12)    # = res_threshold, tol_resolved, tol_unresolved in coq/Model/C09_Check.v
TOL_RESOLVED = 1e-7
TOL_UNRESOLVED = 1.0
TOL_INTERP = 1e-8


ISOTOPES = {1: ["protium", "deuterium", "tritium"], 2: ["helium3", "helium4"], 3: ["lithium6", "lithium7"], 6: ["carbon12", "carbon13"]}


def element(z, isotope_pick=None):
    """the Element of atomic number z, or (isotope_pick = an integer) one of its Isotope objects: the entry points
    accept both (they only use .atomic_number / .name) and the rate tables are those of the element"""
    from cherab.core.atomic import elements as E
    name = ELEMENT_NAMES[z - 1]
    if isotope_pick is not None and z in ISOTOPES:
        name = ISOTOPES[z][isotope_pick % len(ISOTOPES[z])]
    el = getattr(E, name)
    assert el.atomic_number == z
    return el


def quant(x, bits=8):
    """round to `bits` significant bits (keeps the exact rationals handed to Coq small; the values are
    still arbitrary positive numbers on a grid of ~0.1% relative spacing)"""
    import math
    if x == 0.0:
        return 0.0
    m, e = math.frexp(x)
    return math.ldexp(round(m * (1 << bits)) / float(1 << bits), e)


def rate_value(tag, key, scale, span, n_e, t_e):
    """An arbitrary positive rate table: a hash of (which rate, n_e, t_e) spread log-uniformly over
    `span` decades.  Any mix-up of charge, element, donor, or of the (n_e, t_e) arguments lands on a
    different value."""
    h = hashlib.sha256(repr((tag, key, float(n_e).hex(), float(t_e).hex())).encode()).hexdigest()
    u = int(h[:13], 16) / float(16 ** 13)
    return quant(scale * 10.0 ** (span * u))


def make_stub(tag, scale, span, cx_zero=False):
    from cherab.core import AtomicData

    class Stub(AtomicData):
        def ionisation_rate(self, ion, charge):
            k = ("ion", ion.atomic_number, int(charge))
            return lambda n, t: rate_value(tag, k, scale, span, n, t)

        def recombination_rate(self, ion, charge):
            k = ("rec", ion.atomic_number, int(charge))
            return lambda n, t: rate_value(tag, k, scale, span, n, t)

        def thermal_cx_rate(self, donor_ion, donor_charge, receiver_ion, receiver_charge):
            k = ("cx", donor_ion.atomic_number, int(donor_charge), receiver_ion.atomic_number, int(receiver_charge))
            return lambda n, t: rate_value(tag, k, scale, span, n, t)

    return Stub()


def point_rates(case, n_e, t_e):
    z, tag, scale, span = case["Z"], case["tag"], case.get("scale_eff", case["scale"]), case["span"]
    ion = [rate_value(tag, ("ion", z, c), scale, span, n_e, t_e) for c in range(z)]
    rec = [rate_value(tag, ("rec", z, c), scale, span, n_e, t_e) for c in range(1, z + 1)]
    cx = None
    if case["donor"] is not None:
        dz, dc = case["donor"]
        cx = [rate_value(tag, ("cx", dz, dc, z, c), scale, span, n_e, t_e) for c in range(1, z + 1)]
    return ion, rec, cx


# ---------------------------------------------------------------------------------------------
# exact closed form (used by the search only; the correspondence evaluates the Coq model)
# ---------------------------------------------------------------------------------------------
def closed_form(ion, rec, cx, n_e, n_d):
    z = len(ion)
    d = F(n_d) / F(n_e) if cx is not None else F(0)
    r = [F(1)]
    reff = []
    for k in range(z):
        rk = F(rec[k]) + (d * F(cx[k]) if cx is not None else 0)
        reff.append(rk)
        r.append(r[-1] * F(ion[k]) / rk)
    tot = sum(r)
    return [x / tot for x in r], reff


def species_charge(sp):
    return sum(F(i) * F(v) for s in sp for i, v in enumerate(s))


def base_tol(ex):
    return TOL_RESOLVED if min(ex) >= RES_THRESHOLD else TOL_UNRESOLVED


def property_at_point(pt, slack, ztol):
    """The property's statement evaluated on the implementation's outputs at one point.
    Returns a list of (claim, detail) that fail."""
    fails = []
    ex, reff = closed_form(pt["ion"], pt["rec"], pt["cx"], pt["n_e"], pt["n_d"])
    tol = base_tol(ex) + slack
    z = len(pt["ion"])
    flux = [ex[k] * F(pt["ion"][k]) for k in range(z)]
    fmax = max(flux)
    first_frac = None
    for o in pt["outs"]:
        kind, src = o["kind"], o["src"]
        if kind == "frac":
            f = [F(v) for v in o["values"]]
            if any(v < -tol or v > 1 + F(tol) for v in f):
                fails.append(("fraction outside [0,1]", src))
            if abs(sum(f) - 1) > tol * (z + 1):
                fails.append(("fractions do not sum to one", "%s: sum=%r" % (src, float(sum(f)))))
            bal = max(abs(f[k] * F(pt["ion"][k]) - f[k + 1] * reff[k]) for k in range(z))
            if bal > 10 * F(tol) * fmax:
                fails.append(("pairwise balance n_z S_z = n_(z+1) (alpha + d C) violated",
                              "%s: worst residual %.3g of the dominant flux" % (src, float(bal / fmax))))
            dev = max(abs(a - b) for a, b in zip(f, ex))
            if dev > tol:
                fails.append(("fractions differ from the unique solution of the balance equations",
                              "%s: max deviation %.3g, impl %s exact %s" % (
                                  src, float(dev), [round(float(v), 6) for v in f][:8], [round(float(v), 6) for v in ex][:8])))
            if first_frac is None:
                first_frac = (src, f)
            elif max(abs(a - b) for a, b in zip(f, first_frac[1])) > tol:
                fails.append(("entry points disagree", "%s vs %s" % (src, first_frac[0])))
        elif kind == "dens":
            d = [F(v) for v in o["values"]]
            n_el = F(o["n_el"])
            if max(abs(a - b * n_el) for a, b in zip(d, ex)) > F(tol) * n_el:
                fails.append(("charge-state densities are not element density times the fractions", src))
            if abs(sum(d) - n_el) > F(tol) * (z + 1) * n_el:
                fails.append(("charge-state densities do not sum to the element density", src))
        elif kind == "neut":
            d = [F(v) for v in o["values"]]
            sc = species_charge(o["species"])
            zt = F(ztol) if "@" in src else 0
            if any(v < -zt for v in d):
                fails.append(("neutrality variant returned a negative density", src))
            own = sum(F(i) * v for i, v in enumerate(d))
            if sc <= F(pt["n_e"]):
                if abs(own + sc - F(pt["n_e"])) > F(1e-9) * F(pt["n_e"]):
                    fails.append(("charge of returned densities plus given species is not the electron density",
                                  "%s: %r vs n_e %r" % (src, float(own + sc), pt["n_e"])))
            elif any(abs(v) > zt for v in d):
                fails.append(("given species exceed n_e but returned densities are not zero", src))
            tot = sum(d)
            if tot > 0 and max(abs(a - b * tot) for a, b in zip(d, ex)) > F(tol) * tot + zt:
                fails.append(("neutrality densities are not proportional to the balance fractions", src))
    return fails


# ---------------------------------------------------------------------------------------------
# case generation
# ---------------------------------------------------------------------------------------------
REPS = ["scalar", "array1d", "array2d", "fun1d", "fun1d_scalar", "fun2d", "mixed1d", "interp1d", "interp2d", "eqmap"]


class NonFinite(Exception):
    pass


class GeneratorDomainError(Exception):
    """the generator produced an input outside the property's domain (n_e, t_e > 0, donor and species densities >= 0):
    a fault of the harness, reported as BROKEN-CHECK, never as a property violation"""


STRUCTURES = ["indep", "same_net", "const_net", "same_ne", "sep2d", "same_te", "const_donor"]
NEEDS_DONOR = ("same_net", "const_net", "sep2d", "const_donor")


def gen_case(rng, idx, rep, stream, z=None, force_donor=False, structure="indep", layout="C"):
    z = z or rng.choice([1, 1, 2, 2, 3, 4, 5, 6, 6, 7, 8, 9, 10, 10, 11, 12, 13, 14, 15, 16, 17, 18, 18])
    realistic = rng.random() < 0.7
    donor_mode = rng.choice(["none"] * 3 + ["donor"] * 6 + ["donor_zero"] * 2 + ["donor_nodens"] * 2
                            + ["donor_negzero", "donor_tiny", "dens_nodonor"])
    if rep in ("scalar", "fun1d_scalar"):
        structure = "indep"
    if rep not in ("array1d", "array2d", "mixed1d"):
        layout = "C"
    if layout != "C":
        structure = "indep"          # profiles that vary along every axis and are not symmetric under the permutation
        if layout.startswith("all_"):
            force_donor = True       # the donor profile is one of the arrays that share the layout
    if structure == "sep2d" and rep not in ("array2d", "fun2d", "interp2d"):
        structure = "same_net"
    if force_donor or structure in NEEDS_DONOR:
        donor_mode = "donor"
    donor = None
    if donor_mode not in ("none", "dens_nodonor"):
        dz = rng.choice([1, 1, 1, 2, 3])
        donor = (dz, rng.randint(0, dz - 1))
    if rep == "scalar" or rep == "fun1d_scalar":
        shape = (1,)
    elif rep in ("array1d", "fun1d", "mixed1d"):
        shape = (rng.choice([1, 2, 2, 3, 3, 4]),)          # N = 1 and N = 2 profiles are regular sizes
    elif rep == "interp1d":
        shape = (rng.randint(2, 4),)
    elif rep == "eqmap":
        shape = (rng.randint(3, 4),)
    else:
        shape = (2, rng.randint(2, 3))
    if structure in ("same_ne", "same_te") and shape == (1,):
        shape = (2,)
    # scale class: rates * 2^k (the balance is scale-covariant).  The n_e-weighted least-squares solve of the code is not:
    # it is accurate only while n_e * rate stays within about [1e-3, 1e11] (measured; outside: recorded finding, see the
    # scale probes in harness/c09.py), so k is drawn from [-20, 20] intersected with that window.
    import math
    scale0 = 10.0 ** rng.uniform(-16, -13) if realistic else 10.0 ** rng.uniform(-1, 1)
    ne_dec = rng.uniform(18, 20) if realistic else rng.uniform(-1, 1)
    p_lo = 0.5 * 10.0 ** ne_dec * scale0                                   # smallest n_e * smallest rate
    p_hi = 2.0 * 10.0 ** ne_dec * scale0 * 10.0 ** STREAMS[stream]["span"] * 8.0   # largest n_e * largest rate (* donor factor)
    k_lo = max(-20, int(math.ceil(math.log2(1e-2 / p_lo))))
    k_hi = min(20, int(math.floor(math.log2(1e10 / p_hi))))
    scale_pow2 = rng.randint(k_lo, k_hi) if k_lo <= k_hi else 0
    if layout != "C" and shape == (1,):
        shape = (3,)
    if layout != "C" and rep == "array2d":
        shape = rng.choice([(2, 3), (3, 2)])        # non-square
    return {"idx": idx, "rep": rep, "stream": stream, "layout": layout, "structure": structure, "sep_swap": rng.random() < 0.5, "span": STREAMS[stream]["span"], "Z": z,
            "scale": scale0, "ne_decade": ne_dec,
            "donor_mode": donor_mode, "donor": donor, "shape": shape,
            "tag": "s%d" % rng.getrandbits(40), "n_species": rng.choice([0, 1, 2]),
            "species_container": rng.choice(["dict", "ndarray"]),
            "infeasible": False, "sub": rng.getrandbits(32),
            # neutrality class: feasible / infeasible at every point / alternating along the profile (crosses the clamp) /
            # species charge exactly n_e, one ulp below, one ulp above / the same species object passed twice
            "neut_class": rng.choice(["feasible"] * 6 + ["infeasible", "mixed", "mixed", "exact", "below", "above", "repeated"]),
            # argument forms of array / scalar inputs (all accepted by the unchanged code)
            "form": rng.choice(["plain"] * 3 + ["int_te", "f32", "noncontig", "fortran", "readonly"]),
            "call_form": rng.choice(["positional", "positional", "keyword", "default_charge"]),
            "isotope": rng.random() < 0.5, "scale_pow2": scale_pow2}


def _lin1d(vals, fv):
    """a Function1D through the points: linear interpolator (the harness reads its values back by
    calling it, exactly as the implementation does)"""
    from raysect.core.math.function.float import Interpolator1DArray
    return Interpolator1DArray(np.array(fv, dtype=float), np.array(vals, dtype=float), 'linear', 'none', 0)


def _arg1d(c0, c1):
    from raysect.core.math.function.float import Arg1D
    return c0 + c1 * Arg1D()


def _arg2d(c0, c1, c2):
    from raysect.core.math.function.float import Arg2D
    return c0 + c1 * Arg2D('x') + c2 * Arg2D('y')


class Recorder:
    """wraps ionisation_balance.lsq_linear to record the matrix and right-hand side it is given"""

    def __init__(self, ib):
        self.ib = ib
        self.real = ib.lsq_linear
        self.calls = []
        self.on = False

    def __call__(self, a, b, *args, **kw):
        if self.on:
            self.calls.append((np.array(a, dtype=float), np.array(b, dtype=float), dict(kw)))
        return self.real(a, b, *args, **kw)


def run_case(ib, rec, case, rng_mod):
    """Runs the real entry points on one case.  Returns the list of points, each
    {n_e, t_e, n_d, ion, rec, cx, outs:[{kind, src, values, ...}]} in C order."""
    import random
    rng = random.Random(case["sub"])
    z, rep, shape = case["Z"], case["rep"], case["shape"]
    iso = rng.randrange(6) if case.get("isotope") else None
    el = element(z, iso)
    npts = int(np.prod(shape))
    case["scale_eff"] = case["scale"] * 2.0 ** case.get("scale_pow2", 0)      # rates scaled by a power of two: exact
    ad = make_stub(case["tag"], case["scale_eff"], case["span"])
    donor_el, donor_charge = (None, 0)
    if case["donor"] is not None:
        donor_el, donor_charge = element(case["donor"][0], iso), case["donor"][1]
    case["element_name"] = el.name
    form = case.get("form", "plain")
    neut_class = case.get("neut_class", "infeasible" if case.get("infeasible") else "feasible")
    extra_fails = []          # (claim, detail) found by the sequence / helper checks below; reported by the search
    base = 10.0 ** case["ne_decade"]

    def rnd(lo, hi):
        return rng.uniform(lo, hi)

    # ---- build input representations and read their point values back ----
    free_variable = None
    fv = None
    if rep in ("fun1d", "fun1d_scalar", "mixed1d", "interp1d", "eqmap"):
        if rep == "eqmap":
            fv = np.linspace(0.0, 1.1, shape[0])
        else:
            xs = sorted(rng.sample(range(0, 40), shape[0]))
            fv = np.array([x / 16.0 for x in xs])
        free_variable = fv if rep != "fun1d_scalar" else float(fv[0])
        case["fv"] = [float(v) for v in fv]
    elif rep in ("fun2d", "interp2d"):
        fx = np.array([0.5 + 0.75 * i + rng.randint(0, 4) / 16.0 for i in range(shape[0])])
        fy = np.array([-1.0 + 0.875 * i + rng.randint(0, 4) / 16.0 for i in range(shape[1])])
        free_variable = (fx, fy)

    def make_profile_once(lo, hi, draws, pattern):
        """returns (representation handed to the implementation, flat list of point values).
        pattern: indep (every point its own value), pairs (flat points 2j, 2j+1 share a value), const,
        x_only / y_only (2-D: the value depends on one coordinate only)"""
        if pattern == "pairs":
            flatv = [draws[k // 2] for k in range(npts)]
        elif pattern == "const":
            flatv = [draws[0]] * npts
        elif pattern == "x_only" and len(shape) == 2:
            flatv = [draws[i] for i in range(shape[0]) for j in range(shape[1])]
        elif pattern == "y_only" and len(shape) == 2:
            flatv = [draws[j] for i in range(shape[0]) for j in range(shape[1])]
        else:
            flatv = draws
        vals = np.array(flatv).reshape(shape)
        if rep == "scalar":
            v = float(vals.flat[0])
            return (v if rng.random() < 0.5 else np.float64(v)), [v]
        if rep in ("array1d", "array2d"):
            return vals.copy(), [float(v) for v in vals.flat]
        if rep in ("fun1d", "fun1d_scalar", "interp1d", "eqmap", "mixed1d"):
            kind = rng.choice(["lin", "arg", "array"]) if rep in ("mixed1d", "interp1d", "eqmap") else rng.choice(["lin", "arg"])
            if rep == "fun1d_scalar" or len(fv) < 2:
                kind = "arg"
            elif pattern == "pairs" and kind == "arg":
                kind = "lin"
            if kind == "array":
                return vals.copy(), [float(v) for v in vals.flat]
            if kind == "lin":
                f = _lin1d(vals, fv)
            elif pattern == "const":
                f = _arg1d(draws[0], 0.0)
            else:
                f = _arg1d(quant(rnd(lo, hi)), quant(rnd(0.0, (hi - lo) / 4.0), 6))
            xs = fv if rep != "fun1d_scalar" else [fv[0]]
            return f, [float(f(float(x))) for x in xs]
        if rep in ("fun2d", "interp2d"):
            kind = rng.choice(["interp", "arg"])
            if pattern == "pairs":
                kind = "interp"
            if kind == "interp":
                from raysect.core.math.function.float import Interpolator2DArray
                f = Interpolator2DArray(free_variable[0], free_variable[1], vals, 'linear', 'none', 0, 0)
            else:
                c1 = quant(rnd(0.0, (hi - lo) / 8.0), 6)
                c2 = quant(rnd(0.0, (hi - lo) / 8.0), 6)
                if pattern in ("const", "y_only"):
                    c1 = 0.0
                if pattern in ("const", "x_only"):
                    c2 = 0.0
                f = _arg2d(quant(rnd(lo, hi)) + c2, c1, c2)     # y >= -1 on the grid
            return f, [float(f(float(x), float(y))) for x in free_variable[0] for y in free_variable[1]]
        raise AssertionError(rep)

    def apply_form(arr, float32_ok, integer):
        """unusual but valid array forms (values unchanged): integer dtype, float32 where exact, non-contiguous view,
        Fortran order, read-only"""
        if integer:
            return arr.astype(np.int64)
        if form == "f32" and float32_ok and np.all(arr.astype(np.float32).astype(np.float64) == arr):
            return arr.astype(np.float32)
        if form == "noncontig":
            v = np.repeat(arr, 2, axis=-1)[..., ::2]
            assert not v.flags["C_CONTIGUOUS"] or v.size <= 1
            return v
        if form == "fortran" and arr.ndim == 2:
            return np.asfortranarray(arr)
        if form == "readonly":
            v = arr.copy()
            v.setflags(write=False)
            return v
        return arr

    def make_profile(lo, hi, positive=True, allow_zero=False, pattern="indep", integer=False, float32_ok=False, negzero=False):
        """make_profile_once, then the values the representation actually yields at the evaluated points are read back
        and checked against the domain: a value meant to be exactly zero must read back as exactly 0.0 and no value may
        be negative (linear interpolation at a knot next to a large neighbour can return -ulp instead of 0); offending
        draws are replaced by positive ones and the representation is rebuilt.  Exact zeros therefore stay a regular
        boundary class wherever the representation reproduces them exactly (arrays always, functions when exact)."""
        draws = [quant(rnd(lo, hi)) for _ in range(npts)]
        if integer:
            draws = [float(rng.randint(int(lo) + 1, int(hi))) for _ in range(npts)]
        if allow_zero and pattern == "indep" and rng.random() < 0.4:
            if rng.random() < 0.5 or npts < 3:
                draws[rng.randrange(npts)] = 0.0
            else:                                   # positive -> zero -> positive -> ... along the profile
                draws = [d if k % 2 == 0 else 0.0 for k, d in enumerate(draws)]
        for attempt in range(8):
            r, pts_v = make_profile_once(lo, hi, draws, pattern)
            if isinstance(r, np.ndarray):
                r = apply_form(r, float32_ok, integer)
            elif rep == "scalar" and integer:
                r = int(r) if rng.random() < 0.5 else np.int64(r)
            elif rep == "scalar" and float32_ok and form == "f32" and float(np.float32(r)) == float(r):
                r = np.float32(r)
            bad = [k for k, v in enumerate(pts_v) if v < 0.0 or (lo > 0.0 and v <= 0.0 and 0.0 not in draws) or
                   (0.0 in draws and v != 0.0 and abs(v) < 1e-9 * hi)]
            if not bad:
                if negzero and isinstance(r, np.ndarray) and r.dtype == np.float64 and r.flags.writeable:
                    r[r == 0.0] = -0.0                      # -0.0 is a valid zero density
                return r, pts_v
            draws = [quant(rnd(max(lo, 0.01 * hi), hi)) if d == 0.0 else d for d in draws]
        raise GeneratorDomainError("could not build a %s profile in [%r, %r] inside the domain: %r" % (rep, lo, hi, pts_v))

    # structure of the profile: which inputs share values between points (every point is still compared
    # with the model evaluated at ITS OWN (n_e, t_e, n_D))
    structure = case.get("structure", "indep")
    a_only, b_only = ("y_only", "x_only") if case.get("sep_swap") else ("x_only", "y_only")
    pat_ne, pat_te, pat_nd = {
        "indep": ("indep", "indep", "indep"),
        "same_net": ("pairs", "pairs", "indep"),      # repeated (n_e, t_e), different donor density
        "const_net": ("const", "const", "indep"),     # constant n_e, t_e, varying donor
        "same_ne": ("pairs", "indep", "indep"),       # repeated n_e, different t_e
        "same_te": ("indep", "pairs", "indep"),       # repeated t_e, different n_e
        "const_donor": ("indep", "indep", "const"),   # varying n_e, t_e, constant donor
        "sep2d": (a_only, a_only, b_only),            # n_e, t_e depend on one coordinate, the donor on the other
    }[structure]

    ne_rep, ne_pts = make_profile(0.5 * base, 2.0 * base, pattern=pat_ne)
    te_rep, te_pts = make_profile(1.0, 1000.0, pattern=pat_te, integer=(form == "int_te"), float32_ok=True)
    if rep == "mixed1d" and not isinstance(ne_rep, np.ndarray) and not isinstance(te_rep, np.ndarray):
        te_arr = np.array(te_pts)
        te_rep, te_pts = te_arr, [float(v) for v in te_arr]
    nd_rep, nd_pts = None, [0.0] * npts
    if case["donor_mode"] == "donor":
        nd_rep, nd_pts = make_profile(0.01 * base, 3.0 * base, allow_zero=True, pattern=pat_nd, negzero=rng.random() < 0.5)
    elif case["donor_mode"] == "donor_zero":
        nd_rep, nd_pts = make_profile(0.0, 0.0)
    elif case["donor_mode"] == "donor_negzero":
        nd_rep, nd_pts = make_profile(0.0, 0.0, negzero=True)
    elif case["donor_mode"] == "donor_tiny":                 # negligible but non-zero donor
        nd_rep, nd_pts = make_profile(base * 2.0 ** -25, base * 2.0 ** -24)
    elif case["donor_mode"] == "dens_nodonor":               # a donor density without a donor species: must be ignored
        nd_rep, nd_pts = make_profile(0.01 * base, 3.0 * base)
    nel_rep, nel_pts = make_profile(1e-4 * base, 1e-2 * base, float32_ok=True)
    # species for the neutrality variant: arrays (n_states, *shape) or dicts {charge: profile}.  The model indexes by
    # charge; the dictionaries are handed over in descending / random / ascending key order, with int / numpy-integer /
    # mixed keys, hand-made or taken from the package's own from_elementdensity / interpolators output and re-ordered.
    def reorder(d):
        keys = sorted(d)
        mode = rng.choice(["desc", "random", "random", "asc"])
        if mode == "desc":
            keys.reverse()
        elif mode == "random":
            rng.shuffle(keys)
            if keys == sorted(keys) and len(keys) > 1:
                keys.reverse()
        keytype = rng.choice(["int", "npint", "mixed"])

        def conv(i, k):
            if keytype == "npint" or (keytype == "mixed" and i % 2 == 0):
                return np.int64(k)
            return int(k)
        case.setdefault("species_orders", []).append(mode + "/" + keytype)
        return {conv(i, k): d[k] for i, k in enumerate(keys)}

    own_kw = {}
    if free_variable is not None and rep not in ("interp1d", "interp2d", "eqmap"):
        own_kw["free_variable"] = free_variable if not isinstance(free_variable, tuple) else (free_variable[0].copy(), free_variable[1].copy())
    species_reps, species_pts = [], []
    nsp = max(case["n_species"], 0 if neut_class == "feasible" else 1)
    if neut_class in ("exact", "below", "above"):
        # one species whose charge is exactly n_e / one ulp below / one ulp above at every point: the clamp
        # `element_n_e < 0` is met at its boundary (n_e - 1 * v is exact in floating point)
        nsp = 0
        edge = {"exact": lambda v: v, "below": lambda v: float(np.nextafter(v, 0.0)), "above": lambda v: float(np.nextafter(v, np.inf))}[neut_class]
        rows = [[quant(rnd(0, base)) for _ in range(npts)], [edge(v) for v in ne_pts]]
        species_pts.append(rows)
        species_reps.append(reorder({c: np.array(rows[c]).reshape(shape) for c in range(2)}))
        case.setdefault("species_sources", []).append("edge-" + neut_class)
    for s in range(nsp):
        zs = rng.randint(1, 6)
        amp = (2.0 if neut_class == "infeasible" else 0.2) * base / (nsp * zs)
        source = rng.choice(["hand", "hand", "own"]) if neut_class != "mixed" else "hand"
        if source == "own":
            h = amp * (zs + 1) / 2.0
            nel2_rep, _ = make_profile(0.1 * h, h)
            if rep in ("interp1d", "eqmap"):
                d = ib.interpolators1d_from_elementdensity(ad, element(zs), fv.copy(), nel2_rep, ne_rep, te_rep)
                pts_s = [[float(d[c](float(x))) for x in fv] for c in range(zs + 1)]
            elif rep == "interp2d":
                d = ib.interpolators2d_from_elementdensity(ad, element(zs), (free_variable[0].copy(), free_variable[1].copy()),
                                                           nel2_rep, ne_rep, te_rep)
                pts_s = [[float(d[c](float(x), float(y))) for x in free_variable[0] for y in free_variable[1]] for c in range(zs + 1)]
            else:
                d = ib.from_elementdensity(ad, element(zs), nel2_rep, ne_rep, te_rep, **own_kw)
                pts_s = [[float(v) for v in np.asarray(d[c]).reshape(-1)] for c in range(zs + 1)]
            case.setdefault("species_sources", []).append("own-output")
            species_reps.append(reorder(dict(d)))
            species_pts.append(pts_s)
            continue
        case.setdefault("species_sources", []).append("hand-made")
        arr = np.array([[quant(rnd(0, amp)) * (16.0 if neut_class == "mixed" and k % 2 == 1 else 1.0) for k in range(npts)]
                        for _ in range(zs + 1)]).reshape((zs + 1,) + tuple(shape))     # mixed: feasible, infeasible, feasible, ...
        if rep in ("fun1d", "interp1d", "eqmap") and rng.random() < 0.5 and len(fv) >= 2:
            d = {c: _lin1d(arr[c], fv) for c in range(zs + 1)}
            species_reps.append(reorder(d))
            species_pts.append([[float(d[c](float(x))) for x in fv] for c in range(zs + 1)])
        else:
            if case["species_container"] == "dict" or rep in ("scalar", "fun1d_scalar"):
                if rep in ("scalar", "fun1d_scalar"):
                    species_reps.append(reorder({c: np.array([float(arr[c].flat[0])]) for c in range(zs + 1)}))
                else:
                    species_reps.append(reorder({c: arr[c].copy() for c in range(zs + 1)}))
            else:
                case.setdefault("species_orders", []).append("ndarray")
                species_reps.append(arr.copy())
            species_pts.append([[float(v) for v in arr[c].flat] for c in range(zs + 1)])
    if neut_class == "repeated" and species_reps:
        species_reps.append(species_reps[0])              # the very same object twice: counted twice
        species_pts.append(species_pts[0])
    # species read back through interpolators may come out as -ulp next to a large neighbour: hand those over as arrays
    for si in range(len(species_reps)):
        if any(v < 0.0 for row in species_pts[si] for v in row):
            species_pts[si] = [[max(v, 0.0) for v in row] for row in species_pts[si]]
            species_reps[si] = reorder({c: np.array(row).reshape(shape) for c, row in enumerate(species_pts[si])})
            case.setdefault("species_sources", []).append("clamped-to-array")
    # ---- memory layout of the array arguments (values and indices unchanged): all arrays in the same non-C layout, one
    # array alone, or a random mixture.  F = Fortran order, T = transposed view of a C buffer, R = reversed view (negative
    # strides), S = strided view of a larger buffer.
    layout = case.get("layout", "C")

    def in_layout(arr, kind):
        arr = np.asarray(arr)
        if kind == "C" or arr.size <= 1:
            return arr
        if kind in ("F", "T") and arr.ndim == 1:
            kind = "R"
        if kind == "F":
            v = np.asfortranarray(arr)
        elif kind == "T":
            v = np.ascontiguousarray(arr.T).T
        elif kind == "R":
            rev = (slice(None, None, -1),) * arr.ndim
            v = np.ascontiguousarray(arr[rev])[rev]
        else:
            big = np.zeros(tuple(2 * n + 1 for n in arr.shape), dtype=arr.dtype)
            sl = tuple(slice(1, None, 2) for _ in arr.shape)
            big[sl] = arr
            v = big[sl]
        assert v.shape == arr.shape and v.dtype == arr.dtype and np.array_equal(v, arr)
        assert not v.flags["C_CONTIGUOUS"] or (kind in ("F", "T") and 1 in v.shape)
        return v

    arg_layouts = {}
    if layout != "C":
        names = ["n_e", "t_e", "tcx_donor_n", "element_density"] + ["species%d" % i for i in range(len(species_reps))]
        kinds = ["F", "T", "R", "S"]
        if layout.startswith("all_"):
            arg_layouts = {nm: layout[4:] for nm in names}
        elif layout == "alone":
            arg_layouts = {rng.choice(names[:4]): rng.choice(kinds)}
        else:
            arg_layouts = {nm: rng.choice(kinds + ["C"]) for nm in names}
        c_contig = {"n_e": ne_rep, "t_e": te_rep, "tcx_donor_n": nd_rep, "element_density": nel_rep, "species": list(species_reps)}
        if isinstance(ne_rep, np.ndarray):
            ne_rep = in_layout(ne_rep, arg_layouts.get("n_e", "C"))
        if isinstance(te_rep, np.ndarray):
            te_rep = in_layout(te_rep, arg_layouts.get("t_e", "C"))
        if isinstance(nd_rep, np.ndarray):
            nd_rep = in_layout(nd_rep, arg_layouts.get("tcx_donor_n", "C"))
        if isinstance(nel_rep, np.ndarray):
            nel_rep = in_layout(nel_rep, arg_layouts.get("element_density", "C"))
        for si in range(len(species_reps)):
            if isinstance(species_reps[si], dict) and all(isinstance(v, np.ndarray) for v in species_reps[si].values()):
                species_reps[si] = {k: in_layout(v, arg_layouts.get("species%d" % si, "C")) for k, v in species_reps[si].items()}
        case["arg_layouts"] = dict(arg_layouts)
    if rng.random() < 0.5:
        species_reps = tuple(species_reps)        # the container of species: list or tuple
    # ---- the property's domain, asserted on the values every representation yields at every evaluated point ----
    dom = []
    if not all(v > 0.0 and np.isfinite(v) for v in ne_pts):
        dom.append("n_e <= 0: %r" % ne_pts)
    if not all(v > 0.0 and np.isfinite(v) for v in te_pts):
        dom.append("t_e <= 0: %r" % te_pts)
    if not all(v >= 0.0 and np.isfinite(v) for v in nd_pts):
        dom.append("donor density < 0: %r" % nd_pts)
    if not all(v > 0.0 and np.isfinite(v) for v in nel_pts):
        dom.append("element density <= 0: %r" % nel_pts)
    if not all(v >= 0.0 and np.isfinite(v) for sp in species_pts for row in sp for v in row):
        dom.append("species density < 0")
    if not (len(ne_pts) == len(te_pts) == len(nd_pts) == len(nel_pts) == npts):
        dom.append("point counts differ")
    if dom:
        raise GeneratorDomainError("; ".join(dom))

    points = []
    for k in range(npts):
        ion, rc, cx = point_rates(case, ne_pts[k], te_pts[k])
        points.append({"n_e": ne_pts[k], "t_e": te_pts[k], "n_d": nd_pts[k], "ion": ion, "rec": rc, "cx": cx,
                       "species": [[col[k] for col in sp] for sp in species_pts], "n_el": nel_pts[k], "outs": [],
                       "matrix": None})

    kw = {}
    if free_variable is not None and rep not in ("interp1d", "interp2d", "eqmap"):
        kw["free_variable"] = free_variable if not isinstance(free_variable, tuple) else (free_variable[0].copy(), free_variable[1].copy())
        if isinstance(free_variable, tuple) and rng.random() < 0.5:
            kw["free_variable"] = list(kw["free_variable"])      # list or tuple of coordinate arrays
    # the donor arguments positionally, as keywords, or leaving tcx_donor_charge to its default (when it is 0)
    call_form = case.get("call_form", "positional")
    donor_args, dk = (donor_el, nd_rep, donor_charge), {}
    if call_form == "keyword":
        donor_args, dk = (), {"tcx_donor": donor_el, "tcx_donor_n": nd_rep, "tcx_donor_charge": donor_charge}
    elif call_form == "default_charge" and donor_charge == 0:
        donor_args = (donor_el, nd_rep)
    inputs_before = [(nm, r.copy()) for nm, r in (("n_e", ne_rep), ("t_e", te_rep), ("tcx_donor_n", nd_rep), ("element_density", nel_rep))
                     if isinstance(r, np.ndarray)]

    def flat(dct):
        """{charge: array} -> per point list over charge"""
        arrs = [np.asarray(dct[c], dtype=float).reshape(-1) for c in range(z + 1)]
        assert len(dct) == z + 1 and all(a.size == npts for a in arrs), (len(dct), [a.shape for a in arrs])
        if not all(np.all(np.isfinite(a)) for a in arrs):
            raise NonFinite("non-finite value in %s" % [a.tolist() for a in arrs][:3])
        return [[float(a[k]) for a in arrs] for k in range(npts)]

    def add(kind, src, per_point, **extra):
        for k in range(npts):
            if not all(np.isfinite(v) for v in per_point[k]):
                raise NonFinite("non-finite value from %s: %s" % (src, per_point[k][:4]))
            o = {"kind": kind, "src": src, "values": per_point[k]}
            for key, val in extra.items():
                o[key] = val[k]
            points[k]["outs"].append(o)

    nel_list = [p["n_el"] for p in points]
    sp_list = [p["species"] for p in points]
    if rep in ("scalar", "array1d", "array2d", "fun1d", "fun1d_scalar", "fun2d", "mixed1d"):
        rec.calls, rec.on = [], True
        out = ib.fractional_abundance(ad, el, ne_rep, te_rep, *donor_args, **dk, **kw)
        rec.on = False
        if len(rec.calls) == npts:
            for k in range(npts):
                points[k]["matrix"] = (rec.calls[k][0].tolist(), rec.calls[k][1].tolist(), rec.calls[k][2])
        case["lsq_calls_seen"] = len(rec.calls)
        add("frac", "fractional_abundance[%s]" % rep, flat(out))
        out = ib.from_elementdensity(ad, el, nel_rep, ne_rep, te_rep, *donor_args, **dk, **kw)
        add("dens", "from_elementdensity[%s]" % rep, flat(out), n_el=nel_list)
        out = ib.match_plasma_neutrality(ad, el, species_reps, ne_rep, te_rep, *donor_args, **dk, **kw)
        add("neut", "match_plasma_neutrality[%s]" % rep, flat(out), species=sp_list)
    elif rep == "interp1d":
        itp = ib.interpolators1d_fractional(ad, el, fv.copy(), ne_rep, te_rep, *donor_args, **dk)
        add("frac", "interpolators1d_fractional@knots", [[float(itp[c](float(x))) for c in range(z + 1)] for x in fv])
        case["lerp"] = []
        for k in range(npts - 1):
            w = F(rng.randint(1, 15), 16)
            x = float(F(fv[k]) + w * (F(fv[k + 1]) - F(fv[k])))
            wex = (F(x) - F(fv[k])) / (F(fv[k + 1]) - F(fv[k]))
            case["lerp"].append({"k": k, "other": k + 1, "w": wex, "x": x, "knots": [float(v) for v in fv], "scale": 1.0, "src": "interpolators1d_fractional@%r" % x,
                                 "values": [float(itp[c](x)) for c in range(z + 1)]})
        itp = ib.interpolators1d_from_elementdensity(ad, el, fv.copy(), nel_rep, ne_rep, te_rep, *donor_args, **dk)
        add("dens", "interpolators1d_from_elementdensity@knots",
            [[float(itp[c](float(x))) for c in range(z + 1)] for x in fv], n_el=nel_list)
        itp = ib.interpolators1d_match_plasma_neutrality(ad, el, fv.copy(), species_reps, ne_rep, te_rep, *donor_args, **dk)
        add("neut", "interpolators1d_match_plasma_neutrality@knots",
            [[float(itp[c](float(x))) for c in range(z + 1)] for x in fv], species=sp_list)
    elif rep == "interp2d":
        fx, fy = free_variable
        grid = [(float(x), float(y)) for x in fx for y in fy]
        itp = ib.interpolators2d_fractional(ad, el, (fx.copy(), fy.copy()), ne_rep, te_rep, *donor_args, **dk)
        add("frac", "interpolators2d_fractional@knots", [[float(itp[c](x, y)) for c in range(z + 1)] for x, y in grid])
        itp = ib.interpolators2d_from_elementdensity(ad, el, (fx.copy(), fy.copy()), nel_rep, ne_rep, te_rep, *donor_args, **dk)
        add("dens", "interpolators2d_from_elementdensity@knots",
            [[float(itp[c](x, y)) for c in range(z + 1)] for x, y in grid], n_el=nel_list)
        itp = ib.interpolators2d_match_plasma_neutrality(ad, el, (fx.copy(), fy.copy()), species_reps, ne_rep, te_rep, *donor_args, **dk)
        add("neut", "interpolators2d_match_plasma_neutrality@knots",
            [[float(itp[c](x, y)) for c in range(z + 1)] for x, y in grid], species=sp_list)
        itp = ib.interpolators2d_fractional(ad, el, (fx.copy(), fy.copy()), ne_rep, te_rep, *donor_args, **dk)
        mp = ib.abundance_axisymmetric_mapper(dict(reversed(list(itp.items()))))      # keys in descending order
        # between the knots: one point inside every cell, through the interpolator and through the axisymmetric mapper
        import math
        case["lerp2"] = []
        ny_ = len(fy)
        for i in range(len(fx) - 1):
            for j in range(ny_ - 1):
                xq = float(F(fx[i]) + F(rng.randint(1, 15), 16) * (F(fx[i + 1]) - F(fx[i])))
                yq = float(F(fy[j]) + F(rng.randint(1, 15), 16) * (F(fy[j + 1]) - F(fy[j])))
                case["lerp2"].append({"k": i * ny_ + j, "i": i, "j": j, "x": xq, "y": yq, "ny": ny_,
                                      "xs": [float(v) for v in fx], "ys": [float(v) for v in fy],
                                      "src": "interpolators2d_fractional@(%r,%r)" % (xq, yq),
                                      "values": [float(itp[c](xq, yq)) for c in range(z + 1)]})
                xx, yy = xq * 0.6, xq * 0.8
                rr = math.sqrt(xx * xx + yy * yy)                    # the radius the mapper evaluates the 2-D function at
                if fx[i] <= rr <= fx[i + 1]:
                    case["lerp2"].append({"k": i * ny_ + j, "i": i, "j": j, "x": rr, "y": yq, "ny": ny_,
                                          "xs": [float(v) for v in fx], "ys": [float(v) for v in fy],
                                          "src": "abundance_axisymmetric_mapper@(%r,%r,%r)" % (xx, yy, yq),
                                          "values": [float(mp[c](xx, yy, yq)) for c in range(z + 1)]})
        add("frac", "abundance_axisymmetric_mapper(interpolators2d_fractional)@knots",
            [[float(mp[c](x * 0.6, x * 0.8, y)) for c in range(z + 1)] for x, y in grid])
    elif rep == "eqmap":
        eq = rng_mod["equilibrium"]()
        out = ib.fractional_abundance(ad, el, ne_rep, te_rep, *donor_args, free_variable=fv.copy(), **dk)
        add("frac", "fractional_abundance[psin grid]", flat(out))
        m3 = ib.equilibrium_map3d_fractional(ad, el, eq, fv.copy(), ne_rep, te_rep, *donor_args, **dk)
        md = ib.equilibrium_map3d_from_elementdensity(ad, el, eq, fv.copy(), nel_rep, ne_rep, te_rep, *donor_args, **dk)
        case["lerp"] = []
        ax = eq.magnetic_axis
        tries = 0
        while len(case["lerp"]) < 2 * (npts - 1) and tries < 200:
            tries += 1
            r, zz = ax.x + rnd(-0.6, 0.6), ax.y + rnd(-0.8, 0.8)
            if not eq.inside_lcfs(r, zz) > 0.5:
                continue
            ps = float(eq.psi_normalised(r, zz))
            ks = [k for k in range(npts - 1) if fv[k] <= ps < fv[k + 1]]
            if not ks:
                continue
            k = ks[0]
            wex = (F(ps) - F(fv[k])) / (F(fv[k + 1]) - F(fv[k]))
            if len(case["lerp"]) % 2 == 0:
                case["lerp"].append({"k": k, "other": k + 1, "w": wex, "x": ps, "knots": [float(v) for v in fv], "scale": 1.0,
                                     "src": "equilibrium_map3d_fractional@(%r,0,%r)" % (r, zz),
                                     "values": [float(m3[c](r, 0.0, zz)) for c in range(z + 1)]})
            else:
                # densities: linear interpolation of f_k * n_el_k; compare through the two knots' models
                case["lerp"].append({"k": k, "other": k + 1, "w": wex, "x": ps, "knots": [float(v) for v in fv], "scale": None, "n_el": (nel_list[k], nel_list[k + 1]),
                                     "src": "equilibrium_map3d_from_elementdensity@(%r,0,%r)" % (r, zz),
                                     "values": [float(md[c](r, 0.0, zz)) for c in range(z + 1)]})
        mn = ib.equilibrium_map3d_match_plasma_neutrality(ad, el, eq, fv.copy(), species_reps, ne_rep, te_rep, *donor_args, **dk)
        # cubic interpolation between knots (map3d of an (x, y) pair): compared at the knots' flux surfaces only
        case["eq_neut"] = []
        for k in range(npts):
            if 0.02 < fv[k] < 0.98:
                r = float(eq.psin_to_r(float(fv[k])))
                case["eq_neut"].append({"k": k, "r": r, "psin_at_r": float(eq.psi_normalised(r, ax.y)),
                                        "values": [float(mn[c](r, 0.0, ax.y)) for c in range(z + 1)]})
        out = ib.match_plasma_neutrality(ad, el, species_reps, ne_rep, te_rep, *donor_args, free_variable=fv.copy(), **dk)
        add("neut", "match_plasma_neutrality[psin grid]", flat(out), species=sp_list)
    else:
        raise AssertionError(rep)
    # ---- histories: the same stub, element and input objects used again; donor -> no donor -> donor -----------------
    if rep in ("scalar", "array1d", "array2d", "fun1d", "fun1d_scalar", "fun2d", "mixed1d"):
        first = [o["values"] for o in (pt["outs"][0] for pt in points)]
        again = flat(ib.fractional_abundance(ad, el, ne_rep, te_rep, *donor_args, **dk, **kw))
        if again != first:
            extra_fails.append(("a second call with the same objects returns a different result", "fractional_abundance[%s]" % rep))
        nod = flat(ib.fractional_abundance(ad, el, ne_rep, te_rep, **kw))           # no donor in between
        for k, pt in enumerate(points):
            ex0, _ = closed_form(pt["ion"], pt["rec"], None, pt["n_e"], 0.0)
            if max(abs(F(a) - b) for a, b in zip(nod[k], ex0)) > base_tol(ex0):
                extra_fails.append(("no-donor call after a donor call does not return the no-donor balance",
                                    "fractional_abundance[%s] point %d: %s" % (rep, k, nod[k][:4])))
                break
        third = flat(ib.fractional_abundance(ad, el, ne_rep, te_rep, *donor_args, **dk, **kw))
        if third != first:
            extra_fails.append(("donor call after a no-donor call differs from the first donor call", "fractional_abundance[%s]" % rep))
        d2 = flat(ib.from_elementdensity(ad, el, nel_rep, ne_rep, te_rep, *donor_args, **dk, **kw))
        if d2 != [o["values"] for pt in points for o in pt["outs"] if o["kind"] == "dens"]:
            extra_fails.append(("a second call with the same objects returns a different result", "from_elementdensity[%s]" % rep))
    # same values, different memory layout => identical result arrays (implementation-level check)
    if layout != "C" and rep in ("array1d", "array2d", "mixed1d"):
        cc = lambda r: np.ascontiguousarray(r).copy() if isinstance(r, np.ndarray) else r
        dargs_c = tuple(cc(a) for a in donor_args)
        dk_c = {k_: cc(v) for k_, v in dk.items()}
        sp_c = [({k_: cc(v) for k_, v in sp.items()} if isinstance(sp, dict) else cc(sp)) for sp in species_reps]
        for nm, got, ref in (
                ("fractional_abundance", ib.fractional_abundance(ad, el, ne_rep, te_rep, *donor_args, **dk, **kw),
                 ib.fractional_abundance(ad, el, cc(ne_rep), cc(te_rep), *dargs_c, **dk_c, **kw)),
                ("from_elementdensity", ib.from_elementdensity(ad, el, nel_rep, ne_rep, te_rep, *donor_args, **dk, **kw),
                 ib.from_elementdensity(ad, el, cc(nel_rep), cc(ne_rep), cc(te_rep), *dargs_c, **dk_c, **kw)),
                ("match_plasma_neutrality", ib.match_plasma_neutrality(ad, el, species_reps, ne_rep, te_rep, *donor_args, **dk, **kw),
                 ib.match_plasma_neutrality(ad, el, sp_c, cc(ne_rep), cc(te_rep), *dargs_c, **dk_c, **kw))):
            if not all(np.array_equal(np.asarray(got[c]), np.asarray(ref[c])) for c in range(z + 1)):
                extra_fails.append(("same values in a different memory layout give a different result array",
                                    "%s[%s], layouts %s" % (nm, rep, arg_layouts)))
    for nm, before in inputs_before:
        now = {"n_e": ne_rep, "t_e": te_rep, "tcx_donor_n": nd_rep, "element_density": nel_rep}[nm]
        if not (now.shape == before.shape and now.dtype == before.dtype and np.array_equal(now, before)):
            extra_fails.append(("an entry point modified its input array", nm))
    # ---- second-order call sites at point 0: rate helpers, private point / array functions with rates loaded by default
    # and with the rates handed over explicitly (the path of fix ff3e771) -------------------------------------------------
    p0 = points[0]
    ci, cr = ib.get_rates_ionisation(ad, el), ib.get_rates_recombination(ad, el)
    ct = ib.get_rates_tcx(ad, donor_el, donor_charge, el) if donor_el is not None else None
    if sorted(int(k) for k in ci) != list(range(z)) or sorted(int(k) for k in cr) != list(range(1, z + 1)) or \
            (ct is not None and sorted(int(k) for k in ct) != list(range(1, z + 1))):
        extra_fails.append(("get_rates_* returned the wrong set of charges", "%s %s" % (sorted(ci), sorted(cr))))
    else:
        got = ([ci[c](p0["n_e"], p0["t_e"]) for c in range(z)], [cr[c](p0["n_e"], p0["t_e"]) for c in range(1, z + 1)],
               None if ct is None else [ct[c](p0["n_e"], p0["t_e"]) for c in range(1, z + 1)])
        if got != (p0["ion"], p0["rec"], p0["cx"]):
            extra_fails.append(("get_rates_* returned rates of the wrong charge / element / donor", "point 0"))
        nd0 = p0["n_d"] if donor_el is not None else 0
        sp0 = [[float(v) for v in spc] for spc in p0["species"]]
        helper_outs = [
            ("frac", "_fractional_abundance_point", lambda: ib._fractional_abundance_point(el, p0["n_e"], p0["t_e"], ci, cr, ct, nd0), {}),
            ("frac", "_fractional_abundance(explicit rates)",
             lambda: ib._fractional_abundance(ad, el, np.array([p0["n_e"]]), np.array([p0["t_e"]]), donor_el, np.array([nd0]),
                                              donor_charge, ci, cr, ct)[:, 0], {}),
            ("frac", "_fractional_abundance(default rates)",
             lambda: ib._fractional_abundance(ad, el, np.array([p0["n_e"]]), np.array([p0["t_e"]]), donor_el, np.array([nd0]),
                                              donor_charge)[:, 0], {}),
            ("dens", "_from_element_density_point(default rates)",
             lambda: ib._from_element_density_point(ad, el, p0["n_el"], p0["n_e"], p0["t_e"], donor_el, nd0, donor_charge), {"n_el": p0["n_el"]}),
            ("dens", "_from_element_density_point(explicit rates)",
             lambda: ib._from_element_density_point(ad, el, p0["n_el"], p0["n_e"], p0["t_e"], donor_el, nd0, donor_charge, ci, cr, ct),
             {"n_el": p0["n_el"]}),
            ("neut", "_match_element_density_point(default rates)",
             lambda: ib._match_element_density_point(ad, el, sp0, p0["n_e"], p0["t_e"], donor_el, nd0, donor_charge), {"species": p0["species"]}),
            ("neut", "_match_element_density_point(explicit rates)",
             lambda: ib._match_element_density_point(ad, el, sp0, p0["n_e"], p0["t_e"], donor_el, nd0, donor_charge, ci, cr, ct),
             {"species": p0["species"]}),
        ]
        for kind, src, fn, extra in helper_outs:
            vals = [float(v) for v in np.asarray(fn(), dtype=float).reshape(-1)]
            if len(vals) != z + 1 or not all(np.isfinite(v) for v in vals):
                raise NonFinite("non-finite / mis-shaped value from %s: %s" % (src, vals[:4]))
            p0["outs"].append(dict({"kind": kind, "src": src, "values": vals, "coq": False}, **extra))
    p0["extra_fails"] = extra_fails
    # reference for the cross-entry-point agreement: the scalar entry point at every point's own values
    # (search only; the scalar entry point itself is tied to the model by the scalar cases)
    if npts > 1 or rep not in ("scalar",):
        for k, pt in enumerate(points):
            nd_k = None if nd_rep is None else pt["n_d"]
            out = ib.fractional_abundance(ad, el, pt["n_e"], pt["t_e"], donor_el, nd_k, donor_charge)
            vals = [float(np.asarray(out[c]).reshape(-1)[0]) for c in range(z + 1)]
            pt["outs"].insert(0, {"kind": "frac", "src": "fractional_abundance[scalar call at this point]", "values": vals, "coq": False})
    return points


# ---------------------------------------------------------------------------------------------
# argument policy of fractional_abundance: every combination of argument forms, run on the implementation; the
# expected outcome is computed by the Coq model (Model/C09_Interp.fractional_args)
# ---------------------------------------------------------------------------------------------
def policy_table(ib):
    import itertools
    from raysect.core.math.function.float import Arg2D
    ad = make_stub("policy", 1e-14, 1.0)
    el, h = element(2), element(1)

    def mk(kind, lo):
        if kind == "scalar":
            return lo * 2.0, "AScalar"
        if kind == "a3":
            return np.array([1., 2., 3.]) * lo, "(AArray [3%nat])"
        if kind == "a23":
            return np.outer([1., 2.], [1., 2., 3.]) * lo, "(AArray [2%nat; 3%nat])"
        if kind == "a0":
            return np.array(2.0 * lo), "(AArray [])"
        if kind == "a1":
            return np.array([2.0 * lo]), "(AArray [1%nat])"
        if kind == "fun1":
            return _arg1d(lo, lo), "AFun1"
        if kind == "fun2":
            return lo + lo * Arg2D('x') + 0 * Arg2D('y'), "AFun2"
        if kind == "list":
            return [lo, 2 * lo, 3 * lo], "AOther"
        raise AssertionError(kind)

    fvs = {"none": (None, "FNone"), "scalar": (0.5, "FScalar"), "f3": (np.array([0., 1., 2.]), "(F1 3)"),
           "f23": ((np.array([0., 1.]), np.array([0., 1., 2.])), "(F2 2 3)")}
    kinds = ["scalar", "a3", "a23", "a0", "a1", "fun1", "fun2", "list"]
    rows = []
    for nek, tek, ndk, fvk in itertools.product(kinds, kinds, ["none", "scalar", "a3", "a23", "fun1", "fun2", "a1"], list(fvs)):
        ne, cne = mk(nek, 1e18)
        te, cte = mk(tek, 10.0)
        nd, cnd = (None, "None") if ndk == "none" else mk(ndk, 1e17)
        if ndk != "none":
            cnd = "(Some %s)" % cnd
        fv, cfv = fvs[fvk]
        kw = {} if fv is None else {"free_variable": fv if not isinstance(fv, tuple) else (fv[0].copy(), fv[1].copy())}
        try:
            out = ib.fractional_abundance(ad, el, ne, te, h, nd, 0, **kw)
            res = [1] + [int(v) for v in np.asarray(out[0]).shape]
            if sorted(out) != [0, 1, 2] or any(np.asarray(out[c]).shape != np.asarray(out[0]).shape for c in out):
                res = [9]
        except ValueError:
            res = [2]
        except Exception:
            res = [3]
        rows.append({"form": "n_e=%s t_e=%s tcx_donor_n=%s free_variable=%s" % (nek, tek, ndk, fvk), "impl": res,
                     "coq": "fractional_args %s %s %s %s" % (cfv, cne, cte, cnd)})
    keys = {}
    for zz in (1, 2, 7, 18):
        e = element(zz)
        keys[zz] = ([int(k) for k in ib.get_rates_ionisation(ad, e)], [int(k) for k in ib.get_rates_recombination(ad, e)],
                    [int(k) for k in ib.get_rates_tcx(ad, h, 0, e)])
    return rows, keys
