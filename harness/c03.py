"""C03 -- Passive emission models radiate exactly their documented totals.

Theorems: coq/Properties/C03.v (every provider, every composition length, every sign of density/temperature).
Tie:  (T) the constants of cherab/core/utility/constants.pyx are re-read on every run into coq/Gen/C03/Consts.v and a
          kernel-checked lemma says they are the CODATA values / the doubles the model uses;
      (X) the real ExcitationLine, RecombinationLine, ThermalCXLine, TotalRadiatedPower, BremsFunction, Bremsstrahlung
          and RadiationFunction are run on stub plasmas with a stub provider (harness/c03_impl.py); accessor calls,
          evaluate() arguments, the line-shape target and the radiance / spectrum samples are compared inside Coq with
          the model (coq/Model/C03_Check.v, vm_compute).
Search: the executable statement of the property (documented formulas in exact rational arithmetic, zero below the guards,
        sign, linearity by doubling a density, real GaussianLine integrated over a wide window) on the real models.
"""
import math
import os
from fractions import Fraction

import numpy as np

from common import qlit, zlit, dyadic, coqc, coqc_many, parse_evals, parse_zlist

THEOREMS = ["C03_excitation_formula", "C03_recombination_uses_next_charge", "C03_thermalcx_formula",
            "C03_donor_filter_spec", "C03_total_power_formula", "C03_total_power_uniform",
            "C03_radiation_function_total", "C03_brems_formula", "C03_brems_species_filter",
            "C03_brems_bin_average_partial", "C03_zero_when_nonpositive", "C03_nonneg",
            "C03_thermalcx_nonneg", "C03_linear_in_density", "C03_history_independent",
            "C03_gq_refines_rule", "C03_gq_laws", "C03_brems_spectrum_nonneg", "C03_brems_vacuum_zero",
            "C03_gaunt_branch_spec", "C03_emission_adds", "C03_rnd_bounds", "C03_cache_populates", "C03_brems_gaunt_cache", "C03_guards_separate",
            "C03_gq_low_order_exact", "C03_gq23_exact_on_cubics", "C03_gq2_envelope_partial", "C03_total_power_linear_isotope"]

GL_ORDER = 8
CONST_ORDER = ["RECIP_2_PI", "RECIP_4_PI", "DEGREES_TO_RADIANS", "RADIANS_TO_DEGREES", "ATOMIC_MASS", "ELEMENTARY_CHARGE",
               "SPEED_OF_LIGHT", "PLANCK_CONSTANT", "HC_EV_NM", "ELECTRON_CLASSICAL_RADIUS", "ELECTRON_REST_MASS",
               "RYDBERG_CONSTANT_EV", "VACUUM_PERMITTIVITY", "BOHR_MAGNETON"]


# ---------------------------------------------------------------------------------------------------
# Coq literals
# ---------------------------------------------------------------------------------------------------
def qz(x):
    return qlit(x)


def coq_species(impl, s):
    e, c, n, t = s
    return "mkSpecies %s %s %s %s %s" % (zlit(e), zlit(c), zlit(impl.znum(e)), qz(n), qz(t))


def coq_comp(impl, comp):
    return "[" + "; ".join(coq_species(impl, s) for s in comp) + "]"


def coq_cfg(g):
    return "(mkCfg %s %s %s %s %s %s)" % (zlit(g["salt"]), qz(g["sgn"]), qz(g["cn"]), qz(g["ct"]), qz(g["cd"]), zlit(g["missing"]))


def coq_out(out, skip_or_zero=False):
    if isinstance(out, tuple):
        return "(Emit %s)" % qz(out[1])
    return {"ErrRuntime": "ErrRuntime", "ErrValue": "ErrValue", "Skip": "Skip", "SkipOrZero": "Skip"}[out]


def coq_zll(ll):
    return "[" + "; ".join("[" + "; ".join(zlit(v) for v in l) + "]" for l in ll) + "]%Z"


def coq_qll(ll):
    return "[" + "; ".join("[" + "; ".join(qz(v) for v in l) + "]" for l in ll) + "]"


def coq_ql(l):
    return "[" + "; ".join(qz(v) for v in l) + "]"


def coq_tab(tab):
    return "[" + "; ".join("(%s, %s)" % (qlit(k), qlit(v)) for k, v in tab) + "]"


# ---------------------------------------------------------------------------------------------------
# generators
# ---------------------------------------------------------------------------------------------------
class Style(str):
    """'dyadic' (small dyadic values, products exact in double) or 'real' (realistic magnitudes); a sequence of the real
    style carries binary scale exponents for all its densities / temperatures (the emission formulas are homogeneous in
    the densities, so 2^+-200 must not change anything but the magnitude)"""
    dscale = 0
    tscale = 0


def mk_style(name, dscale=0, tscale=0):
    st = Style(name)
    st.dscale, st.tscale = dscale, tscale
    return st


# exact boundary values of the `<= 0` comparisons: signed zero, the smallest subnormal, the smallest normal, tiny and
# large values (dyadic style only: all other factors are then O(1..100), so the double result is exact up to 2^-800)
BOUNDARY_ANY = [-0.0, 0.0, 5e-324, -5e-324, 2.0 ** -1022, -2.0 ** -1022, 2.0 ** -500, -2.0 ** -500, 2.0 ** 60, -2.0 ** 60]
BOUNDARY_POS = [5e-324, 2.0 ** -1022, 2.0 ** -500, 2.0 ** 60]


def boundary(rng, style, allow_bad):
    if style == "dyadic" and rng.random() < (0.07 if allow_bad else 0.03):
        return rng.choice(BOUNDARY_ANY if allow_bad else BOUNDARY_POS)
    return None


def gen_density(rng, style, allow_bad=True, bad=1.0):
    bv = boundary(rng, style, allow_bad)
    if bv is not None:
        return bv
    r = rng.random() / bad if bad > 0 else 1.0
    if allow_bad and r < 0.07:
        return 0.0
    if allow_bad and r < 0.16:
        return -gen_density(rng, style, False)
    if style == "dyadic":
        return rng.randint(1, 96) / 16.0
    return 10.0 ** rng.uniform(15, 21) * 2.0 ** getattr(style, "dscale", 0)


def gen_temperature(rng, style, allow_bad=True, bad=1.0):
    bv = boundary(rng, style, allow_bad)
    if bv is not None:
        return bv
    r = rng.random() / bad if bad > 0 else 1.0
    if allow_bad and r < 0.05:
        return 0.0
    if allow_bad and r < 0.11:
        return -gen_temperature(rng, style, False)
    if style == "dyadic":
        return rng.randint(1, 128) / 8.0
    return 10.0 ** rng.uniform(-1, 4) * 2.0 ** getattr(style, "tscale", 0)


def gen_forms(rng, case):
    """unusual but valid argument forms and attachment routes of one model instance"""
    case["form_seed"] = rng.randrange(1 << 30)
    case["route"] = "manager" if rng.random() < 0.3 else "ctor"
    case["charge_form"] = rng.choice(["int", "int", "np_int", "bool"])
    case["cfg"]["rate_form"] = rng.choice(["float", "float", "np64", "int"])
    if rng.random() < 0.3:
        case["shape_args"] = ([rng.randint(0, 9)], [("tag", rng.randint(0, 9))])
    if case["comp"] and rng.random() < 0.12:
        case["dup"] = (rng.randrange(len(case["comp"])), float(rng.randint(1, 64)), float(rng.randint(1, 64)))
    return case


def gen_cfg(rng, style, total=False):
    return {"salt": rng.randint(0, 63), "sgn": -1.0 if rng.random() < 0.15 else 1.0,
            "cn": 0.25 if style == "dyadic" else 2.0 ** -64, "ct": 0.0625 if style == "dyadic" else 2.0 ** -12,
            "cd": 2.0 ** -6 if style == "dyadic" else 2.0 ** -24,
            "missing": (rng.choice([1, 2, 4, 3, 5, 6, 7]) if rng.random() < 0.3 else 0) if total else 0,
            "rate_form": rng.choice(["float", "float", "np64", "int"])}


def gen_comp(impl, rng, style, want, n_extra, drop_prob):
    """composition with unique (element, charge) keys: the wanted keys (each dropped with drop_prob), then extras:
    neutrals, bare nuclei, other charge states of the same element, hydrogen isotopes"""
    keys = []
    for k in want:
        if rng.random() >= drop_prob and k not in keys and 0 <= k[1] <= impl.znum(k[0]):
            keys.append(k)
    tries = 0
    while len(keys) < len(want) + n_extra and tries < 50:
        tries += 1
        r = rng.random()
        if r < 0.25:
            e = rng.choice(impl.HYD)
            c = rng.choice([0, 0, 1])
        elif r < 0.5 and want:
            e = want[0][0]
            c = rng.randint(0, impl.znum(e))
        else:
            e = rng.randrange(len(impl.ELEMS))
            c = rng.choice([0, impl.znum(e), rng.randint(0, impl.znum(e))])
        if (e, c) not in keys:
            keys.append((e, c))
    rng.shuffle(keys)
    return [(e, c, gen_density(rng, style), gen_temperature(rng, style)) for (e, c) in keys]


def gen_line_case(impl, rng, kind, style):
    e = rng.randrange(len(impl.ELEMS))
    c = rng.randint(0, impl.znum(e) - 1)
    want = [(e, c)] if kind == 1 else [(e, c + 1)]
    if rng.random() < 0.5:
        want.append((e, c + 1) if kind == 1 else (e, c))          # the "other" charge state, so that Z vs Z+1 matters
    comp = gen_comp(impl, rng, style, want, rng.choice([0, 0, 1, 2, 3, 4, 5, 6, 8, 9, 10]), 0.08)
    if rng.random() < 0.02:
        comp = []                                           # empty composition
    return gen_forms(rng, {"kind": kind, "style": style, "cfg": gen_cfg(rng, style), "line": (e, c, rng.randrange(len(impl.TRANS))),
                           "ne": gen_density(rng, style, bad=0.5), "te": gen_temperature(rng, style, bad=0.5), "comp": comp})


def gen_window(rng):
    minw = dyadic(rng, 100, 800, 3)
    width = dyadic(rng, 0.5, 200, 3)
    sc = 2.0 ** rng.choice([0, 0, 0, -20, 20, -3, 7])        # the window in other units / far ranges (exact scaling)
    return minw * sc, (minw + width) * sc, rng.choice([1, 1, 2, 2, 3, 4, 5, 6, 9, 10, 11])


def gen_total_case(impl, rng, style):
    e = rng.randrange(len(impl.ELEMS))
    z = impl.znum(e)
    c = rng.choice([-1, z, z + 1]) if rng.random() < 0.06 else rng.randint(0, z - 1)
    want = [(e, c), (e, c + 1)] + [(h, 0) for h in impl.HYD if rng.random() < 0.6]
    comp = gen_comp(impl, rng, style, want, rng.choice([0, 0, 1, 2, 3, 4, 7, 8]), 0.06)
    minw, maxw, bins = gen_window(rng)
    return gen_forms(rng, {"kind": 4, "style": style, "cfg": gen_cfg(rng, style, total=True), "elem": e, "charge": c,
                           "ne": gen_density(rng, style, bad=0.5), "te": gen_temperature(rng, style, bad=0.5), "comp": comp,
                           "minw": minw, "maxw": maxw, "bins": bins})


SEQ_LEN = 3


def make_sequence(impl, rng, base, length=SEQ_LEN):
    """One model instance is evaluated at `length` points of one plasma.  Step 0 is `base`; at every further point each
    density / temperature keeps its value, takes a new positive value, or becomes zero / negative / positive again, so
    that positive->zero, zero->positive, negative->positive ... occur in every order between consecutive points; at
    least one species flips its sign status at every step; now and then the composition itself is re-set
    (species dropped / added / reordered: the models are notified and must re-populate their caches)."""
    style = base["style"]
    steps = [base]
    for k in range(1, length):
        prev = steps[-1]
        st = dict(prev)
        if rng.random() < 0.5:
            st["ne"] = gen_density(rng, style, bad=0.8)
        if rng.random() < 0.5:
            st["te"] = gen_temperature(rng, style, bad=0.8)
        comp = []
        for (e, c, n, t) in prev["comp"]:
            r = rng.random()
            if r < 0.35:
                pass
            elif r < 0.6:
                n = gen_density(rng, style, False)
            elif r < 0.8:
                n = rng.choice([0.0, -1.0]) * gen_density(rng, style, False)
            else:
                t = gen_temperature(rng, style)
            comp.append((e, c, n, t))
        if comp:
            i = rng.randrange(len(comp))                      # forced flip of one species
            e, c, n, t = comp[i]
            comp[i] = (e, c, gen_density(rng, style, False) if n <= 0 else rng.choice([0.0, -n]), t)
        r = rng.random()
        if r < 0.06 and len(comp) > 1:
            del comp[rng.randrange(len(comp))]
        elif r < 0.12:
            e = rng.randrange(len(impl.ELEMS))
            c = rng.randint(0, impl.znum(e))
            if (e, c) not in [(s[0], s[1]) for s in comp]:
                comp.insert(rng.randint(0, len(comp)), (e, c, gen_density(rng, style), gen_temperature(rng, style)))
        elif r < 0.16:
            rng.shuffle(comp)
        st["comp"] = comp
        if "dup" in st and (not comp or rng.random() < 0.2):
            st = {k: v for k, v in st.items() if k != "dup"}
        # a public mutation route between the two evaluations (the model is notified and must re-populate, or not)
        kind = base["kind"]
        if kind == 6:
            op = rng.choice(["none"] * 3 + ["gaunt_user", "gaunt_user", "gaunt_none", "gaunt_none", "integrator", "integrator",
                                            "ad_same", "plasma_same", "edist", "models_reset"])
            if op == "gaunt_user":
                st["gaunt"], st["via_provider"] = gen_gaunt(rng), False
            elif op == "gaunt_none":
                st["gaunt"], st["via_provider"] = gen_gaunt(rng), True
            elif op == "integrator":
                st["tight"] = not prev["tight"]
        else:
            op = rng.choice(["none"] * 7 + ["ad_new", "ad_new", "ad_same", "plasma_same", "edist", "models_reset"])
            if op == "ad_new":
                st["cfg"] = gen_cfg(rng, style, total=(kind == 4))
        if op == "models_reset" and base.get("route") != "manager":
            op = "none"
        st["op"] = op
        if kind in (4, 6):
            st["baseline"] = rng.choice([None, None, 1.0, -3.5, 2.0 ** 40, 2.0 ** -40])
        if kind in (4, 6) and rng.random() < 0.3:             # the observer's spectral window changes between calls
            if kind == 4:
                st["minw"], st["maxw"], st["bins"] = gen_window(rng)
            else:
                st.update(gen_brems_window(rng))
        steps.append(st)
    return steps


def sign_patterns(q):
    """all sign combinations the guards have to be exercised with: all positive; each quantity alone negative / 0.0 / -0.0;
    every pair negative together; all negative; every ordered pair (one exactly zero, another negative)"""
    pats = [tuple("+" * q)]
    for i in range(q):
        for sgn in ("-", "0", "-0"):
            pats.append(tuple(sgn if k == i else "+" for k in range(q)))
    for i in range(q):
        for j in range(i + 1, q):
            pats.append(tuple("-" if k in (i, j) else "+" for k in range(q)))
    pats.append(tuple("-" * q))
    for i in range(q):
        for j in range(q):
            if i != j:
                pats.append(tuple("0" if k == i else "-" if k == j else "+" for k in range(q)))
    return pats


def signed(v, sgn):
    return {"+": abs(v), "-": -abs(v), "0": 0.0, "-0": -0.0}[sgn]


def sign_matrix_sequence(impl, rng, kind, style):
    """ONE model instance evaluated at one point per sign pattern (shuffled) of the quantities that have their own guard in
    the code: electron density and temperature, the target / receiver density, a donor density (thermal CX), both charge
    states and two hydrogen isotopes (total power), two ion densities (bremsstrahlung).  Every step is also run on a fresh
    instance (fresh-object comparison) and compared with the model inside Coq."""
    e = rng.choice([3, 4, 5, 6])                  # helium, carbon, nitrogen, neon
    c = rng.randint(0, impl.znum(e) - 1)
    ne0, te0 = gen_density(rng, style, False), gen_temperature(rng, style, False)
    d = lambda: gen_density(rng, style, False)
    t = lambda: gen_temperature(rng, style, False)
    if kind in (1, 2, 3):
        tc = c if kind == 1 else c + 1
        oc = c + 1 if kind == 1 else c
        base_comp = [(e, tc, d(), t()), (e, oc, d(), t()), (1, 0, d(), t()), (0, 1, d(), t())]
        guarded = [("ne",), ("te",), ("comp", 0)] + ([("comp", 2)] if kind == 3 else [])
        base = gen_forms(rng, {"kind": kind, "style": style, "cfg": dict(gen_cfg(rng, style), sgn=1.0),
                               "line": (e, c, rng.randrange(len(impl.TRANS))), "ne": ne0, "te": te0, "comp": base_comp})
    elif kind == 4:
        base_comp = [(e, c, d(), t()), (e, c + 1, d(), t()), (0, 0, d(), t()), (1, 0, d(), t()), (1, 1, d(), t())]
        guarded = [("ne",), ("te",), ("comp", 0), ("comp", 1), ("comp", 2), ("comp", 3)]
        minw, maxw, bins = gen_window(rng)
        base = gen_forms(rng, {"kind": 4, "style": style, "cfg": dict(gen_cfg(rng, style, total=True), sgn=1.0, missing=0),
                               "elem": e, "charge": c, "ne": ne0, "te": te0, "comp": base_comp, "minw": minw, "maxw": maxw, "bins": bins})
    else:
        base_comp = [(e, max(c, 1), d(), t()), (1, 1, d(), t()), (1, 0, d(), t())]
        guarded = [("ne",), ("te",), ("comp", 0), ("comp", 1)]
        base = {"kind": 6, "style": style, "gaunt": gen_gaunt(rng), "ne": ne0, "te": te0, "comp": base_comp,
                "tight": False, "via_provider": rng.random() < 0.7, "integrator_by": "ctor", "cfg": {}}
        base.update(gen_brems_window(rng))
        base = gen_forms(rng, base)
        del base["cfg"]
    base.pop("dup", None)
    pats = sign_patterns(len(guarded))
    rng.shuffle(pats)
    steps = []
    for pat in pats:
        st = dict(base, op="none", sign_pattern="".join("(%s)" % p for p in pat))
        comp = list(base_comp)
        for g, sgn in zip(guarded, pat):
            if g[0] == "comp":
                ee, cc, nn, tt = comp[g[1]]
                comp[g[1]] = (ee, cc, signed(nn, sgn), tt)
            else:
                st[g[0]] = signed(base[g[0]], sgn)
        st["comp"] = comp
        steps.append(st)
    return steps


def gen_gaunt(rng):
    return (dyadic(rng, 0.5, 2, 4), dyadic(rng, 0, 0.5, 5), dyadic(rng, 0, 1, 4) / 1024, dyadic(rng, 0, 1, 4) / 4096)


def gen_bremsfn_case(rng, style):
    n = rng.randint(0, 6)
    zs = []
    for _ in range(n):
        z = float(rng.randint(0, 18)) if rng.random() < 0.7 else dyadic(rng, 0.5, 10, 3)
        zs.append((z, gen_density(rng, style)))
    forms = ["list", "list", "list", "tuple", "tuple", "int", "int", "np_int", "np_int", "np32", "np32", "np64", "np64", "readonly", "noncontig"]
    return {"kind": 5, "style": style, "gaunt": gen_gaunt(rng), "ne": gen_density(rng, style, False),
            "te": gen_temperature(rng, style, False),
            "zs": zs, "wvl": dyadic(rng, 50, 2000, 2) if style == "dyadic" else rng.uniform(50, 2000),
            "forms": (rng.choice(forms), rng.choice(forms)), "scalar_form": rng.choice(["float", "int", "np64", "np32"])}


def gen_brems_window(rng):
    minw = dyadic(rng, 200, 900, 2)
    bins = rng.choice([1, 1, 2, 2, 3])
    width = bins * dyadic(rng, 1, 0.08 * minw, 2)
    return {"minw": minw, "maxw": minw + width, "bins": bins}


def gen_brems_case(impl, rng, style):
    comp = gen_comp(impl, rng, style, [], rng.choice([0, 1, 1, 2, 3, 4, 5, 6, 7, 9, 10]), 0.0)
    case = {"kind": 6, "style": style, "gaunt": gen_gaunt(rng), "ne": gen_density(rng, style),
            "te": gen_temperature(rng, style, bad=1.2), "comp": comp,
            "tight": rng.random() < 0.5, "via_provider": rng.random() < 0.7,
            "integrator_by": rng.choice(["ctor", "setter"]), "cfg": {}}
    case.update(gen_brems_window(rng))
    case = gen_forms(rng, case)
    del case["cfg"]
    return case


def gen_gaunt_case(rng, consts):
    """InterpolatedFreeFreeGauntFactor / MaxwellianFreeFreeGauntFactor: u from far below to far above the table, all z
    including 0 and fractional, and (custom tables) a table bound placed exactly on the u / gamma2 of the case or one ulp
    beside it"""
    ph = consts["PLANCK_CONSTANT"] * consts["SPEED_OF_LIGHT"] * 1e9 / consts["ELEMENTARY_CHARGE"]
    wvl = dyadic(rng, 50, 2000, 2)
    te = ph / (wvl * 2.0 ** rng.uniform(-16, 16))
    z = rng.choice([0.0, 1.0, 1.0, 2.0, 6.0, 18.0, 0.5, 74.0])
    case = {"kind": 8, "z": z, "te": te, "wvl": wvl, "entry": rng.choice(["call", "evaluate"]), "table": "maxwellian"}
    if rng.random() < 0.6:
        u_d, g2_d = ph / (te * wvl), z * z * consts["RYDBERG_CONSTANT_EV"] / te
        ug = [2.0 ** k for k in sorted(rng.sample(range(-12, 13), 5))]
        gg = [2.0 ** k for k in sorted(rng.sample(range(-20, 21), 5))]
        where = rng.choice(["none", "umax", "umin", "g2max", "g2min", "knot", "knot"])
        val = u_d if where[0] == "u" else g2_d
        if where == "knot" and z != 0:
            # u and gamma2 exactly on the interior knot (2, 2) of the table
            ug = sorted(u_d * 2.0 ** k for k in (-6, -3, 0, 2, 5))
            gg = sorted(g2_d * 2.0 ** k for k in (-7, -2, 0, 3, 6))
        elif where == "knot":
            where = "none"
        elif where != "none" and val > 0:
            # the table bound sits exactly on the case's u / gamma2, or one ulp below / above it
            val = rng.choice([val, float(np.nextafter(val, 0.0)), float(np.nextafter(val, np.inf))])
            grid = sorted(val * 2.0 ** (-k if where.endswith("max") else k) for k in (0, 2, 5, 7, 9))
            if where[0] == "u":
                ug = grid
            else:
                gg = grid
        else:
            where = "none"
        case.update(table="custom", ugrid=ug, g2grid=gg, boundary=where,
                    values=[[dyadic(rng, 0.5, 2.5, 6) for _ in gg] for _ in ug])
    return case


def gen_radfn_case(rng):
    minw, maxw, bins = gen_window(rng)
    return {"kind": 7, "phi": rng.choice([0.0, -1.0]) * dyadic(rng, 0, 8, 3) if rng.random() < 0.2 else 10.0 ** rng.uniform(-3, 8),
            "minw": minw, "maxw": maxw, "bins": bins, "form": rng.choice(["callable", "number", "constant3d"]),
            "baseline": rng.choice([None, 1.0, -3.5, 2.0 ** 40])}


# ---------------------------------------------------------------------------------------------------
# oracle tables for the bremsstrahlung model (keys are the exact rationals the model will ask for)
# ---------------------------------------------------------------------------------------------------
class Oracles:
    def __init__(self, impl, consts):
        f = impl.frac
        self.e, self.c, self.h = f(consts["ELEMENTARY_CHARGE"]), f(consts["SPEED_OF_LIGHT"]), f(consts["PLANCK_CONSTANT"])
        self.me, self.eps0 = f(consts["ELECTRON_REST_MASS"]), f(consts["VACUUM_PERMITTIVITY"])
        self.pi, self.r4pi = f(consts["M_PI"]), f(consts["RECIP_4_PI"])
        self.expf = self.h * self.c * 10 ** 9 / self.e
        self.sq_const = [(Fraction(3), math.sqrt(3.0)), (2 * self.me / (self.pi * self.e), None)]
        self.sq_const[1] = (self.sq_const[1][0], math.sqrt(float(self.sq_const[1][0])))

    def sqrt_tab(self, te):
        t = Fraction(*float(te).as_integer_ratio())
        return self.sq_const + ([(t, math.sqrt(te))] if te > 0 else [])

    def exp_entry(self, te, wvl):
        key = -self.expf / (Fraction(te) * Fraction(wvl))
        try:
            return (key, math.exp(float(key)))
        except OverflowError:                       # te so small that the argument is below every double: exp underflows to 0
            return (key, 0.0)

    def coq_consts(self):
        return "(mkConsts %s %s %s %s %s %s %s)" % tuple(qlit(v) for v in (self.e, self.c, self.h, self.me, self.eps0, self.pi, self.r4pi))


_GQ_RULES = {}


def gq_rule(order):
    """roots and weights of the Gauss-Legendre rule of the given order, from the source of the code's own caches
    (scipy.special.roots_legendre in GaussianQuadrature._build_cache)"""
    if order not in _GQ_RULES:
        from scipy.special import roots_legendre
        x, w = roots_legendre(order)
        _GQ_RULES[order] = ([float(v) for v in x], [float(v) for v in w])
    return _GQ_RULES[order]


def predict_order(impl, orc, case, a, b, rtol, dflt):
    """GaussianQuadrature.evaluate in floats on the reference integrand: the order at which it stops"""
    c, d = 0.5 * (a + b), 0.5 * (b - a)
    old = math.inf
    for order in range(dflt["min_order"], dflt["max_order"] + 1):
        x, w = gq_rule(order)
        new = d * sum(wk * brems_reference(impl, orc, case, c + d * xk) for xk, wk in zip(x, w))
        err = abs(new - old)
        old = new
        if err < rtol * abs(new):
            return order
    return dflt["max_order"]


def gl_rule():
    x, w = np.polynomial.legendre.leggauss(GL_ORDER)
    return [float(v) for v in x], [float(v) for v in w]


# ---------------------------------------------------------------------------------------------------
# the executable statement of the property on the real implementation (exact rational arithmetic)
# ---------------------------------------------------------------------------------------------------
def stub2_exact(impl, g, kind, e, c, t, ne, te):
    F = impl.frac
    return F(g["sgn"]) * F(impl.base(g["salt"], kind, e, c, t, 0, 0)) * (1 + F(g["cn"]) * F(ne) + F(g["ct"]) * F(te))


def stub3_exact(impl, g, de, dc, re_, rc, t, ne, te, td):
    F = impl.frac
    return F(g["sgn"]) * F(impl.base(g["salt"], 3, de, dc, re_, rc, t)) * \
        (1 + F(g["cn"]) * F(ne) + F(g["ct"]) * F(te) + F(g["cd"]) * F(td) * F(td))


INV4PI = Fraction(1) / (4 * Fraction(math.pi))


def documented_line(impl, case):
    """(1/4pi) ne ni PEC / (1/4pi) n_rec sum_d n_d PEC_d as the property states them; returns
    ('err'|'zero'|'value', value, magnitude)"""
    F = impl.frac
    kind, g = case["kind"], case["cfg"]
    e, c, t = case["line"]
    ne, te = case["ne"], case["te"]
    d = {(s[0], s[1]): s for s in case["comp"]}
    tc = c if kind == 1 else c + 1
    if (e, tc) not in d:
        return ("err", None, None)
    ni = d[(e, tc)][2]
    if ne <= 0 or te <= 0 or ni <= 0:
        return ("zero", Fraction(0), Fraction(0))
    if kind in (1, 2):
        v = INV4PI * F(ne) * F(ni) * stub2_exact(impl, g, kind, e, c, t, ne, te)
        return ("value", v, abs(v))
    tot, mag = Fraction(0), Fraction(0)
    for (de, dc, nd, td) in case["comp"]:
        if (de, dc) == (e, tc) or dc >= impl.znum(de) or nd <= 0:
            continue                     # receiver, bare nucleus, or a density the term depends on is non-positive
        term = F(nd) * stub3_exact(impl, g, de, dc, e, tc, t, ne, te, td)
        tot += term
        mag += abs(term)
    return ("value", INV4PI * F(ni) * tot, INV4PI * F(ni) * mag)


def documented_total(impl, case):
    F = impl.frac
    g, e, c = case["cfg"], case["elem"], case["charge"]
    ne, te = case["ne"], case["te"]
    d = {(s[0], s[1]): s for s in case["comp"]}
    if not 0 <= c < impl.znum(e):
        return ("errvalue", None, None)
    if (e, c) not in d or (e, c + 1) not in d:
        return ("err", None, None)
    if ne <= 0 or te <= 0:
        return ("zero", Fraction(0), Fraction(0))
    ni, nup = d[(e, c)][2], d[(e, c + 1)][2]
    nhyd = sum((F(d[(h, 0)][2]) for h in impl.HYD if (h, 0) in d), Fraction(0))
    has = lambda b: not (g["missing"] >> b) & 1
    terms = []
    if has(0) and ni > 0:
        terms.append(F(ni) * F(ne) * stub2_exact(impl, g, 4, e, c, 0, ne, te))
    if has(1) and nup > 0:
        terms.append(F(nup) * F(ne) * stub2_exact(impl, g, 5, e, c + 1, 0, ne, te))
    if has(2) and nup > 0 and nhyd > 0:
        terms.append(F(nup) * nhyd * stub2_exact(impl, g, 6, e, c + 1, 0, ne, te))
    rng_w = F(case["maxw"]) - F(case["minw"])
    return ("value", INV4PI * sum(terms, Fraction(0)) / rng_w, INV4PI * sum((abs(t) for t in terms), Fraction(0)) / rng_w)


def near(x, want, mag, rel=1e-12):
    return abs(Fraction(x) - want) <= Fraction(rel) * mag + Fraction(10) ** -240


def scaled(case, key, factor):
    c2 = dict(case)
    c2["comp"] = [(e, c, n * factor if (e, c) == key else n, t) for (e, c, n, t) in case["comp"]]
    return c2


def search_line(impl, case, obs):
    """the property on one line-emission case; returns a list of failure dicts"""
    fails = []
    what, want, mag = documented_line(impl, case)
    out = obs["out"]
    if what == "err":
        if out != "ErrRuntime":
            fails.append({"claim": "missing species is reported (RuntimeError)", "observed": str(out)})
        return fails
    if out in ("ErrRuntime", "ErrValue"):
        return [{"claim": "emission() works when the species of the line is in the composition", "observed": out}]
    rad = out[1] if isinstance(out, tuple) else 0.0
    if what == "zero" and rad != 0.0:
        fails.append({"claim": "emission is zero when ne, te or the ion density is non-positive", "observed": rad})
    if what == "value" and not near(rad, want, mag):
        fails.append({"claim": "radiance equals the documented expression", "observed": rad, "expected": float(want)})
    if case["cfg"]["sgn"] > 0 and rad < 0:
        fails.append({"claim": "emission is never negative for non-negative coefficients", "observed": rad})
    return fails


def search_linearity(impl, case, obs):
    """doubling the density of the target / receiver doubles the emission; doubling a donor adds its term once more"""
    fails = []
    if not isinstance(obs["out"], tuple):
        return fails
    e, c, t = case["line"]
    tc = c if case["kind"] == 1 else c + 1
    r1 = obs["out"][1]
    what, _, mag = documented_line(impl, case)
    if what != "value":
        return fails                     # already reported by search_line
    mag = float(mag)
    o2 = impl.run_line(scaled(case, (e, tc), 2.0))
    r2 = o2["out"][1] if isinstance(o2["out"], tuple) else None
    if r2 is None or abs(r2 - 2 * r1) > 1e-12 * 2 * mag + 1e-240:
        fails.append({"claim": "emission is linear in the density of the emitting / receiving ion", "observed": [r1, r2]})
    if case["kind"] == 3:
        for (de, dc, nd, td) in case["comp"]:
            if (de, dc) == (e, tc) or dc >= impl.znum(de) or nd <= 0:
                continue
            o3 = impl.run_line(scaled(case, (de, dc), 2.0))
            r3 = o3["out"][1] if isinstance(o3["out"], tuple) else None
            ni = [s for s in case["comp"] if (s[0], s[1]) == (e, tc)][0][2]
            term = float(INV4PI * impl.frac(ni) * impl.frac(nd) * stub3_exact(impl, case["cfg"], de, dc, e, tc, t, case["ne"], case["te"], td))
            if r3 is None or abs((r3 - r1) - term) > 1e-12 * 3 * mag + 1e-240:
                fails.append({"claim": "emission is linear in each donor density", "donor": [de, dc], "observed": [r1, r3],
                              "expected_increment": term})
            break
    return fails


def search_gaussian(impl, case):
    """real GaussianLine over a wide window: the wavelength integral equals the documented expression"""
    e, c, t = case["line"]
    tc = c if case["kind"] == 1 else c + 1
    tgt = [s for s in case["comp"] if (s[0], s[1]) == (e, tc)]
    what, want, mag = documented_line(impl, case)
    if what == "err":
        return []
    if tgt and tgt[0][3] > 0 and not 1e-3 <= tgt[0][3] <= 1e5:
        return []       # thermal width below double resolution or wider than the window: the line shape is property C02's business
    obs = impl.run_line(case, lineshape=impl.GaussianLine, window=(impl.WAVELENGTH - 40.0, impl.WAVELENGTH + 40.0, 400))
    if obs["out"] != "Spectrum":
        return [{"claim": "emission() works with GaussianLine", "observed": obs["out"]}]
    total = sum(obs["samples"]) * obs["delta"]
    ti = tgt[0][3]
    expect = float(want) if ti > 0 else 0.0
    if abs(total - expect) > 1e-9 * float(mag) + 1e-240:
        return [{"claim": "wavelength-integrated emission with GaussianLine equals the documented expression "
                          "(zero for a non-positive ion temperature)", "observed": total, "expected": expect}]
    return []


def search_total(impl, case, obs):
    fails = []
    what, want, mag = documented_total(impl, case)
    out = obs["out"]
    if what == "errvalue":
        return [] if out == "ErrValue" else [{"claim": "charge outside 0 <= charge < Z is rejected", "observed": str(out)}]
    if what == "err":
        return [] if out == "ErrRuntime" else [{"claim": "missing species is reported (RuntimeError)", "observed": str(out)}]
    if out in ("ErrRuntime", "ErrValue"):
        return [{"claim": "emission() works when both charge states are in the composition", "observed": out}]
    s = obs["samples"]
    if len(s) != case["bins"] or any(v != s[0] for v in s):
        fails.append({"claim": "the power is spread uniformly: every bin gets the same value", "observed": s})
    delta = (Fraction(case["maxw"]) - Fraction(case["minw"])) / case["bins"]
    integral = sum((Fraction(v) for v in s), Fraction(0)) * delta
    rng_w = Fraction(case["maxw"]) - Fraction(case["minw"])
    if not near(integral, want * rng_w, mag * rng_w):
        fails.append({"claim": "wavelength-integrated emission equals (1/4pi)(excitation + recombination + hydrogen-CX power)",
                      "observed": float(integral), "expected": float(want * rng_w)})
    if case["cfg"]["sgn"] > 0 and any(v < 0 for v in s):
        fails.append({"claim": "emission is never negative for non-negative coefficients", "observed": s})
    return fails


def brems_reference(impl, orc, case, wvl):
    """Hutchinson 5.3.40 per nm per sr, straight from the CODATA 2018 constants (not from constants.pyx)"""
    e, c, h, me, eps0 = 1.602176634e-19, 299792458.0, 6.62607015e-34, 9.1093837015e-31, 8.8541878128e-12
    te, ne = case["te"], case["ne"]
    g0, g1, g2, g3 = case["gaunt"]
    tot = 0.0
    for (el, ch, n, t) in case["comp"]:
        if ch > 0 and n > 0:
            tot += n * (g0 + g1 * ch + g2 * wvl + g3 * te) * ch * ch
    pref = (e ** 2 / (4 * math.pi * eps0)) ** 3 * 32 * math.pi ** 2 / (3 * math.sqrt(3) * me ** 2 * c ** 3)
    pref *= math.sqrt(2 * me / (math.pi * e)) / math.sqrt(te)
    nu_to_nm = c * 1e9 / wvl ** 2
    return pref * ne * tot * math.exp(-(h * c * 1e9 / e) / te / wvl) * nu_to_nm / (4 * math.pi)


def search_brems(impl, orc, case, obs):
    s = obs["samples"]
    if case["ne"] <= 0 or case["te"] <= 0:
        return [] if all(v == 0 for v in s) else [{"claim": "bremsstrahlung is zero for non-positive ne or te", "observed": s}]
    fails = []
    x, w = np.polynomial.legendre.leggauss(24)
    delta = (case["maxw"] - case["minw"]) / case["bins"]
    for i in range(case["bins"]):
        a, b = case["minw"] + i * delta, case["minw"] + (i + 1) * delta
        ref = 0.5 * (b - a) * sum(wk * brems_reference(impl, orc, case, 0.5 * (a + b) + 0.5 * (b - a) * xk) for xk, wk in zip(x, w)) / delta
        if abs(s[i] - ref) > (3e-5 if not case["tight"] else 1e-9) * abs(ref) + 1e-240:
            fails.append({"claim": "bin value is the bin average of the Hutchinson free-free formula with the provider's Gaunt factor",
                          "bin": i, "observed": s[i], "expected": ref})
            break
    if any(v < 0 for v in s):
        fails.append({"claim": "bremsstrahlung is never negative for a non-negative Gaunt factor", "observed": s})
    return fails


# ---------------------------------------------------------------------------------------------------
def run(ctx):
    ctx.trusted += [
        "Coq 8.16.1 kernel, vm_compute (no native_compute)",
        "harness/c03.py + harness/c03_impl.py: generators, stub plasma / stub provider (Python twin of stub_provider in "
        "Model/C03_Check.v), observation of the implementation, Q literal printer, oracle tables, comparators in Model/C03_Check.v",
        "IEEE double rounding of the implementation's arithmetic (compared under 2^-44 relative to the sum of the absolute "
        "terms for line / total-power radiance, 2^-40 for the bremsstrahlung integrand, 2^-15 / 2^-32 for bin integrals)",
        "libm sqrt/exp as oracles for the bremsstrahlung integrand (sqrt entries are validated inside Coq by squaring; exp entries are trusted)",
        "the rational brackets for pi in C03_constants and the CODATA 2018 decimal values typed into Model/C03_Brems.v",
        "translator read_constants (harness/c03_impl.py, ~25 lines, fail-closed): constants.pyx -> coq/Gen/C03/Consts.v",
    ]
    ctx.assumptions += [
        "Species objects are unique per (element, charge) key (Composition is a dict), so `species != target` is key inequality",
        "the line shape hands the radiance it is given to the spectrum with unit wavelength integral (property C02); C03 observes the "
        "radiance argument of add_line and, in the search, the integral of a real GaussianLine over a +-40 nm window",
        "the integrator of the code (GaussianQuadrature.evaluate) is part of the model; its caches of roots and weights come from "
        "scipy.special.roots_legendre at run time and are only checked to be Gauss-Legendre-like (weights >= 0, sum 2 within 2^-48, nodes in "
        "[-1,1]); that a Gauss-Legendre rule approximates the integral is not proved (C03_brems_bin_average_partial)",
    ]
    ctx.rebuild()
    ctx.proofs("Properties.C03", THEOREMS, extra_modules=("Model.C03_Check",))

    import cherab
    from common import REPO
    assert list(cherab.__path__) == [REPO + "/cherab"], cherab.__path__
    import c03_impl as impl

    rng = ctx.rng
    quick = ctx.quick

    # ---- (T) constants ------------------------------------------------------------------------------
    consts = impl.read_constants(REPO)
    tables = impl.read_source_tables(REPO)
    gq_defaults = impl.probe_gq_defaults()
    orc = Oracles(impl, consts)
    try:
        guards = impl.read_guards(REPO)
        guard_error = None
    except ValueError as exc:
        guards, guard_error = None, str(exc)
    ctx.obligation("guard-structure translator reads the emission() functions (every `if` of a known form, every test on a sampled quantity)",
                   "tie", guards is not None, guard_error or "")
    guard_txt = ""
    if guards is not None:
        guard_txt = ("Definition gen_guards : list (list guard) := [%s]%%Z.\n"
                     "Lemma guards_ok : tables_eqb gen_guards documented_guards = true.\nProof. vm_compute. reflexivity. Qed.\n"
                     % "; ".join("[" + "; ".join("(%d, %d, %d)" % g for g in t) + "]" for t in guards))
    tie = ("Require Import Cherab.Common.Qx Cherab.Model.C03_Passive Cherab.Model.C03_Brems Cherab.Model.C03_Guards Cherab.Model.C03_Check.\n"
           "Open Scope Q_scope.\n"
           "Definition gen_consts : consts := %s.\n"
           "Lemma consts_ok : consts_wf gen_consts = true.\nProof. vm_compute. reflexivity. Qed.\n"
           "Definition gen_all : list Q := %s.\n"
           "Lemma consts_all_ok : consts_all_wf gen_all = true.\nProof. vm_compute. reflexivity. Qed.\n"
           "Lemma source_tables_ok : source_tables_wf %s %s %d%%nat %d%%nat %s = true.\nProof. vm_compute. reflexivity. Qed.\n"
           % (orc.coq_consts(), coq_ql([consts[n] for n in CONST_ORDER]),
              "[" + "; ".join(zlit(h) for h in tables["hyd"]) + "]%Z", qz(tables["euler_gamma"]),
              gq_defaults["min_order"], gq_defaults["max_order"], qz(gq_defaults["rtol"])) + guard_txt)
    tie_path = ctx.write_gen("Consts.v", tie)
    ok, out = coqc(tie_path)
    ctx.obligation("Gen tie: constants.pyx gives the CODATA 2018 values, RECIP_4_PI and M_PI of the model (consts_ok) and every "
                   "other constant of the file its documented value (consts_all_ok); hydrogen-isotope loop, EULER_GAMMA and the default "
                   "integrator parameters re-read from the sources / probed (source_tables_ok); the guard structure of the emission() functions "
                   "(which quantity is tested with which operator, in which order, with which effect) equals the table of Model/C03_Guards.v (guards_ok)", "tie", ok, out)
    consts_bad = not ok

    # ---- cases ----------------------------------------------------------------------------------------
    n_line = 33 if quick else 900          # per kind and style
    n_total = 36 if quick else 1000        # per style
    n_bfn = 18 if quick else 500
    n_brm = 12 if quick else 300
    n_rfn = 15 if quick else 200
    n_gnt = 24 if quick else 600
    # sequences: one model instance evaluated at SEQ_LEN points of one plasma (single-point kinds: sequences of one)
    seqs = []
    nseq = lambda n: -(-n // SEQ_LEN)
    def styles(name):
        """a fresh style per sequence: the real style draws binary scale exponents for densities and temperatures"""
        if name == "dyadic":
            return mk_style("dyadic")
        return mk_style("real", rng.choice([0, 0, 0, -200, -100, -30, 30, 100, 200]), rng.choice([0, 0, 0, -40, 40]))

    for name in ("dyadic", "real"):
        for kind in (1, 2, 3):
            seqs += [make_sequence(impl, rng, gen_line_case(impl, rng, kind, styles(name))) for _ in range(nseq(n_line))]
        seqs += [make_sequence(impl, rng, gen_total_case(impl, rng, styles(name))) for _ in range(nseq(n_total))]
        seqs += [[gen_bremsfn_case(rng, mk_style(name))] for _ in range(n_bfn)]
        seqs += [make_sequence(impl, rng, gen_brems_case(impl, rng, mk_style(name, styles(name).dscale, 0)))
                 for _ in range(nseq(n_brm))]
    seqs += [[gen_radfn_case(rng)] for _ in range(n_rfn)]
    seqs += [[gen_gaunt_case(rng, consts)] for _ in range(n_gnt)]
    # the sign matrix of the guarded quantities, for every model, on one instance each (both tiers)
    for _ in range(1 if quick else 6):
        for kind in (1, 2, 3, 4, 6):
            seqs.append(sign_matrix_sequence(impl, rng, kind, mk_style("dyadic")))
            if not quick:
                seqs.append(sign_matrix_sequence(impl, rng, kind, styles("real")))
    n_sign_cases = sum(len(sq) for sq in seqs if sq[0].get("sign_pattern"))
    # corpus of past disagreements runs first
    corpus_dir = os.path.join(os.path.dirname(os.path.dirname(os.path.abspath(__file__))), "corpus", "C03")
    corpus = []
    if os.path.isdir(corpus_dir):
        import json
        for f in sorted(os.listdir(corpus_dir)):
            if f.endswith(".json"):
                c = json.load(open(os.path.join(corpus_dir, f)))
                c["comp"] = [tuple(s) for s in c.get("comp", [])]
                if "line" in c:
                    c["line"] = tuple(c["line"])
                if "gaunt" in c:
                    c["gaunt"] = tuple(c["gaunt"])
                if "zs" in c:
                    c["zs"] = [tuple(z) for z in c["zs"]]
                corpus.append(c)
    seqs = [[c] for c in corpus] + seqs
    # run the implementation: every sequence on ONE attached model instance, point after point
    cases, pre_obs, transitions = [], [], {"pos->nonpos": 0, "nonpos->pos": 0, "composition_reset": 0, "sequences": 0}
    fresh_fails, n_fresh_cmp, op_counts, route_counts = [], 0, {}, {}
    for sq in seqs:
        ctx.crumb({"sequence": sq})
        kind = sq[0]["kind"]
        if kind in (1, 2, 3):
            obs = impl.run_line_seq(sq)
        elif kind == 4:
            obs = impl.run_total_seq(sq)
        elif kind == 6:
            obs = impl.run_brems_seq(sq)
        elif kind == 5:
            obs = [impl.run_bremsfn(sq[0])]
        elif kind == 8:
            obs = [impl.run_gaunt(sq[0], consts)]
        else:
            obs = [impl.run_radfn(sq[0])]
        route_counts[sq[0].get("route", "n/a")] = route_counts.get(sq[0].get("route", "n/a"), 0) + 1
        for st in sq[1:]:
            op_counts[st.get("op", "none")] = op_counts.get(st.get("op", "none"), 0) + 1
        if len(sq) > 1:
            transitions["sequences"] += 1
            for a, b in zip(sq, sq[1:]):
                ka, kb = [(x[0], x[1]) for x in a["comp"]], [(x[0], x[1]) for x in b["comp"]]
                if ka != kb:
                    transitions["composition_reset"] += 1
                    continue
                for x, y in list(zip(a["comp"], b["comp"])) + [((0, 0, a["ne"], a["te"]), (0, 0, b["ne"], b["te"]))]:
                    for u, v in ((x[2], y[2]), (x[3], y[3])):
                        if u > 0 >= v:
                            transitions["pos->nonpos"] += 1
                        elif u <= 0 < v:
                            transitions["nonpos->pos"] += 1
        for k, (c, o) in enumerate(zip(sq, obs)):
            c = dict(c, seq_step=k, seq_prefix=sq[:k] if k else [])
            if k and kind in (1, 2, 3, 4, 6):
                # the same point on a freshly built plasma + model (attached by the constructor)
                single = dict(sq[k], op="none", route="ctor")
                f = (impl.run_line_seq([single]) if kind in (1, 2, 3) else
                     impl.run_total_seq([single]) if kind == 4 else impl.run_brems_seq([single]))[0]
                same = (f.get("out") == o.get("out") and f["samples"] == o["samples"] and f.get("evals") == o.get("evals")
                        and f.get("gaunt_z") == o.get("gaunt_z"))
                n_fresh_cmp += 1
                if not same:
                    fresh_fails.append({"claim": "a re-used model instance gives the emission of a freshly built one at the same point",
                                        "observed": {"reused": [o.get("out"), o["samples"]], "fresh": [f.get("out"), f["samples"]]},
                                        "case": c, "case_index": len(cases)})
            cases.append(c)
            pre_obs.append(o)

    ctx.log("implementation runs done: %d evaluations in %d sequences" % (len(cases), len(seqs)))
    glx, glw = gl_rule()
    texts, metas, observations = [], [], []
    search_fails = []
    dist = {"by_kind": {}, "outcomes": {}, "comp_sizes": {}, "with_nonpositive_input": 0, "negative_coefficients": 0,
            "missing_rate": 0, "donor_counts": {}}
    names = {1: "excitation", 2: "recombination", 3: "thermal_cx", 4: "total_power", 5: "brems_function",
             6: "bremsstrahlung", 7: "radiation_function", 8: "gaunt_factor", 0: "call_site"}
    nontrivial = 0
    n_gaunt, edge_cases, n_rebased, gq_orders, n_nonconv = 0, [], 0, {}, 0
    n_probes, probe_fails = impl.second_order_probes()
    for f in probe_fails:
        search_fails.append(dict(f, case={"kind": 0, "probe": f["claim"]}, case_index=-1))
    for ci, case in enumerate(cases):
        kind = case["kind"]
        dist["by_kind"][names[kind]] = dist["by_kind"].get(names[kind], 0) + 1
        if "comp" in case:
            dist["comp_sizes"][len(case["comp"])] = dist["comp_sizes"].get(len(case["comp"]), 0) + 1
            if case["ne"] <= 0 or case["te"] <= 0 or any(s[2] <= 0 or s[3] <= 0 for s in case["comp"]):
                dist["with_nonpositive_input"] += 1
        if kind in (1, 2, 3):
            obs = pre_obs[ci]
            e, c, t = case["line"]
            texts.append("(%s, (fun fr : bool => check_line %d fr %s (mkLine %s %s %s) %s %s %s %s %s %s %s %s), line_populate_ok %d (mkLine %s %s %s) %s)" % (
                "true" if obs["notified"][0] else "false", kind, coq_cfg(case["cfg"]), zlit(e), zlit(c), zlit(t), qz(case["ne"]), qz(case["te"]), coq_comp(impl, case["comp"]),
                coq_out(obs["out"]), coq_zll(obs["calls"]), coq_qll(obs["evals"]), "[" + "; ".join(zlit(v) for v in obs["target"]) + "]%Z",
                coq_zll(obs["tsamp"]), kind, zlit(e), zlit(c), zlit(t), coq_comp(impl, case["comp"])))
            okey = obs["out"][0] if isinstance(obs["out"], tuple) else obs["out"]
            fs = search_line(impl, case, obs)
            if obs["fresh"] and obs["target"]:
                want_args = [list(case["shape_args"][0]), sorted(case["shape_args"][1])] if case.get("shape_args") else [[], []]
                if [list(obs["shape_args"][0]), [list(x) for x in obs["shape_args"][1]]] != [want_args[0], [list(x) for x in want_args[1]]]:
                    fs.append({"claim": "lineshape_args / lineshape_kwargs are handed to the line shape class", "observed": obs["shape_args"]})
            if isinstance(obs["out"], tuple) and (ci % (4 if quick else 8) == 0):
                fs += search_linearity(impl, case, obs)
            if ci % (5 if quick else 10) == 0:
                fs += search_gaussian(impl, case)
            if kind == 3:
                nd = len(obs["calls"])
                dist["donor_counts"][nd] = dist["donor_counts"].get(nd, 0) + 1
            if isinstance(obs["out"], tuple) and (kind != 3 or len(obs["calls"]) >= 2):
                nontrivial += 1
            if case["cfg"]["sgn"] < 0:
                dist["negative_coefficients"] += 1
        elif kind == 4:
            obs = pre_obs[ci]
            texts.append("(%s, (fun fr : bool => check_total fr %s %s %s %s %s %s %s %s %s %s %d%%nat %s %s %s %s), total_populate_ok %s %s %s %s)" % (
                "true" if obs["notified"][0] else "false", coq_cfg(case["cfg"]), "[" + "; ".join(zlit(h) for h in tables["hyd"]) + "]%Z", zlit(case["elem"]), zlit(case["charge"]),
                zlit(impl.znum(case["elem"])), qz(case["ne"]), qz(case["te"]), coq_comp(impl, case["comp"]),
                qz(case["minw"]), qz(case["maxw"]), case["bins"], coq_out(obs["out"]), coq_ql(obs["samples"]),
                coq_zll(obs["calls"]), coq_qll(obs["evals"]),
                zlit(case["elem"]), zlit(case["charge"]), zlit(impl.znum(case["elem"])), coq_comp(impl, case["comp"])))
            okey = obs["out"][0] if isinstance(obs["out"], tuple) else obs["out"]
            fs = search_total(impl, case, obs)
            if len(obs["evals"]) >= 2:
                nontrivial += 1
            if case["cfg"]["missing"]:
                dist["missing_rate"] += 1
            if case["cfg"]["sgn"] < 0:
                dist["negative_coefficients"] += 1
        elif kind == 5:
            obs = pre_obs[ci]
            sq = orc.sqrt_tab(case["te"])
            ex = [orc.exp_entry(case["te"], case["wvl"])]
            g = case["gaunt"]
            fs = []
            if obs["rejected"]:
                # read-only and non-contiguous float64 arrays are refused by the typed memoryview of the unchanged code
                # (ValueError): the expected outcome for these forms; any other form must be accepted
                texts.append("true")
                okey = "rejected-array-form"
                if not obs["expected_rejection"]:
                    fs.append({"claim": "BremsFunction accepts every array-like of densities / charges except read-only and "
                                        "non-contiguous float64 arrays", "observed": "ValueError for forms %s" % (case["forms"],)})
            else:
                texts.append("check_bremsfn gen_consts %s %s %s %s %s %s %s %s %s %s %s" % (
                    coq_tab(sq), coq_tab(ex), qz(g[0]), qz(g[1]), qz(g[2]), qz(g[3]), qz(case["ne"]), qz(case["te"]),
                    "[" + "; ".join("(%s, %s)" % (qz(z), qz(n)) for z, n in case["zs"]) + "]", qz(case["wvl"]), qz(obs["value"])))
                okey = "value"
            if sum(1 for z, n in case["zs"] if n > 0 and z > 0) >= 2:
                nontrivial += 1
        elif kind == 6:
            obs = pre_obs[ci]
            sq = orc.sqrt_tab(case["te"])
            ex = []
            rtol = 1e-13 if case["tight"] else gq_defaults["rtol"]
            live = any(ch > 0 and n > 0 for (_, ch, n, _) in case["comp"])
            kmax = gq_defaults["min_order"]
            if case["ne"] > 0 and case["te"] > 0 and live:
                # the order at which the code's loop stops, predicted with the reference integrand (floats); the caches handed to
                # Coq end two orders above it (never beyond the code's max_order)
                dlt = (case["maxw"] - case["minw"]) / case["bins"]
                for i in range(case["bins"]):
                    kmax = max(kmax, predict_order(impl, orc, case, case["minw"] + i * dlt, case["minw"] + (i + 1) * dlt, rtol, gq_defaults))
                if kmax >= gq_defaults["max_order"]:
                    # the loop never meets its stopping test (typically every function value underflows to exactly 0, and
                    # 0 < rtol * 0 is false): the code runs all orders up to max_order.  The caches handed to Coq are
                    # truncated after three orders; the comparison then still decides whenever the rules agree (they all give
                    # 0 in the underflow case); counted in the evidence
                    kmax = gq_defaults["min_order"]
                    n_nonconv += 1
                kmax = min(gq_defaults["max_order"], kmax + 2)
                delta = (Fraction(case["maxw"]) - Fraction(case["minw"])) / case["bins"]
                lower = Fraction(case["minw"])
                for i in range(case["bins"]):
                    upper = Fraction(case["minw"]) + delta * (i + 1)
                    dd, cc = Fraction(1, 2) * (upper - lower), Fraction(1, 2) * (lower + upper)
                    for order in range(gq_defaults["min_order"], kmax + 1):
                        for xk in gq_rule(order)[0]:
                            ex.append(orc.exp_entry(case["te"], cc + dd * Fraction(xk)))
                    lower = upper
            roots, weights = [], []
            for order in range(gq_defaults["min_order"], kmax + 1):
                roots += gq_rule(order)[0]
                weights += gq_rule(order)[1]
            gq_orders[kmax] = gq_orders.get(kmax, 0) + 1
            g = case["gaunt"]
            mx = max([abs(v) for v in obs["samples"]] + [0.0])
            prec = 80 - (math.frexp(mx)[1] if mx > 0 else 0)
            texts.append("(%s%%Z, (fun pc : bool => Bool.eqb pc %s && check_brems (pow2 (-40)) %s gen_consts %s %s %s %s %s %s %s %s %d%%nat %d%%nat %s %s %s %s %s %s %d%%nat %s %s))" % (
                zlit(obs["opcode"]), "true" if obs["calls"] == [[7]] else "false", zlit(prec), coq_tab(sq), coq_tab(ex), qz(g[0]), qz(g[1]), qz(g[2]), qz(g[3]), coq_ql(roots), coq_ql(weights),
                gq_defaults["min_order"], kmax, qz(rtol),
                qz(case["ne"]), qz(case["te"]), coq_comp(impl, case["comp"]), qz(case["minw"]), qz(case["maxw"]), case["bins"],
                coq_ql(obs["samples"]), coq_ql(obs["gaunt_z"])))
            okey = "bins" if (case["ne"] > 0 and case["te"] > 0) else "Skip"
            fs = search_brems(impl, orc, case, obs)
            if obs["gaunt_te"] not in ([], [case["te"]]):
                fs.append({"claim": "the Gaunt factor is evaluated at the electron temperature", "observed": obs["gaunt_te"]})
            if obs["calls"] not in ([], [[7]]):
                fs.append({"claim": "the provider is asked for the Gaunt factor at most once per evaluation", "observed": obs["calls"]})
            if len(obs["gaunt_z"]) >= 2:
                nontrivial += 1
        elif kind == 8:
            obs = pre_obs[ci]
            n_gaunt += 1
            fs = []
            b = obs["bounds"]
            code = (0 if case["z"] == 0 else 1 if (obs["u_d"] >= b[1] or obs["g2_d"] >= b[3]) else
                    2 if (obs["u_d"] < b[0] or obs["g2_d"] < b[2]) else 3)
            okey = ["zero", "classical", "born", "interpolated"][code] + ("@" + case.get("boundary", "none") if case.get("boundary", "none") != "none" else "")
            if obs["range"] != ((b[0], b[1]), (b[2], b[3])):
                fs.append({"claim": "u_range / gamma2_range report the bounds of the table", "observed": obs["range"]})
            if case.get("boundary") == "knot" and "error" not in obs:
                texts.append("check_gaunt_knot gen_consts %s %s %s %s %s %s %s %s %s %s %s %s" % (
                    qz(consts["RYDBERG_CONSTANT_EV"]), qz(b[0]), qz(b[1]), qz(b[2]), qz(b[3]), qz(case["z"]), qz(case["te"]),
                    qz(case["wvl"]), qz(obs["u_d"]), qz(obs["g2_d"]), qz(case["values"][2][2]), qz(obs["value"])))
            elif "error" in obs or "twin_error" in obs:
                texts.append("true")
                if "error" in obs and "twin_error" not in obs:
                    fs.append({"claim": "the Gaunt factor is defined for every z, temperature > 0 and wavelength > 0",
                               "observed": obs["error"]})
                else:
                    okey += ":interpolator-edge"
                    edge_cases.append({"case": case, "obs": obs})
            else:
                texts.append("check_gaunt gen_consts %s %s %s %s %s %s %s %s %s %s %s %s %s %s" % (
                    qz(consts["RYDBERG_CONSTANT_EV"]), qz(math.sqrt(3.0)), qz(b[0]), qz(b[1]), qz(b[2]), qz(b[3]),
                    qz(case["z"]), qz(case["te"]), qz(case["wvl"]), qz(obs["u_d"]), qz(obs["g2_d"]), qz(obs["ln4u"]),
                    qz(obs["interp"]), qz(obs["value"])))
            nontrivial += 1
        else:
            obs = pre_obs[ci]
            texts.append("check_radfn %s %s %s %d%%nat %s" % (qz(case["phi"]), qz(case["minw"]), qz(case["maxw"]), case["bins"],
                                                             coq_ql(obs["samples"])))
            okey = "bins"
            fs = []
            nontrivial += 1
        if obs.get("rebased") is not None:
            b0, s2 = obs["rebased"]
            n_rebased += 1
            if s2 != [b0 + v for v in obs["samples"]]:
                fs.append({"claim": "emission is ADDED to what the spectrum already holds (second call at the same point, same instance)",
                           "observed": s2, "expected": [b0 + v for v in obs["samples"]]})
        dist["outcomes"][names[kind] + ":" + str(okey)] = dist["outcomes"].get(names[kind] + ":" + str(okey), 0) + 1
        metas.append(case)
        observations.append(obs)
        for f in fs:
            search_fails.append(dict(f, case=case, case_index=ci))

    search_fails += fresh_fails
    # dedicated search inputs for the sign clause of thermal CX: one donor with a negative density
    n_neg = 0
    for _ in range(6 if quick else 40):
        case = gen_line_case(impl, rng, 3, "dyadic")
        e, c, t = case["line"]
        case["cfg"]["sgn"] = 1.0
        case["ne"], case["te"] = abs(case["ne"]) + 1, abs(case["te"]) + 1
        comp = [(se, sc, abs(n) + 1 if (se, sc) == (e, c + 1) else 0.0, abs(tt) + 1) for (se, sc, n, tt) in case["comp"]]
        if (e, c + 1) not in [(s[0], s[1]) for s in comp]:
            comp.append((e, c + 1, 2.0, 1.0))
        don = [i for i, s in enumerate(comp) if (s[0], s[1]) != (e, c + 1) and s[1] < impl.znum(s[0])]
        if not don:
            comp.append((1, 0, 0.0, 3.0))
            don = [len(comp) - 1]
        i = rng.choice(don)
        comp[i] = (comp[i][0], comp[i][1], -float(rng.randint(1, 8)), comp[i][3])
        case["comp"] = comp
        ctx.crumb(case)
        obs = impl.run_line(case)
        n_neg += 1
        for f in search_line(impl, case, obs):
            search_fails.append(dict(f, case=case, case_index=-1))

    ctx.log("case texts and search done")
    # ---- run the model inside Coq -----------------------------------------------------------------------
    # units: the evaluations of one sequence stay together; their populate / provider-call decisions are made by the
    # cache state machine of the model (run_steps / run_brems_steps) inside Coq
    units, i = [], 0
    while i < len(cases):
        j = i + 1
        while j < len(cases) and cases[j].get("seq_step", 0) > 0:
            j += 1
        kind = cases[i]["kind"]
        ids = list(range(i, j))
        body = ";\n   ".join(texts[k] for k in ids)
        if kind in (1, 2, 3, 4):
            units.append(("run_steps false [\n   %s]" % body, ids))
        elif kind == 6:
            units.append(("run_brems_steps (false, %s) [\n   %s]" % ("true" if pre_obs[i]["user_at_start"] else "false", body), ids))
        else:
            units.append(("[%s]" % body, ids))
        i = j
    shard_size = 60
    nshards = max(16, -(-len(texts) // shard_size))
    files = []
    shard_of = {}
    for si in range(nshards):
        mine = units[si::nshards]          # round-robin: the slower bremsstrahlung sequences are spread evenly
        ids = [k for _, u in mine for k in u]
        if not ids:
            continue
        for k in ids:
            shard_of[k] = si
        txt = ("Require Import Cherab.Common.Qx Cherab.Model.C03_Passive Cherab.Model.C03_Brems Cherab.Model.C03_Cache Cherab.Model.C03_Check.\n"
               "Open Scope Q_scope.\nDefinition gen_consts : consts := %s.\n"
               "Definition results : list bool :=\n  %s.\nEval vm_compute in (failing results).\n"
               % (orc.coq_consts(), "\n  ++ ".join("(%s)" % t for t, _ in mine)))
        files.append((ctx.write_gen("cases_%03d.v" % si, txt), ids))
    res = coqc_many([f for f, _ in files], timeout=1800, jobs=int(os.environ.get("C03_COQ_JOBS", "4")))
    diff_cases = []
    for f, ids in files:
        ok, out = res[f]
        vals = parse_evals(out) if ok else []
        good = ok and len(vals) == 1
        failing = parse_zlist(vals[0]) if good else []
        ctx.obligation("correspondence %s (%d cases)" % (os.path.basename(f), len(ids)), "correspondence",
                       good and not failing, out if not good else "DIFF at local indices %s" % failing)
        if not good:
            ctx.broken.append("coqc failed on %s: %s" % (f, out[-500:]))
        diff_cases += [ids[i] for i in failing]
    ctx.log("correspondence: %d cases, %d disagree; search: %d failures" % (len(texts), len(diff_cases), len(search_fails)))

    # ---- verdicts -------------------------------------------------------------------------------------------
    other = search_fails
    ctx.obligation("executable property on the implementation (%d cases + %d thermal-CX sign probes)"
                   % (len(cases), n_neg), "search", not other, str(other[:3]))
    seen = set()
    for f in other:
        key = "c03:%s:%s" % (names[f["case"]["kind"]], f["claim"][:50])
        if key in seen:
            continue
        seen.add(key)
        ctx.violation(key, "%s: %s" % (names[f["case"]["kind"]], f["claim"]),
                      {k: v for k, v in f.items() if k != "case_index"}, found=True)
        if len(seen) >= 5:
            break
    if guard_error and not other:
        ctx.violation("c03:guard-structure", "the guard structure of an emission() function is no longer the documented one: " + guard_error,
                      {"translator": guard_error}, found=False)
    if consts_bad and not other:
        ctx.violation("c03:constants", "constants.pyx no longer gives the CODATA 2018 values / RECIP_4_PI the model uses (Gen tie lemma consts_ok fails)",
                      {"constants": {k: v for k, v in consts.items()}}, found=False)
    if diff_cases and not other:
        for ci in diff_cases[:3]:
            ctx.violation("c03-diff:%s" % names[metas[ci]["kind"]],
                          "model and implementation differ for a %s case (accessor calls, evaluate() arguments, line-shape target "
                          "or value); the executable property found no failing input" % names[metas[ci]["kind"]],
                          {"case": metas[ci], "observed": observations[ci], "correspondence": "coq/Gen/C03/cases_%03d.v" % shard_of[ci]},
                          found=False)

    ctx.coverage.update({
        "evaluations": len(texts),
        "distinct_nontrivial": nontrivial,
        "rule": "one case = one call of model.emission (or BremsFunction.__call__ / RadiationFunction.emission_function) at one plasma "
                "point; non-trivial = the model emits and (thermal CX) has >= 2 donors / (total power) >= 2 terms evaluated / "
                "(bremsstrahlung) >= 2 ions take part",
        "distribution": dict(dist, styles="half dyadic (products exact in double), half realistic magnitudes (1e15..1e21 m^-3, 0.1..1e4 eV)",
                             sign_probes=n_neg, corpus_cases=len(corpus), mutation_ops_between_points=op_counts,
                             attachment_routes=route_counts, fresh_object_comparisons=n_fresh_cmp,
                             second_order_probes=n_probes, gaunt_factor_cases=n_gaunt, sign_matrix_cases=n_sign_cases, gq_cache_last_order=gq_orders, gq_nonconvergent_cases_truncated=n_nonconv,
                             second_calls_into_prefilled_spectrum=n_rebased, gaunt_interpolator_edge_cases=len(edge_cases),
                             sequences=dict(transitions, length=SEQ_LEN,
                             rule="line, total-power and bremsstrahlung cases are consecutive points of one plasma evaluated on ONE "
                                  "model instance; every evaluation is compared with the model's value for that point alone")),
        "tolerance": {"line_and_total_radiance": "2^-44 * sum of |terms|", "accessor_calls/evaluate_args/lineshape_target/error_kind": "exact",
                      "total_power_bins": "all bins bit-identical", "brems_integrand": "2^-40",
                      "brems_bins": "2^-40 for both the default (rtol 1e-5) and the rtol 1e-13 integrator, against the MODEL of "
                                    "GaussianQuadrature.evaluate run in Coq on scipy's roots_legendre caches (same adaptive loop, same stopping "
                                    "order); function values rounded down to 2^-P, P 80 bits below the sample magnitude (C03_rnd_bounds)",
                      "populate_and_provider_call_decisions": "exact, made by the cache state machine of the model inside Coq",
                      "gaunt_factor": "zero / classical / interpolated branches exact, Born 2^-44; u and gamma2 doubles within 2^-50 of the exact values",
                      "constants": "2^-50 (HC_EV_NM 2^-26, BOHR_MAGNETON 2^-29, see partial); RECIP_4_PI, M_PI, EULER_GAMMA, hydrogen-isotope "
                                   "loop, default integrator parameters: exact",
                      "absolute_floor": "2^-800 in every value comparison (subnormal inputs)",
                      "radiation_function": "2^-48", "search": "1e-12 (formulas), 1e-9 (GaussianLine integral), 3e-5 / 1e-9 (bremsstrahlung bins)"},
        "partial": ["C03_brems_bin_average_partial: the integral statement assumes an exact integrator; the code's integrator is modelled and tied "
                    "(C03_gq_refines_rule, C03_gq_laws) but its quadrature error bound is an analytic fact that is not proved",
                    "InterpolatedFreeFreeGauntFactor (gaunt.pyx): only its branch structure is modelled (Model/C03_Gaunt.v, tie only, no "
                    "theorem); log and the 2-D interpolator are oracles (libm, a twin raysect interpolator)",
                    "line shapes are an oracle with unit integral (property C02)",
                    "observation, not a C03 violation: constants.pyx carries the CODATA 2014 values of HC_EV_NM (1239.8419738620933, "
                    "8.4e-9 from h*c/e of the 2018 constants in the same file) and BOHR_MAGNETON (5.78838180123e-5, 8.3e-10 from 2018) under "
                    "a 'CODATA 2018' comment; neither is used by the passive emission models; consts_all_ok holds them to 2^-26 / 2^-29 only"],
    })
    ctx.coverage["samples"] = [metas[0], metas[len(metas) // 2]]
    ctx.grep_gate()
