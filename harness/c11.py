"""C11 -- Inversion solvers (cherab/tools/inversions/sart.pyx, nnls.py, lstsq.py, svd.py).

Theorems: coq/Properties/C11.v (all matrix shapes, all iteration limits, all competitor points).
Tie, SART: the real invert_sart / invert_constrained_sart are run; (a) small exactly representable
  systems: the Coq model runs the whole inversion from the initial guess (vm_compute) and solution,
  convergence list and number of sweeps are compared; (b) any system: every sweep of the model is run in
  Coq from the implementation's previous iterate (iterate k = output of the real function with
  max_iterations = k) and compared under a rounding-error-scaled tolerance, the convergence values and
  the stopping decisions are compared as well.
Tie, NNLS/LSQ/SVD: (a) the wrappers are run with a recording stub in place of the third-party solver and
  the system they hand over / the way they pass the result back is compared in Coq with the model wrapper;
  (b) the real outputs (third-party solver included) are fed to the eps-KKT / eps-normal-equation
  checkers evaluated in Coq in exact arithmetic (per-output certificates: validation of outputs).
Search: the executable statement of the property on the implementation (c11_search.py).
"""
import json
import math
import os
import re
import warnings

import numpy as np

from common import VERIF, qlit, qlist, zlit, dyadic, coqc_many, parse_evals, parse_zlist
import c11_search as S
import c11_forms as F
import c11_source as SRC
from common import coqc

THEOREMS = ["C11_sart_returns_iterate_under_stopping_rule", "C11_csart_returns_iterate_under_stopping_rule",
            "C11_sart_step_is_documented_rule", "C11_csart_step_is_documented_rule",
            "C11_sart_zero_rows_and_columns_harmless",
            "C11_sart_solution_nonnegative", "C11_csart_solution_nonnegative",
            "C11_sart_exact_solution_is_fixed_point", "C11_csart_exact_solution_is_fixed_point",
            "C11_sart_error_only_for_zero_measurement",
            "C11_stacked_system_is_tikhonov_objective", "C11_kkt_certificate_sufficient",
            "C11_normal_equations_certificate_sufficient", "C11_nnls_wrapper_returns_tikhonov_minimiser",
            "C11_nnls_output_certificate_sound", "C11_lstsq_output_certificate_sound",
            "C11_svd_output_certificate_sound",
            "C11_sart_sweep_scale_covariant", "C11_sart_inversion_scale_covariant", "C11_sart_sweep_respects_equal_iterates",
            "C11_csart_beta_zero_is_sart", "C11_sart_exact_start_makes_two_sweeps", "C11_stop_replay_is_the_model_rule",
            "C11_exact_certificates_give_exact_minimisers", "C11_lstsq_wrapper_returns_tikhonov_minimiser",
            "C11_nnls_wrapper_error_and_norm_sign",
            "C11_sart_sweep_order_invariant", "C11_sart_inversion_order_invariant", "C11_round53_error_bounds",
            "C11_float_stop_decision_is_exact_outside_rounding_margin"]

E1 = float(np.exp(-1))          # the constant the code uses for a missing initial guess


def qmat(M):
    return "[" + "; ".join(qlist(row) for row in np.asarray(M, dtype=float).tolist()) + "]"


def guess_lit(g):
    if g is None:
        return "GuessNone"
    if isinstance(g, float):
        return "(GuessConst %s)" % qlit(g)
    return "(GuessVec %s)" % qlist(g.tolist())


def finite(*arrs):
    return all(np.all(np.isfinite(np.asarray(a, dtype=float))) for a in arrs)


# ---------------------------------------------------------------------------------------------
# generators
# ---------------------------------------------------------------------------------------------
def gen_value(rng, mode, lo, hi):
    if mode == "int":
        return float(rng.randint(int(lo), int(hi)))
    if mode == "dyadic":
        return dyadic(rng, lo, hi, 6)
    return rng.uniform(lo, hi)


def gen_matrix(rng, m, n, mode, tags, maxp=22):
    """non-negative weights; structural classes recorded in `tags`"""
    dens = rng.choice([0.3, 0.6, 1.0])
    W = np.zeros((m, n))
    for i in range(m):
        for j in range(n):
            if rng.random() < dens:
                W[i, j] = gen_value(rng, mode, 0, 4)
    r = rng.random()
    if r < 0.25 and m > 1:
        i = rng.randrange(m)
        W[i, :] = 0
        tags.add("zero_row")
    r = rng.random()
    if r < 0.25 and n > 1:
        j = rng.randrange(n)
        W[:, j] = 0
        tags.add("zero_col")
    r = rng.random()
    if r < 0.2 and m > 1:
        i, k = rng.sample(range(m), 2)
        W[i, :] = W[k, :] * rng.choice([1.0, 2.0, 0.5])
        tags.add("dup_row")
    r = rng.random()
    if r < 0.2 and n > 1:
        j, k = rng.sample(range(n), 2)
        W[:, j] = W[:, k]
        tags.add("dup_col")
    if mode == "float" and rng.random() < 0.25 and n > 1 and m > 0:
        # nearly dependent columns (ill-conditioned, singular value ~ 2^-p of the largest)
        j, k = rng.sample(range(n), 2)
        p = rng.randint(8, maxp)
        W[:, j] = W[:, k] * (1.0 + 2.0 ** -p)
        W[rng.randrange(m), j] += 2.0 ** -p
        tags.add("near_dup_col")
    if not W.any():
        tags.add("all_zero")
    if np.any(W.sum(axis=1) == 0):
        tags.add("zero_row")
    if np.any(W.sum(axis=0) == 0):
        tags.add("zero_col")
    tags.add("under" if m < n else ("over" if m > n else "square"))
    return W


def gen_measurement(rng, W, mode, tags):
    m, n = W.shape
    r = rng.random()
    if r < 0.5:
        xt = np.array([gen_value(rng, mode, 0, 5) for _ in range(n)])
        b = W @ xt
        if rng.random() < 0.5:
            b = b + np.array([gen_value(rng, mode, 0, 2) for _ in range(m)])
        else:
            tags.add("consistent")
    else:
        b = np.array([gen_value(rng, mode, 0, 20) for _ in range(m)])
    if mode != "float":
        b = np.round(b * 64) / 64
    return b


def gen_laplacian(rng, n, mode, tags):
    kind = rng.choice(["chain", "chain", "ring", "random"])
    L = np.zeros((n, n))
    if kind == "random":
        for i in range(n):
            for j in range(n):
                if rng.random() < 0.4:
                    L[i, j] = gen_value(rng, mode if mode != "int" else "dyadic", -1, 1)
        tags.add("L_random")
        return L
    for i in range(n):
        nb = [i - 1, i + 1]
        if kind == "ring" and n > 2:
            nb = [(i - 1) % n, (i + 1) % n]
        nb = [k for k in nb if 0 <= k < n and k != i]
        L[i, i] = len(nb)
        for k in nb:
            L[i, k] = -1
    tags.add("L_" + kind)
    return L


def shape_for(rng, m, n, kind, tags):
    """empty containers as a regular class: no observations (m = 0) for every entry point, no cells (n = 0) except for
    NNLS (scipy.optimize.nnls aborts the interpreter with 'double free' on a system without columns: third party)"""
    r = rng.random()
    if r < 0.03:
        m = 0
        tags.add("no_rows")
    elif r < 0.06 and kind != "nnls":
        n = 0
        tags.add("no_columns")
    return m, n


def negative_zeros(rng, a, tags):
    """-0.0 is a valid zero: it must behave like 0.0 in every guard (density > 0, ray length == 0, x < 0)"""
    if isinstance(a, np.ndarray) and a.size and rng.random() < 0.15:
        z = (a == 0) & (np.array([rng.random() < 0.5 for _ in range(a.size)]).reshape(a.shape))
        if z.any():
            a = a.copy()
            a[z] = -0.0
            tags.add("negative_zero")
    return a


def apply_scale(rng, case):
    """scale covariance: W and b multiplied by powers of two over many decades (2^-200 .. 2^200 = 1e-60 .. 1e60);
    the model is fed the scaled values"""
    if rng.random() >= 0.3:
        return
    span = 40 if (case.get("large") or case["m"] * case["n"] > 60) else 200      # exact arithmetic cost in Coq grows with the exponents
    kW = rng.randint(-span, span)
    kb = kW if rng.random() < 0.3 else rng.randint(-span, span)
    case["W"] = case["W"] * 2.0 ** kW
    case["b"] = case["b"] * 2.0 ** kb
    g = case.get("guess")
    if g is not None and rng.random() < 0.6:
        case["guess"] = g * 2.0 ** (kb - kW)
    if "alpha" in case and rng.random() < 0.5:
        case["alpha"] = case["alpha"] * 2.0 ** kW
    case["tags"].add("scaled")
    case["scale"] = [kW, kb]


def gen_guess(rng, n, mode, tags):
    r = rng.random()
    if r < 0.2:
        tags.add("guess_none")
        return None
    if r < 0.35:
        tags.add("guess_scalar")
        return float(gen_value(rng, mode, 0, 3))
    v = np.array([gen_value(rng, mode, -2 if rng.random() < 0.5 else 0, 6) for _ in range(n)])
    if np.any(v < 0):
        tags.add("guess_negative")
    return v


def initial_array(g, n):
    if g is None:
        return np.zeros(n) + E1
    if isinstance(g, float):
        return np.zeros(n) + g
    return g.copy()


def gen_sart_case(rng, mode, big, constrained):
    tags = set()
    large = big and rng.random() < 0.3
    if large:
        m, n = rng.randint(1, 12), rng.randint(1, 20)     # up to the design's 12 x 20, few sweeps
    elif big:
        m, n = rng.randint(1, 7), rng.randint(1, 9)
    else:
        m, n = rng.randint(1, 4), rng.randint(1, 5)
    m, n = shape_for(rng, m, n, "csart" if constrained else "sart", tags)
    W = negative_zeros(rng, gen_matrix(rng, m, n, mode, tags), tags)
    b = gen_measurement(rng, W, mode, tags)
    if rng.random() < 0.04:
        b = np.zeros(m)
        tags.add("zero_measurement")
    b = negative_zeros(rng, b, tags)
    g = negative_zeros(rng, gen_guess(rng, n, mode, tags), tags)
    relax = 1.0 if rng.random() < 0.25 else dyadic(rng, 0.1, 1.9, 4)
    tol = rng.choice([1.0E-4, 1.0E-4, 2.0 ** -6, 2.0 ** -10, 0.0, 0.5, 8.0])
    maxit = rng.choice([0, 1, 2, 3, -1] if large else ([0, 1, 2, 3, 4, 6] + ([9, 14] if big else []) + [-1]))
    # (with conv_tol = 2^-6 a run can take a hundred sweeps; exact arithmetic over so many sweeps is affordable for small systems only)
    if big and not large and (tol in (0.5, 8.0) or (tol == 2.0 ** -6 and m * n <= 12)) and rng.random() < 0.25:
        maxit = 250                      # the documented default (left out of the call in the 'defaults' style)
        tags.add("default_max_iterations")
    case = {"kind": "csart" if constrained else "sart", "mode": mode, "m": m, "n": n, "W": W, "b": b, "guess": g,
            "relax": relax, "tol": tol, "maxit": maxit, "tags": tags, "big": big, "large": large}
    if constrained:
        case["L"] = gen_laplacian(rng, n, mode, tags)
        case["beta"] = rng.choice([0.0, 0.01, dyadic(rng, 0, 0.25, 6), dyadic(rng, 0, 0.25, 6), 1.0])
        if case["beta"] == 0.0:
            tags.add("beta_zero")
    apply_scale(rng, case)
    return case


def gen_lsq_case(rng, mode, kind):
    tags = set()
    m, n = shape_for(rng, rng.randint(1, 10), rng.randint(1, 12), kind, tags)
    # invert_svd forms the explicit pseudo-inverse, which loses eps x cond(W): condition numbers kept <= ~1e5 there
    W = gen_matrix(rng, m, n, mode, tags, maxp=16 if kind == "svd" else 22)
    b = gen_measurement(rng, W, mode, tags)
    if kind == "nnls" and rng.random() < 0.06:
        b = -np.abs(b) if rng.random() < 0.5 else np.zeros(m)
        tags.add("vmax_zero")
    alpha = rng.choice([0.01, 0.0, 1.0, 2.0, 3.0, dyadic(rng, 0, 2, 6), dyadic(rng, 0, 2, 6), 2.0 ** -10])
    if rng.random() < 0.3:
        L = None
        tags.add("L_none")
    else:
        L = gen_laplacian(rng, n, mode, tags)
    if alpha == 0.0:
        tags.add("alpha_zero")
    case = {"kind": kind, "mode": mode, "m": m, "n": n, "W": negative_zeros(rng, W, tags), "b": negative_zeros(rng, b, tags),
            "alpha": alpha, "L": L, "tags": tags}
    apply_scale(rng, case)
    return case


# ---------------------------------------------------------------------------------------------
# running the implementation
# ---------------------------------------------------------------------------------------------
_VARIANT = [0]


def run_sart_impl(inv, case, maxit=None, live=None):
    """returns ("ok", x, convs), ("zerodiv", None, None) or ("exception:<Type>: <text>", None, None).
    Fresh objects in the case's forms are built for every call (the implementation updates the initial guess
    in place) unless `live` objects are handed in (histories on the same objects)."""
    # the memory layout of the presented objects is fixed per case: NumPy rounds sums / dots differently for different
    # strides, and the runs with max_iterations = k must reproduce the intermediate iterates of the full run bit for bit
    a = live if live is not None else F.presented_args(case, case.setdefault("variant", 0))
    mi = case["maxit"] if maxit is None else maxit
    mi_obj = F.present_scalar(mi, case.get("forms", {}).get("maxit", "SPyInt"))
    constrained = case["kind"] == "csart"
    mod = inv.sart if case.get("via_module") else inv
    fn = mod.invert_constrained_sart if constrained else mod.invert_sart
    names = (["geometry_matrix"] + (["laplacian_matrix"] if constrained else []) + ["measurement_vector", "initial_guess",
             "max_iterations", "relaxation"] + (["beta_laplace"] if constrained else []) + ["conv_tol"])
    values = {"geometry_matrix": a["W"], "laplacian_matrix": a.get("L"), "measurement_vector": a["b"],
              "initial_guess": a["guess"], "max_iterations": mi_obj, "relaxation": a["relax"],
              "beta_laplace": a.get("beta"), "conv_tol": a["tol"]}
    plain = {"initial_guess": case["guess"], "max_iterations": mi, "relaxation": case["relax"],
             "beta_laplace": case.get("beta"), "conv_tol": case["tol"]}
    with warnings.catch_warnings():
        warnings.simplefilter("ignore")
        try:
            x, cs = F.call_with_style(fn, case.get("call", "mixed"), names, values, 3 if constrained else 2,
                                      F.SART_DEFAULTS, plain)
        except ZeroDivisionError:
            return "zerodiv", None, None
        except Exception as ex:            # not swallowed: compared with the policy table, reported with its input
            return "exception:%s: %s" % (type(ex).__name__, ex), None, None
    return "ok", np.array(x, dtype=float), [float(c) for c in cs]


def sart_trace_impl(inv, case):
    """final output of the real run plus the intermediate iterates (outputs of the real function with
    max_iterations = 1 .. n-1)"""
    st, x, cs = run_sart_impl(inv, case)
    if st != "ok":
        return st, None, None
    xs = []
    for k in range(1, len(cs)):
        st_k, xk, _ = run_sart_impl(inv, case, maxit=k)
        if st_k != "ok":
            return st_k if st_k.startswith("exception") else "exception:status %s with max_iterations=%d" % (st_k, k), None, None
        xs.append(xk)
    if len(cs) > 0:
        xs.append(x)
    return st, xs, cs


def sart_history(inv, case, rng):
    """HISTORY ON LIVE OBJECTS: the same W, b, L objects (and the array the function returned) are used for three
    successive runs; between the runs W or b is changed IN PLACE so that a guard is crossed (a cell / ray loses all its
    weight: density > 0 -> 0, ray length -> 0; b -> 0) and then restored.  Every step becomes a derived case with the
    configuration current at that step: it is run again on freshly built objects (must agree bit for bit with the live
    result) and goes through the same Coq tie."""
    live = F.presented_args(case, case.setdefault("variant", 0))
    W0 = case["W"].copy()
    b0 = case["b"].copy()
    m, n = case["m"], case["n"]
    options = ["none"]
    if isinstance(live["W"], np.ndarray) and live["W"].flags.writeable and m > 0 and n > 0:
        options += ["zero_col", "zero_row", "zero_col", "zero_row"]
    if isinstance(live["b"], np.ndarray) and live["b"].flags.writeable and m > 0:
        options += ["zero_b"]
    mutation = rng.choice(options)
    idx = rng.randrange(max(n if mutation == "zero_col" else m, 1))
    derived = []
    guess_obj = live["guess"]
    guess_val = case["guess"]
    for step in range(3):
        if step == 1:
            if mutation == "zero_col":
                live["W"][:, idx] = 0.0
            elif mutation == "zero_row":
                live["W"][idx, :] = 0.0
            elif mutation == "zero_b":
                live["b"][...] = 0.0
        elif step == 2:
            if mutation in ("zero_col", "zero_row"):
                live["W"][...] = W0
            elif mutation == "zero_b":
                live["b"][...] = b0
        d = dict(case)
        d["W"] = np.array(live["W"], dtype=float).copy()
        d["b"] = np.array(live["b"], dtype=float).copy()
        d["guess"] = guess_val.copy() if isinstance(guess_val, np.ndarray) else guess_val
        d["maxit"] = rng.choice([1, 2, 3])
        d["forms"] = dict(case["forms"])
        if isinstance(guess_val, np.ndarray) and not isinstance(case["guess"], np.ndarray):
            d["forms"]["guess"] = "F64"          # the array returned by the previous run
        d["tags"] = (set(case["tags"]) - {"exact_solution_start", "default_max_iterations", "consistent"}) | {
            "history_step%d" % step, "history_" + mutation}
        d["derived"] = True
        d["tie"] = "trace"
        d.pop("impl", None)
        live["guess"] = guess_obj
        st, x, cs = run_sart_impl(inv, d, live=live)
        d["expect_live"] = (st, None if x is None else x.copy(), cs)
        derived.append(d)
        if st != "ok":
            # the failed call may or may not have touched the guess; continue from a defined state
            guess_val = np.array(guess_obj, dtype=float).copy() if isinstance(guess_obj, np.ndarray) else guess_val
            continue
        guess_obj = x if not isinstance(guess_obj, np.ndarray) else guess_obj     # re-use what was returned
        if not isinstance(live["guess"], np.ndarray):
            guess_obj = x
        guess_val = np.array(guess_obj, dtype=float).copy()
    return derived


class Recorder:
    """stands in for the third-party solver; records what the wrapper hands over"""

    def __init__(self, rng, n, with_rank):
        self.args = None
        self.x = np.array([dyadic(rng, 0, 4, 6) for _ in range(n)])
        self.r = dyadic(rng, 0, 8, 6)
        self.with_rank = with_rank
        self.kwargs = None

    def __call__(self, A, y, **kw):
        self.args = (np.array(A, dtype=float), np.array(y, dtype=float))
        self.kwargs = kw
        if self.with_rank:
            return self.x, np.array([self.r]), 0, np.zeros(len(self.x))
        return self.x, self.r


# ---------------------------------------------------------------------------------------------
def run(ctx):
    ctx.trusted += [
        "Coq 8.16.1 kernel, vm_compute (no native_compute)",
        "harness/c11.py, c11_search.py: generators, extraction of iterates (real function with max_iterations = k), "
        "recording stub for the third-party solvers, Q literal printer, comparators in Model/C11_Check.v",
        "IEEE double rounding and NumPy sum/dot under the stated tolerances (2^-40 of the per-cell term magnitude for one "
        "sweep, 2^-30 for whole runs, 2^-30 of the rounding-error scale for certificates)",
        "scipy.optimize.nnls, numpy.linalg.lstsq, scipy.linalg.pinv are NOT verified: their outputs are certified one by "
        "one (eps-KKT / eps-normal equations evaluated in Coq); the theorem turns each certificate into eps-optimality "
        "against every competitor",
    ]
    ctx.assumptions += [
        "shapes are consistent (len(b) = rows of W, initial guess and Laplacian/Tikhonov matrix match the columns) and "
        "weights are non-negative, as the property states; inputs are finite doubles",
        "input objects: every array argument (W, b, L, initial guess) is independently handed over as float64 (C, Fortran, "
        "strided / negative strides / transposed), int32, int64, uint8, bool, float32, nested list or read-only array, scalars as "
        "Python int / float, NumPy scalars or 0-d arrays; the model is fed the exact values of the objects passed.  Which forms an "
        "entry point rejects, and with which exception, is the policy table coq/Model/C11_Forms.v (SART: only writable float64 "
        "arrays of any layout for W, b, guess - Cython typed memoryviews; NNLS/LSQ: W must have .shape, a nested-list Tikhonov "
        "matrix only with a 0-d alpha; SVD: b must have .reshape); the observed outcome is compared with it in Coq; accepted forms "
        "go through the same ties as float64",
        "regular input classes of both tiers besides the random systems: histories on live objects (the same W, b, L objects and the "
        "returned array re-used for three successive runs, W / b changed in place across a guard and restored; every step compared "
        "with a freshly built call and run through the Coq tie), exact boundaries (conv_tol equal to an observed |c_k - c_(k-1)| and "
        "one ulp either side, decided by replaying the rule on the implementation's own convergence values; -0.0 entries; no rows / "
        "no columns; max_iterations 0, 1, 2, negative, default 250), scales 2^-200 .. 2^200 for W and b independently, call styles "
        "(positional, keywords, optional arguments left to their documented defaults, package re-export vs defining module, "
        "solver keyword arguments), and the search's scale-covariance and observation-order checks",
        "floating-point range is not modelled: |b|^2 must neither underflow nor overflow (|b| within about 1e-150 .. 1e150, else the "
        "implementation raises ZeroDivisionError / reports nan or inf convergence and residual values); NNLS is not given a system "
        "without columns (scipy.optimize.nnls aborts the interpreter there)",
        "single precision inside the implementation (not promoted to double by the code): scipy's pinv works in float32 for a "
        "float32 / uint8 / bool W (invert_svd), NumPy forms alpha*L in float32 for a float32 Tikhonov matrix (NNLS/LSQ); for "
        "these inputs the certificates are asked for at 2^-17 / the handed-over system at 2^-21",
        "SART: the measurement vector is not identically zero when at least one sweep is made (the documented convergence "
        "value is normalised by |b|^2; the implementation raises ZeroDivisionError there and the model says so - compared exactly)",
        "NNLS: max(b) > 0 (the documented normalisation by max(b_vector); for max(b) <= 0 the implementation raises "
        "ValueError from scipy's finiteness check and the model returns the same error kind - compared exactly)",
        "'minimiser' for the third-party solvers means: passes the eps-certificate, hence eps-optimal by the Coq theorem "
        "(eps = 2^-30 x rounding-error scale of the gradient / objective); no theorem about the solvers' algorithms",
    ]
    ctx.rebuild()
    ctx.proofs("Properties.C11", THEOREMS, extra_modules=("Model.C11_Check", "Proofs.C11_Check", "Model.C11_Forms", "Model.C11_Round", "Proofs.C11_Round", "Proofs.C11_Order"))
    ctx.log("proofs checked")

    import cherab
    from common import REPO
    assert list(cherab.__path__) == [REPO + "/cherab"], cherab.__path__
    import scipy.optimize
    from cherab.tools import inversions as inv
    from cherab.tools.inversions import nnls as nnls_mod, lstsq as lstsq_mod, svd as svd_mod

    # ---- regenerated from the current source / running system, tied by the kernel (coq/Gen/C11/*_tie.v) ----------
    try:
        dpath = ctx.write_gen("defaults_tie.v", SRC.defaults_tie_text())
        okd, outd = coqc(dpath, timeout=600)
    except SRC.TranslationError as ex:
        okd, outd = False, "translator failed closed: %s" % ex
    ctx.obligation("Gen tie defaults_tie.v: parameter order and defaults parsed from sart.pyx / nnls.py / lstsq.py / svd.py "
                   "equal Model/C11_Forms.model_defaults", "tie", okd, outd)
    if not okd:
        ctx.violation("c11:defaults-tie", "parameter names / default values of the entry points in the source no longer equal the "
                      "model's (documented) defaults: " + outd.strip()[-300:], {"tie": "coq/Gen/C11/defaults_tie.v"}, found=False)
    ptxt, pterms = SRC.policy_tie_text(inv)
    ppath = ctx.write_gen("policy_tie.v", ptxt)
    okp, outp = coqc(ppath, timeout=900)
    badp = []
    if not okp:
        vals = parse_evals(outp)
        badp = [pterms[i] for i in parse_zlist(vals[0][:vals[0].index("]") + 1])] if (vals and "]" in vals[0]) else []
    ctx.obligation("Gen tie policy_tie.v: %d probed (entry point, argument forms) combinations equal the policy functions of "
                   "Model/C11_Forms.v (complete enumeration)" % len(pterms), "tie", okp, outp[-1500:] + " " + str(badp[:5]))
    if not okp:
        raised = [t for t in badp if not t.endswith("Accept")]
        ctx.violation("c11:policy-tie", "accepted / rejected argument forms differ from the policy table: %s" % (badp[:4],),
                      {"mismatches (check_*_forms <forms> <observed>)": badp[:40]}, found=bool(raised))
    ctx.log("source ties done (%d policy combinations)" % len(pterms))

    rng = ctx.rng
    quick = ctx.quick
    entries = []      # (coq expression : Z code, meta)
    defs = []
    viol = []         # direct violations seen while running the implementation (non-finite output, crash)
    dist = {"kind": {}, "tags": {}, "mode": {}, "sweeps": {}, "tie": {}, "outcome": {}}

    def count(d, k):
        dist[d][str(k)] = dist[d].get(str(k), 0) + 1

    def meta_of(case, extra=None):
        m = {k: (v.tolist() if isinstance(v, np.ndarray) else (sorted(v) if isinstance(v, set) else v))
             for k, v in case.items()}
        if extra:
            m.update(extra)
        return m

    # ---- corpus of past disagreements first ----------------------------------------------------
    corpus_dir = os.path.join(VERIF, "corpus", "C11")
    corpus_cases = []
    if os.path.isdir(corpus_dir):
        for f in sorted(os.listdir(corpus_dir)):
            if f.endswith(".json"):
                c = json.load(open(os.path.join(corpus_dir, f)))
                for k in ("W", "b", "L"):
                    if c.get(k) is not None:
                        c[k] = np.array(c[k], dtype=float)
                if isinstance(c.get("guess"), list):
                    c["guess"] = np.array(c["guess"], dtype=float)
                c["tags"] = set(c.get("tags", [])) | {"corpus"}
                corpus_cases.append(c)

    # ---- SART cases ------------------------------------------------------------------------------
    n_run = 28 if quick else 400
    n_trace = 60 if quick else 2500
    sart_cases = [c for c in corpus_cases if c["kind"] in ("sart", "csart")]
    for i in range(n_run):
        sart_cases.append(gen_sart_case(rng, rng.choice(["int", "int", "dyadic"]), False, i % 2 == 1))
        sart_cases[-1]["tie"] = "run"
    for i in range(n_trace):
        sart_cases.append(gen_sart_case(rng, rng.choice(["int", "dyadic", "float", "float"]), True, i % 2 == 1))
        sart_cases[-1]["tie"] = "trace"
    # exact non-negative solutions as initial guess (fixed-point class), through the same tie
    for i in range(8 if quick else 60):
        c = gen_sart_case(rng, "int", True, i % 2 == 1)
        xs = np.array([float(rng.randint(0, 5)) for _ in range(c["n"])])
        if c["kind"] == "csart" and c["beta"] != 0.0 and "L_random" in c["tags"]:
            c["beta"] = 0.0
        if c["kind"] == "csart" and c["beta"] != 0.0:
            xs = np.zeros(c["n"]) + float(rng.randint(0, 5))      # constant vector: chain/ring Laplacian vanishes
        c["guess"], c["b"] = xs, c["W"] @ xs
        c["maxit"] = rng.choice([1, 3, 6])
        c["tags"] = (c["tags"] - {"guess_none", "guess_scalar", "guess_scalar_python_int", "guess_negative",
                                  "zero_measurement"}) | {"exact_solution_start"}
        c["tie"] = "trace"
        sart_cases.append(c)

    n_nontrivial = 0
    distinct = set()
    for case in sart_cases:
        if "corpus" not in case["tags"]:
            F.assign_forms(rng, case, preserve="exact_solution_start" in case["tags"])
    for ci, case in enumerate(sart_cases):
        case.setdefault("tie", "trace")
        n, m = case["n"], case["m"]
        x0 = initial_array(case["guess"], n)
        kind = case["kind"]
        st, xs, cs = sart_trace_impl(inv, case)
        count("kind", kind)
        count("mode", case["mode"])
        count("tie", case["tie"])
        for t in case["tags"]:
            count("tags", t)
        observed = "Accept" if not st.startswith("exception") else F.OUTCOME.get(st[10:].split(":")[0], "ErrOtherE")
        entries.append(("check_sart_forms %s %s %s %s" % (F.coq_array_form(case, "W"), F.coq_array_form(case, "b"),
                                                          F.coq_guess_form(case), observed),
                        dict(case, tie="forms", exception=st[10:] if observed != "Accept" else None)))
        count("tie", "forms")
        count("outcome", "%s:%s" % (kind, observed))
        if observed != "Accept":
            continue
        if st == "ok" and not finite(cs, *xs):
            viol.append(("c11:%s:nonfinite" % kind, "%s returned a non-finite solution or convergence value for finite inputs "
                         "with non-negative weights" % ("invert_constrained_sart" if kind == "csart" else "invert_sart"),
                         meta_of(case, {"impl_x": [x.tolist() for x in xs][-1:], "impl_convs": cs})))
            continue
        count("sweeps", len(cs) if st == "ok" else "error")
        Wn, bn = "W%d" % ci, "b%d" % ci
        defs.append("Definition %s : mat := %s.\nDefinition %s : vec := %s." % (Wn, qmat(case["W"]), bn, qlist(case["b"].tolist())))
        Ln = ""
        if kind == "csart":
            Ln = "L%d" % ci
            defs.append("Definition %s : mat := %s." % (Ln, qmat(case["L"])))
        g = guess_lit(case["guess"])
        err = "true" if st == "zerodiv" else "false"
        om = F.omitted_args(case)

        def opt(name, field, lit):
            return "(arg_or (%s dm) %s)" % (field, "None" if name in om else "(Some %s)" % lit)
        l_maxit = opt("max_iterations", "default_max_iterations", "(%s)%%Z" % zlit(case["maxit"]))
        l_relax = opt("relaxation", "default_relaxation", qlit(case["relax"]))
        l_tol = opt("conv_tol", "default_conv_tol", qlit(case["tol"]))
        l_beta = opt("beta_laplace", "default_beta_laplace", qlit(case["beta"])) if kind == "csart" else ""
        for nm in om:
            count("tags", "left_to_default_" + nm)
        if case["tie"] == "run" or st != "ok":
            ix = qlist(xs[-1].tolist()) if (st == "ok" and xs) else (qlist(x0.tolist()) if st == "ok" else "[]")
            ics = qlist(cs) if st == "ok" else "[]"
            if kind == "sart":
                e = "check_sart_run e1 %d %s %s %s %s %s %s %s %s %s" % (
                    n, Wn, bn, g, l_maxit, l_relax, l_tol, err, ix, ics)
            else:
                e = "check_csart_run e1 %d %s %s %s %s %s %s %s %s %s %s %s" % (
                    n, Wn, Ln, bn, g, l_maxit, l_relax, l_beta, l_tol, err, ix, ics)
        else:
            xs_l = "[" + "; ".join(qlist(x.tolist()) for x in xs) + "]"
            x0_l = "(initial_solution e1 %d %s)" % (n, g)
            if kind == "sart":
                e = "check_sart_trace %s %s %s %s %s %s %s %s" % (
                    Wn, bn, l_maxit, l_relax, l_tol, x0_l, xs_l, qlist(cs))
            else:
                e = "check_csart_trace %s %s %s %s %s %s %s %s %s %s" % (
                    Wn, Ln, bn, l_maxit, l_relax, l_beta, l_tol, x0_l, xs_l, qlist(cs))
        moved = st == "ok" and len(cs) > 0 and not np.array_equal(xs[-1], x0)
        if moved or st == "zerodiv" or "exact_solution_start" in case["tags"]:
            n_nontrivial += 1
            distinct.add((kind, case["W"].tobytes(), case["b"].tobytes(), x0.tobytes(), case["maxit"], case["relax"], case["tol"]))
        case["impl"] = {"status": st, "sweeps": len(cs) if st == "ok" else None,
                        "x": xs[-1].tolist() if (st == "ok" and xs) else None, "convs": cs,
                        "xs": [x.tolist() for x in xs] if st == "ok" else None}
        entries.append((e, case))
        if st == "ok":
            # EXACT: the stopping rule replayed in Coq on the implementation's own convergence values, the one rounded
            # subtraction modelled by round53; ds = the differences as this machine computes them
            ds = [abs(cs[k] - cs[k - 1]) for k in range(1, len(cs))]
            entries.append(("check_stop_exact %s %s %s %s" % (l_maxit, l_tol, qlist(cs), qlist(ds)), dict(case, tie="stop_exact")))
            count("tie", "stop_exact")
        if case.get("expect_live") is not None:
            lst, lx, lcs = case["expect_live"]
            fx = xs[-1] if (st == "ok" and xs) else (x0 if st == "ok" else None)
            # not bit for bit: NumPy sums / dots round differently for different strides of the same values
            same = (lst == st)
            if same and st == "ok":
                sc = max(np.abs(fx).max(initial=0.0), np.abs(x0).max(initial=0.0), 1e-300)
                same = lx.shape == fx.shape and np.abs(lx - fx).max(initial=0.0) <= 1e-10 * sc
                margin = min([abs(abs(cs[k] - cs[k - 1]) - case["tol"]) for k in range(1, len(cs))] + [np.inf])
                if same and len(lcs) != len(cs):
                    same = margin < 1e-9
                elif same and np.abs(fx).max(initial=0.0) > 1e-3 * sc:      # convergence values are well conditioned
                    same = all(abs(a - c) <= 1e-9 * (2 + abs(c)) for a, c in zip(lcs, cs))
            if not same:
                viol.append(("c11:%s:history" % kind, "%s on re-used live objects (run %s of a sequence on the same arrays, inputs "
                             "changed in place between runs) differs from the same call on freshly built objects"
                             % (kind, sorted(t for t in case["tags"] if t.startswith("history"))),
                             meta_of(case, {"live_status": lst, "live_x": None if lx is None else lx.tolist(), "live_convs": lcs})))
        if not case.get("derived") and st == "ok" and "corpus" not in case["tags"]:
            r = rng.random()
            if r < 0.25 and case["n"] > 0:
                sart_cases.extend(sart_history(inv, case, rng))
            elif r < 0.5 and len(cs) >= 2 and case["maxit"] <= 14:
                # EXACT BOUNDARY of the stopping comparison: conv_tol equal to an observed |c_k - c_(k-1)|, one ulp either side
                k = rng.randrange(1, len(cs))
                dlt = abs(cs[k] - cs[k - 1])
                for t in rng.sample([dlt, float(np.nextafter(dlt, np.inf)), float(np.nextafter(dlt, -np.inf))], 2):
                    if t < 0:
                        continue
                    d = dict(case, tol=t, derived=True, tie="trace", forms=dict(case["forms"], tol="SPyFloat"),
                             tags=set(case["tags"]) | {"tol_boundary"})
                    d.pop("impl", None)
                    sart_cases.append(d)

    # ---- least-squares cases -------------------------------------------------------------------
    n_lsq = 48 if quick else 1200
    lsq_cases = [c for c in corpus_cases if c["kind"] in ("nnls", "lstsq", "svd")]
    for i in range(n_lsq):
        lsq_cases.append(gen_lsq_case(rng, rng.choice(["int", "dyadic", "float", "float"]), ["nnls", "lstsq", "nnls", "svd"][i % 4]))
    for case in lsq_cases:
        if "corpus" not in case["tags"]:
            F.assign_forms(rng, case)
            if case["kind"] == "nnls" and rng.random() < 0.3:
                case["solver_kwargs"] = {"maxiter": rng.choice([1000, 5000])}
                case["tags"].add("solver_kwargs")

    def lsq_close(case, r1, r2):
        """two results of the same entry point on the same values (different memory layouts): same objective and
        reported residual up to rounding"""
        kind = case["kind"]
        n = case["n"]
        Lm = np.identity(n) if (kind == "svd" or case.get("L") is None) else case["L"]
        alpha = 0.0 if kind == "svd" else case["alpha"]
        x1 = np.asarray(r1 if kind == "svd" else r1[0], dtype=float)
        x2 = np.asarray(r2 if kind == "svd" else r2[0], dtype=float)
        if x1.shape != x2.shape or not (finite(x1) and finite(x2)):
            return False
        tol = (1e-5 if case.get("single") else 1e-9)
        sc = S.obj_scale(case["W"], case["b"], alpha, Lm, np.maximum(np.abs(x1), np.abs(x2)))
        if abs(S.objective(case["W"], case["b"], alpha, Lm, x1) - S.objective(case["W"], case["b"], alpha, Lm, x2)) > tol * sc:
            return False
        if kind == "nnls":
            return abs(float(r1[1]) ** 2 - float(r2[1]) ** 2) <= tol * sc
        if kind == "lstsq":
            a1, a2 = np.atleast_1d(np.asarray(r1[1], dtype=float)), np.atleast_1d(np.asarray(r2[1], dtype=float))
            return a1.shape == a2.shape and bool(np.all(np.abs(a1 - a2) <= tol * sc))
        return True

    def call_lsq(case, recorder=None, live=None):
        """one call of the real entry point with fresh objects in the case's forms (or the given live objects);
        returns ("ok", result) or ("exception", exception)"""
        a = live if live is not None else F.presented_args(case, case.setdefault("variant", 0))
        kind = case["kind"]
        target = {"nnls": (scipy.optimize, "nnls"), "lstsq": (np.linalg, "lstsq")}.get(kind)
        orig = getattr(*target) if (recorder and target) else None
        if orig is not None:
            setattr(target[0], target[1], recorder)
        style = case.get("call", "mixed")
        via = case.get("via_module")
        try:
            if kind == "svd":
                fn = svd_mod.invert_svd if via else inv.invert_svd
                return "ok", F.call_with_style(fn, "positional" if style != "keywords" else "keywords",
                                               ["w_matrix", "b_vector"], {"w_matrix": a["W"], "b_vector": a["b"]}, 2, {}, {})
            if kind == "nnls":
                fn = nnls_mod.invert_regularised_nnls if via else inv.invert_regularised_nnls
            else:
                fn = lstsq_mod.invert_regularised_lstsq if via else inv.invert_regularised_lstsq
            values = {"w_matrix": a["W"], "b_vector": a["b"], "alpha": a["alpha"], "tikhonov_matrix": a["L"]}
            plain = {"alpha": case["alpha"], "tikhonov_matrix": case["L"]}
            extra = case.get("solver_kwargs") or {}
            if extra:      # keyword arguments that invert_regularised_nnls documents as passed on to scipy.optimize.nnls
                fn = (lambda f: (lambda *p, **k: f(*p, **dict(k, **extra))))(fn)
                if style == "positional":
                    style = "mixed"
            return "ok", F.call_with_style(fn, style, ["w_matrix", "b_vector", "alpha", "tikhonov_matrix"], values, 2,
                                           F.LSQ_DEFAULTS, plain)
        except Exception as ex:     # not swallowed: compared with the policy table / error model, reported with its input
            return "exception", ex
        finally:
            if orig is not None:
                setattr(target[0], target[1], orig)

    for li, case in enumerate(lsq_cases):
        ci = len(sart_cases) + li
        kind, n, m = case["kind"], case["n"], case["m"]
        count("kind", kind)
        count("mode", case["mode"])
        for t in case["tags"]:
            count("tags", t)
        Wn, bn = "W%d" % ci, "b%d" % ci
        defs.append("Definition %s : mat := %s.\nDefinition %s : vec := %s." % (Wn, qmat(case["W"]), bn, qlist(case["b"].tolist())))
        Lopt = "None"
        if kind != "svd" and case["L"] is not None:
            defs.append("Definition L%d : mat := %s." % (ci, qmat(case["L"])))
            Lopt = "(Some L%d)" % ci
        W, b = case["W"], case["b"]
        vmax_zero = not (np.concatenate([b, np.zeros(n)]).max() != 0)
        l_alpha = ("(arg_or (default_alpha dm) %s)" % ("None" if "alpha" in F.omitted_args(case) else "(Some %s)" % qlit(case["alpha"]))
                   if kind != "svd" else "")
        fm = case.get("forms", {})
        # single precision inside the implementation: scipy's pinv works in float32 for float32 / uint8 / bool matrices;
        # NumPy forms alpha * L in float32 for a float32 Tikhonov matrix.  Tolerances are then those of single precision.
        case["single"] = (fm.get("W") in ("F32", "U8", "FBool")) if kind == "svd" else (fm.get("L") == "F32")
        single = "true" if case["single"] else "false"
        if case["single"]:
            count("tags", "single_precision_inside_%s" % kind)
        with warnings.catch_warnings():
            warnings.simplefilter("ignore")
            st, out = call_lsq(case)
        value_error = (st == "exception" and kind == "nnls" and isinstance(out, ValueError))   # the max(b) <= 0 error model
        observed = "Accept" if (st == "ok" or value_error) else F.outcome_of_exception(out)
        exc_text = None if st == "ok" else "%s: %s" % (type(out).__name__, out)
        if kind == "svd":
            fe = "check_svd_forms %s %s %s" % (F.coq_array_form(case, "W"), F.coq_array_form(case, "b"), observed)
        else:
            fL = "None" if case["L"] is None else "(Some %s)" % F.coq_array_form(case, "L")
            fe = "check_lsq_forms %s %s %s %s" % (F.coq_array_form(case, "W"), fL, F.coq_alpha_form(case), observed)
        entries.append((fe, dict(case, tie="forms", exception=exc_text if observed != "Accept" else None)))
        count("tie", "forms")
        count("outcome", "%s:%s" % (kind, observed))
        if observed != "Accept":
            continue
        n_nontrivial += 1
        distinct.add((kind, W.tobytes(), b.tobytes(), case.get("alpha"), None if case.get("L") is None else case["L"].tobytes()))
        if value_error:
            if case.get("expect_live") is not None and case["expect_live"][0] != "exception":
                viol.append(("c11:nnls:history", "nnls on re-used live objects with b zeroed in place returned a result although a "
                             "fresh call raises ValueError", meta_of(case)))
            case["impl"] = {"status": "valueerror", "message": str(out)}
            entries.append(("check_nnls_error %d %s" % (n, bn), dict(case, tie="certificate")))
            count("tie", "certificate")
            continue
        # (a) the wrapper itself, third-party solver replaced by a recorder
        if kind in ("nnls", "lstsq"):
            rec = Recorder(rng, n, kind == "lstsq")
            with warnings.catch_warnings():
                warnings.simplefilter("ignore")
                st_r, out_r = call_lsq(case, recorder=rec)
            if st_r != "ok" or rec.args is None:
                viol.append(("c11:%s:wrapper" % kind, "invert_regularised_%s behaves differently when the solver is replaced by a "
                             "recording stub (%s)" % (kind, out_r), meta_of(case)))
                continue
            xr, rr = out_r
            if kind == "nnls" and (rec.kwargs or {}) != (case.get("solver_kwargs") or {}):
                viol.append(("c11:nnls:kwargs", "invert_regularised_nnls did not pass its keyword arguments on to the solver "
                             "(got %s)" % (rec.kwargs,), meta_of(case)))
                continue
            if not finite(rec.args[0], rec.args[1]):
                viol.append(("c11:%s:nonfinite-system" % kind, "invert_regularised_%s handed a non-finite system to the solver "
                             "although max(b) > 0" % kind, meta_of(case)))
                continue
            if kind == "nnls":
                e = "check_nnls_wrapper %s %d %s %s %s %s %s %s %s %s %s %s" % (
                    single, n, Wn, bn, l_alpha, Lopt, qmat(rec.args[0]), qlist(rec.args[1].tolist()),
                    qlist(rec.x.tolist()), qlit(rec.r), qlist(np.asarray(xr, dtype=float).tolist()), qlit(float(rr)))
            else:
                e = "check_lstsq_wrapper %s %d %s %s %s %s %s %s %s %s" % (
                    single, n, Wn, bn, l_alpha, Lopt, qmat(rec.args[0]), qlist(rec.args[1].tolist()),
                    "(Qeq_bool_list %s %s)" % (qlist(rec.x.tolist()), qlist(np.asarray(xr, dtype=float).tolist())),
                    "(Qeq_bool_list %s %s)" % (qlist([rec.r]), qlist(np.asarray(rr, dtype=float).tolist())))
            entries.append((e, dict(case, tie="wrapper")))
            count("tie", "wrapper")
        # (b) the real output
        if kind == "nnls":
            x, rn = out
            if not finite(x, rn):
                viol.append(("c11:nnls:nonfinite", "invert_regularised_nnls returned a non-finite solution or norm",
                             meta_of(case, {"impl_x": np.asarray(x).tolist(), "impl_rnorm": float(rn)})))
                continue
            if not case["single"]:
                attributable, info = S.nnls_scipy_attributable(case, x, float(rn))
                if attributable:
                    case["scipy_nnls_defect"] = True
                    viol.append(("c11:nnls:scipy-nnls-non-minimiser", "invert_regularised_nnls returned a point that is not the minimiser "
                                 "(or a norm inconsistent with it); scipy.optimize.nnls called directly on the correctly normalised "
                                 "system returns the same point, on the unnormalised system it returns the true minimiser",
                                 meta_of(case, info)))
                    count("tags", "scipy_nnls_non_minimiser")
                    continue
            case["impl"] = {"status": "ok", "x": np.asarray(x, dtype=float).tolist(), "rnorm": float(rn)}
            e = "check_nnls_out %s %d %s %s %s %s %s %s" % (single, n, Wn, bn, l_alpha, Lopt,
                                                         qlist(np.asarray(x, dtype=float).tolist()), qlit(float(rn)))
        elif kind == "lstsq":
            x, res = out
            res = np.atleast_1d(np.asarray(res, dtype=float))
            if not finite(x, res):
                viol.append(("c11:lstsq:nonfinite", "invert_regularised_lstsq returned a non-finite solution or residual",
                             meta_of(case)))
                continue
            case["impl"] = {"status": "ok", "x": np.asarray(x, dtype=float).tolist(), "residuals": res.tolist()}
            if res.size == 0:
                count("tags", "lstsq_no_residual_reported")
            e = "check_lstsq_out %s %d %s %s %s %s %s %s" % (single, n, Wn, bn, l_alpha, Lopt,
                                                          qlist(np.asarray(x, dtype=float).tolist()), qlist(res.tolist()))
        else:
            x = out
            if not finite(x):
                key, text = "c11:svd:nonfinite", "invert_svd returned a non-finite solution"
                if fm.get("W") in ("F32", "U8", "FBool") or fm.get("b") == "F32":
                    with warnings.catch_warnings():
                        warnings.simplefilter("ignore")
                        x64 = svd_mod.invert_svd(W.copy(), b.copy())
                    if finite(x64):
                        key = "c11:svd:single-precision-overflow"
                        text = ("invert_svd returned a non-finite solution for a float32 / uint8 / bool system whose minimiser is "
                                "finite (and is returned for the same values as float64): pinv and the product stay in float32")
                viol.append((key, text, meta_of(case, {"impl_x": np.asarray(x, dtype=float).tolist()})))
                count("tags", "svd_nonfinite_output")
                continue
            if case["single"] and "scaled" in case["tags"]:
                # float32 range: the solution or intermediate products may under/overflow in single precision although every
                # input is representable; such an output is routed to the known finding when the float64 twin is fine
                def ne_ratio(xv):
                    ld = np.longdouble
                    Wl, xl = W.astype(ld), np.asarray(xv, dtype=ld)
                    gq = np.abs(Wl.T @ (Wl @ xl - b.astype(ld))).max(initial=0)
                    sc = np.abs(Wl).sum(axis=0).max(initial=0) * (np.abs(Wl) @ np.abs(xl) + np.abs(b.astype(ld))).max(initial=0)
                    return float(gq / sc) if sc > 0 else 0.0
                with warnings.catch_warnings():
                    warnings.simplefilter("ignore")
                    x64 = svd_mod.invert_svd(W.copy(), b.copy())
                if ne_ratio(x) > 2.0 ** -18 and finite(x64) and ne_ratio(x64) < 2.0 ** -27:
                    viol.append(("c11:svd:single-precision-overflow", "invert_svd returned a point that is not a minimiser even at single "
                                 "precision for a float32 / uint8 / bool system (under/overflow in float32; the same values as float64 "
                                 "are solved correctly)", meta_of(case, {"impl_x": np.asarray(x, dtype=float).tolist()})))
                    count("tags", "svd_float32_range_loss")
                    continue
            case["impl"] = {"status": "ok", "x": np.asarray(x, dtype=float).tolist()}
            e = "check_svd_out %s %s %s %s" % (single, Wn, bn, qlist(np.asarray(x, dtype=float).tolist()))
        entries.append((e, dict(case, tie="certificate")))
        count("tie", "certificate")
        # HISTORY ON LIVE OBJECTS: the same W, b, L objects used for three successive calls; b is set to zero IN PLACE
        # between the first and second call (max(b) > 0 -> 0: the normalisation guard) and restored before the third
        if case.get("expect_live") is not None:
            lst, lout = case["expect_live"]
            ok_same = lst == st and (st != "ok" or lsq_close(case, lout, out))
            if not ok_same:
                viol.append(("c11:%s:history" % kind, "%s on re-used live objects (b changed in place between calls) differs from the "
                             "same call on freshly built objects" % kind, meta_of(case, {"live": str(lout)[:400]})))
        if not case.get("derived") and "corpus" not in case["tags"] and rng.random() < 0.3 and m > 0:
            live = F.presented_args(case, case.setdefault("variant", 0))
            with warnings.catch_warnings():
                warnings.simplefilter("ignore")
                st1, out1 = call_lsq(case, live=live)
                writable = isinstance(live["b"], np.ndarray) and live["b"].flags.writeable
                if writable:
                    keep = np.array(live["b"]).copy()
                    live["b"][...] = 0
                st2, out2 = call_lsq(case, live=live)
                if writable:
                    d = dict(case, b=np.zeros(m), derived=True, tags=set(case["tags"]) | {"history_zero_b"},
                             expect_live=(st2, out2))
                    d.pop("impl", None)
                    lsq_cases.append(d)
                    live["b"][...] = keep
                st3, out3 = call_lsq(case, live=live)
            count("tags", "lsq_history")
            if not (st1 == "ok" and st3 == "ok" and lsq_close(case, out1, out) and lsq_close(case, out3, out)):
                viol.append(("c11:%s:history" % kind, "%s: first / third call on the same live objects (b zeroed in place and restored "
                             "in between) differs from a call on freshly built objects" % kind,
                             meta_of(case, {"first": str(out1)[:300], "third": str(out3)[:300]})))

    ctx.log("implementation runs done: %d entries" % len(entries))
    # ---- write case files and run them in Coq -----------------------------------------------------
    # shards balanced by estimated cost (rows x columns x sweeps), so that the parallel coqc runs end together
    def cost(case):
        if case.get("tie") == "forms":
            return 1
        if case.get("tie") == "stop_exact":
            return 5 + 20 * ((case.get("impl") or {}).get("sweeps") or 0)
        sweeps = ((case.get("impl") or {}).get("sweeps") or 0) if case["kind"] in ("sart", "csart") else 3
        return 1 + case["m"] * case["n"] * (1 + sweeps) * (3 if case["mode"] == "float" else 1) * (3 if "scaled" in case["tags"] else 1)
    n_shards = 16 if quick else max(16, len(entries) // 25)
    order = sorted(range(len(entries)), key=lambda i: -cost(entries[i][1]))
    bins = [[0, []] for _ in range(n_shards)]
    for i in order:
        bmin = min(bins, key=lambda bn: bn[0])
        bmin[0] += cost(entries[i][1])
        bmin[1].append(i)
    shards = [[entries[i] for i in sorted(bn[1])] for bn in bins if bn[1]]
    files = []
    for si, sh in enumerate(shards):
        words = set()
        for e, _ in sh:
            words.update(re.findall(r"\b[WbL]\d+\b", e))
        used = [d for d in defs if any(ln.split()[1] in words for ln in d.split("\n"))]
        txt = ("Require Import Cherab.Common.Qx Cherab.Model.C11_Sart Cherab.Model.C11_Kkt Cherab.Model.C11_Check Cherab.Model.C11_Forms Cherab.Model.C11_Round.\n"
               "Open Scope Q_scope.\nDefinition e1 : Q := %s.\n" % qlit(E1) + "\n".join(used)
               + "\nDefinition results : list Z := [\n  " + ";\n  ".join(e for e, _ in sh) + "].\n"
               "Eval vm_compute in results.\n")
        files.append((ctx.write_gen("cases_%03d.v" % si, txt), sh))
    res = coqc_many([f for f, _ in files], timeout=1500)
    diff_cases, ambiguous = [], 0
    for f, sh in files:
        ok, out = res[f]
        vals = parse_evals(out) if ok else []
        good = ok and len(vals) == 1
        codes = parse_zlist(vals[0]) if good else []
        good = good and len(codes) == len(sh)
        bad = [i for i, c in enumerate(codes) if c == 1]
        ambiguous += sum(1 for c in codes if c == 2)
        ctx.obligation("correspondence %s (%d cases)" % (os.path.basename(f), len(sh)), "correspondence",
                       good and not bad, out if not good else "DIFF at local indices %s" % bad)
        if not good:
            ctx.broken.append("coqc failed on %s: %s" % (f, out[-600:]))
        diff_cases += [sh[i][1] for i in bad]
    ctx.log("correspondence: %d entries in %d files, %d disagree, %d ambiguous" % (len(entries), len(files), len(diff_cases), ambiguous))

    # ---- failing-input search: the property itself on the implementation -------------------------------
    fails = S.search(inv, nnls_mod, lstsq_mod, svd_mod, sart_cases, lsq_cases, rng, quick, seeds=diff_cases)
    n_search = fails.pop("n_checked")
    sf = fails["failures"]
    ctx.obligation("executable property on the implementation (%d checks)" % n_search, "search",
                   not sf and not [v for v in viol if v[0] not in ctx.known], str(sf[:3]))
    shown = {}
    for key, text, rep in viol:
        shown[key] = shown.get(key, 0) + 1
        if shown[key] <= 2 and len(shown) <= 6:
            ctx.violation(key, text, rep, found=True)
    for f in sf[:6]:
        ctx.violation("c11:%s:%s" % (f["kind"], f["claim"][:48]), f["claim"], f, found=True)
    rejected = [c for c in diff_cases if c.get("tie") == "forms" and c.get("exception")]
    for case in rejected[:4]:
        ctx.violation("c11:%s:rejects-accepted-input" % case["kind"],
                      "%s raised %s for an input whose type / layout it is expected to accept (forms %s)"
                      % (case["kind"], case["exception"], case.get("forms")), meta_of(case), found=True)
    if diff_cases and not sf and not [v for v in viol if v[0] not in ctx.known] and not rejected:
        for case in diff_cases[:3]:
            ctx.violation("c11-diff:%s:%s" % (case["kind"], case.get("tie")),
                          "model and implementation disagree for a %s case (%s tie); the executable property found no failing input"
                          % (case["kind"], case.get("tie")), {"case": meta_of(case), "correspondence": "coq/Gen/C11/cases_*.v"},
                          found=False)

    ctx.coverage.update({
        "evaluations": len(entries),
        "distinct_nontrivial": len(distinct),
        "rule": "one evaluation = one Coq-evaluated comparison: a whole SART run (model run from the initial guess), a SART trace "
                "(every sweep of the model from the implementation's previous iterate + convergence values + stopping decisions), "
                "a wrapper comparison (system handed to the solver / result passed back) or an output certificate (eps-KKT, "
                "eps-normal equations, residual norm). Non-trivial: a SART case in which the solution moved, the error case, or a "
                "start at an exact solution; every least-squares case. Distinct = distinct (kind, W, b, initial guess / alpha, L, "
                "limits).",
        "distribution": dist,
        "nontrivial_cases": n_nontrivial,
        "ambiguous_stop_decisions": ambiguous,
        "search_checks": n_search,
        "compared_in_coq": {
            "exact (no tolerance)": [
                "stopping rule: replayed on the implementation's own convergence values with the binary64 rounding model round53 "
                "for the one subtraction; the model's differences must equal the machine's bit for bit (check_stop_exact)",
                "number of sweeps, error kind (ZeroDivisionError / ValueError / none), accepted-or-rejected and exception kind per "
                "argument form (per case and as a complete probed table, policy_tie.v)",
                "parameter order and default values parsed from the source (defaults_tie.v); arguments left out of a call are "
                "evaluated with the model's default table",
                "what the wrappers pass back from the solver stub (solution exactly, norm x vmax within 2^-50)"],
            "under tolerance": ["every iterate of every sweep, every convergence value, the system handed to the solver, the "
                                "certificates of the real outputs (see tolerance)"]},
        "tolerance": {"sart_sweep": "2^-40 x magnitude of the terms of the cell update (exact rational model vs double)",
                      "sart_whole_run": "2^-30 x max|x|; convergence values 2^-30 x (1+|c|)",
                      "stop_decision_margin": "2^-30 x (1 + |c_k| + |c_(k-1)|) on | |c_k - c_(k-1)| - tol | (ambiguous cases are decided exactly by replaying the rule on the implementation's own convergence values)",
                      "wrapper_system": "2^-50 relative per entry (one division / multiplication in double)",
                      "certificates": "eps = 2^-30 x rounding-error scale (max_j sum_i |C_ij| x max_i (|C||x| + |d|)_i for the gradient, "
                                      "|(|C||x| + |d|)|^2 for the objective); invert_svd: 2^-26 (explicit pseudo-inverse: eps x cond(W), "
                                      "generated cond(W) <= ~1e5)"},
        "known_finding_2": "invert_regularised_nnls can return a non-minimiser with an inconsistent norm because scipy.optimize.nnls (1.17.1) "
                           "does so for the normalised system the wrapper hands over (W=[[0,0,1,0,0,1,0,1,0]], b=[27], alpha=1: x[1]=0.105 "
                           "instead of 0; key c11:nnls:scipy-nnls-non-minimiser, replayed from corpus/C11 on every run). An output is routed "
                           "to this key only when scipy called directly on the independently built correct system reproduces it; any other "
                           "non-minimiser remains a violation",
        "known_finding": "float32 inputs are inside the quantifier (any geometry matrix the functions accept). invert_svd never promotes "
                         "its input: a float32-representable system whose solution / intermediate products leave the float32 range "
                         "returns nan/inf or a non-minimiser (key c11:svd:single-precision-overflow, replayed from corpus/C11 on every "
                         "run and generated among the scaled cases); within the float32 range such inputs are certified at single precision",
        "partial": ["float32 (for invert_svd also uint8 / bool) inputs are processed in single precision by the implementation: "
                    "their outputs are certified at single precision only",
                    "NNLS / LSQ / SVD: the third-party solvers are not modelled; each output is certified (validation of outputs) "
                    "and the Coq theorem turns the certificate into eps-optimality against every competitor",
                    "invert_svd: only the normal equations of |Wx-b|^2 are certified (not the minimum-norm choice)",
                    "floating point: the SART theorems are about exact rational arithmetic; the implementation is tied to the model "
                    "sweep by sweep under the stated tolerance"],
    })
    samples = [meta_of(c) for c in (sart_cases[:1] + sart_cases[n_run:n_run + 1] + lsq_cases[:1])]
    ctx.coverage["samples"] = samples
    ctx.grep_gate()
