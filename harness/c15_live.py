"""C15 search, second part: ONE live group per class driven through long histories (valid value ->
value a member refuses -> valid value, same value again, observe again and again, member list
re-assigned), second-order entry points (constructor observers=, connect_pipelines, iteration, the
member-list getters), unusual key / argument forms, repeated entries, boundary indices.
Every claim checked is a claim of the property (or consistency of an alternative route with it)."""
import inspect

import numpy as np


def search_live(impl, rng, sizes, fail_cb):
    import c15 as H
    DOM, RULES, NO_SCALAR, UNIQUE = H.DOM, H.RULES, H.NO_SCALAR, H.UNIQUE
    build_group, class_attrs, usable_types = H.build_group, H.class_attrs, H.usable_types
    full_snapshot, snap_same, tr_member_attr = H.full_snapshot, H.snap_same, H.tr_member_attr
    checks = 0
    for cname, cls in impl.classes:
        bolo = cname == "BolometerCamera"
        list_attr = "foil_detectors" if bolo else "observers"

        def fail(where, claim, **kw):
            fail_cb(cname, where, claim, **kw)
        props = [(a, p) for a, p in class_attrs(cls) if a in DOM]
        attrs = [a for a, _ in props if not (cname.startswith("Spectroscopic") and a == "pipelines")]
        for n in sizes:
            g, ms = build_group(impl, rng, cname, n)
            checks += 1
            # ---- boundaries of indexing, unusual key forms, iteration -------------------------------
            for i in (n, -n - 1, n + 100):
                try:
                    g[i]
                    fail("__getitem__", "index-range: an index outside the group did not raise IndexError", n=n, i=i)
                except IndexError:
                    pass
                except Exception as ex:
                    fail("__getitem__", "index-range: an index outside the group raised something else than IndexError",
                         n=n, i=i, error=repr(ex))
            if n >= 2:
                try:
                    if g[True] is not ms[1] or g[False] is not ms[0]:
                        fail("__getitem__", "index-bool: group[True] / group[False] are not members 1 / 0", n=n)
                except Exception as ex:
                    fail("__getitem__", "index-bool: a bool index raised", n=n, error=repr(ex))
            if not bolo:   # BolometerCamera refuses numpy integers (isinstance(item, int)); recorded in the model as KIdx
                for i in range(-n, n):
                    try:
                        if g[np.int64(i)] is not ms[i]:
                            fail("__getitem__", "index-numpy: group[numpy integer] is not that member", n=n, i=i)
                    except Exception as ex:
                        fail("__getitem__", "index-numpy: a numpy integer index raised", n=n, i=i, error=repr(ex))
            try:
                it = list(g)
                if len(it) != n or any(x is not y for x, y in zip(it, ms)) or len(g) != n:
                    fail("__iter__", "iterate: iterating the group does not give the members in order", n=n)
            except Exception as ex:
                fail("__iter__", "iterate: iterating the group raised", n=n, error=repr(ex))
            for la in [list_attr] + (["sight_lines"] if hasattr(cls, "sight_lines") else []):
                got = getattr(g, la)
                if len(got) != n or any(x is not y for x, y in zip(got, ms)):
                    fail(la, "members-read: the member list read back is not the members in order", n=n)
                if isinstance(got, list):
                    got.append(None)
                    if len(g) != n or len(getattr(g, la)) != n:
                        fail(la, "members-copy: changing the returned list changed the group", n=n)
            # ---- construction route ------------------------------------------------------------------
            if not bolo:
                for conv in (list, tuple):
                    fresh = [impl.make_member(rng.choice(usable_types(impl, cname)), UNIQUE[i]) for i in range(n)]
                    try:
                        g2 = cls(name="g2", observers=conv(fresh))
                        now = impl.members(cname, g2)
                        if len(now) != n or any(x is not y for x, y in zip(now, fresh)) or any(m.parent is not g2 for m in fresh):
                            fail("__init__", "construct: observers= given to the constructor are not the members (order, parent)", n=n)
                    except Exception as ex:
                        fail("__init__", "construct: constructing with observers= raised", n=n, error=repr(ex))
            # ---- repeated entries ---------------------------------------------------------------------
            if n >= 1:
                g3, ms3 = build_group(impl, rng, cname, n)
                rep = [ms3[0]] + list(ms3)
                try:
                    setattr(g3, list_attr, rep)
                    now = impl.members(cname, g3)
                    if len(now) != n + 1 or any(x is not y for x, y in zip(now, rep)) or any(m.parent is not g3 for m in now):
                        fail(list_attr + "=", "repeat: a member list naming one observer twice is not kept as given", n=n)
                    elif g3[0] is not ms3[0] or g3[1] is not ms3[0]:
                        fail("__getitem__", "repeat: index lookup in a group holding one observer twice", n=n)
                    else:
                        for a in attrs[:3]:
                            got = [impl.norm_read(a, x) for x in getattr(g3, a)]
                            want = [impl.read(m, tr_member_attr(a)) for m in now]
                            if len(got) != len(want) or not all(impl.same(x, y) for x, y in zip(got, want)):
                                fail(a, "repeat: reading does not return the members' values in order (one observer twice)", n=n)
                except Exception as ex:
                    fail(list_attr + "=", "repeat: a member list naming one observer twice raised", n=n, error=repr(ex))
            # ---- connect_pipelines (alternative route to the pipelines attribute) ------------------------
            if not bolo:
                g4, ms4 = build_group(impl, rng, cname, n)
                P = impl.pipeline_classes
                try:
                    if cname.startswith("Spectroscopic"):
                        g4.connect_pipelines([(P[3], "p0", None), (P[1], "p1", None)])
                        want = [P[3], P[1]]
                    else:
                        g4.connect_pipelines([P[0], P[2]], [{"name": "p0"}, {}])
                        want = [P[0], P[2]]
                    pls = g4.pipelines
                    flat = [p for pl in pls for p in pl]
                    if len(pls) != n or any([type(p) for p in pl] != want for pl in pls) or len(set(map(id, flat))) != len(flat):
                        fail("connect_pipelines", "pipelines: every member does not get its own instances of the given classes", n=n)
                    elif any(tuple(m.pipelines) != tuple(pl) for m, pl in zip(ms4, pls)):
                        fail("connect_pipelines", "pipelines: group.pipelines differs from the members' pipelines", n=n)
                    if not cname.startswith("Spectroscopic"):
                        try:
                            g4.connect_pipelines([P[0], P[2]], [{}])
                            fail("connect_pipelines", "pipelines: keyword list of another length did not raise ValueError", n=n)
                        except ValueError:
                            pass
                except Exception as ex:
                    fail("connect_pipelines", "pipelines: connect_pipelines raised", n=n, error=repr(ex))
            # ---- unsized array: refused, nothing changed -------------------------------------------------
            for a, p in props:
                if impl.numeric(a) and p.fset is not None and "ndarray" in inspect.getsource(p.fset):
                    before = full_snapshot(impl, cname, g, attrs)
                    checks += 1
                    try:
                        setattr(g, a, np.array(impl.coerce(a, impl.rand_value(rng, a))))
                        fail(a, "unsized: a 0-d array was accepted although it is an ndarray without length", n=n)
                    except (TypeError, ValueError):
                        if not snap_same(impl, before, full_snapshot(impl, cname, g, attrs)):
                            fail(a, "unsized: a refused 0-d array changed the group", n=n)
        # ---- one live group, long history ------------------------------------------------------------------
        for n in [x for x in sizes if x in (1, 3)] or list(sizes[-1:]):
            checks += live_history(H, impl, rng, cname, n, attrs, list_attr, fail)
    return checks


def live_history(H, impl, rng, cname, n, attrs, list_attr, fail):
    DOM, RULES, NO_SCALAR = H.DOM, H.RULES, H.NO_SCALAR
    tr_member_attr = H.tr_member_attr
    g, ms0 = H.build_group(impl, rng, cname, n)
    st = {"ms": ms0, "checks": 0}
    shadow = {a: [impl.read(m, tr_member_attr(a)) for m in ms0] for a in attrs}

    def verify(step):
        ms = st["ms"]
        for b in attrs:
            got = [impl.norm_read(b, x) for x in getattr(g, b)]
            direct = [impl.read(m, tr_member_attr(b)) for m in ms]
            if len(got) != len(ms) or not all(impl.same(x, y) for x, y in zip(got, direct)):
                fail(b, "live-read: reading does not return the members' current values in order", n=n, after=step)
                return False
            if not all(impl.same(x, y) for x, y in zip(direct, shadow[b])):
                fail(b, "live-state: a member's value is not the one the history gives it", n=n, after=step,
                     got=direct, want=shadow[b])
                return False
        now = impl.members(cname, g)
        if len(now) != len(ms) or any(x is not y for x, y in zip(now, ms)) or any(m.parent is not g for m in ms):
            fail("members", "live-members: membership / order / parents changed by an attribute operation", n=n, after=step)
            return False
        return True

    def assign(a, v, step):
        """assign through the group; the expected state follows raysect's rules member by member"""
        ms = st["ms"]
        st["checks"] += 1
        refusal = impl.first_refusal(a, v, ms) if impl.numeric(a) else None
        seq = isinstance(v, (list, tuple, np.ndarray)) and not (a == "targets" and not all(isinstance(x, (list, tuple)) for x in v))
        upto = refusal[0] if refusal else len(ms)
        try:
            setattr(g, a, v)
            if refusal:
                fail(a, "live-refusal: a value a member must refuse was accepted", n=n, after=step, value=v)
                return False
        except Exception as ex:
            if not refusal:
                fail(a, "live-assign: a valid assignment raised on a group with history", n=n, after=step, value=v, error=repr(ex))
                return False
        for i in range(upto):
            x = v[i] if seq else v
            shadow[a][i] = impl.coerce(a, x) if impl.numeric(a) else x
        return verify(step)

    ok = verify("construction")
    for rnd in range(2):
        if not ok:
            break
        order = list(attrs)
        rng.shuffle(order)
        for a in order:
            if a not in NO_SCALAR:
                ok = ok and assign(a, impl.rand_value(rng, a), "%s=scalar (round %d)" % (a, rnd))
            if a in RULES:
                # a value crossing the member's guard: positive -> zero / negative -> positive, same group
                bad = rng.choice([0, -1]) if DOM[a][0] == "int" else rng.choice([-1.0, -0.5] + ([0.0, -0.0] if RULES[a](0.0, st["ms"][0]) else []))
                ok = ok and assign(a, bad, "%s=refused scalar (round %d)" % (a, rnd))
                if n >= 2:
                    vals = [impl.rand_value(rng, a) for _ in range(n)]
                    vals[n // 2] = bad
                    ok = ok and assign(a, vals, "%s=list with a refused element (round %d)" % (a, rnd))
            vals = [impl.rand_value(rng, a) for _ in range(n)]
            kinds = ["list", "tuple"] + (["array"] if impl.numeric(a) and a != "targetted_path_prob" else [])
            kind = rng.choice(kinds)
            seqv = impl.to_kind(kind, vals, a, rng) if impl.numeric(a) else (tuple(vals) if kind == "tuple" else list(vals))
            ok = ok and assign(a, seqv, "%s=%s (round %d)" % (a, kind, rnd))
            ok = ok and assign(a, seqv, "%s=same %s again (round %d)" % (a, kind, rnd))
            if ok and n and impl.numeric(a):
                # change one member behind the group's back, read, then give the group the SAME sequence again
                m0, w = st["ms"][0], impl.rand_value(rng, a)
                if not impl.rejects(a, w, m0):
                    setattr(m0, tr_member_attr(a), w)
                    shadow[a][0] = impl.coerce(a, w)
                    ok = verify("%s changed on member 0 directly (round %d)" % (a, rnd))
                    ok = ok and assign(a, seqv, "%s=same %s after a direct change (round %d)" % (a, kind, rnd))
            if not ok:
                break
        if not ok:
            break
        ms = st["ms"]
        for m in ms:
            m.verif_obs = 0
        del impl.trace[:]
        for _ in range(rnd + 2):
            g.observe()
        if [getattr(m, "verif_obs", 0) for m in ms] != [rnd + 2] * n or len(impl.trace) != (rnd + 2) * n:
            fail("observe", "live-observe: repeated observe() does not observe every member once per call", n=n, round=rnd)
        perm = list(ms)
        rng.shuffle(perm)
        for _ in range(2):
            try:
                setattr(g, list_attr, list(perm))
            except Exception as ex:
                fail(list_attr + "=", "live-members: re-assigning the member list raised", n=n, error=repr(ex))
                ok = False
                break
        if ok:
            idx = [[i for i, x in enumerate(ms) if x is m][0] for m in perm]
            for a in attrs:
                shadow[a] = [shadow[a][i] for i in idx]
            st["ms"] = perm
            ok = verify("member list re-assigned twice (round %d)" % rnd)
    if ok:
        # a freshly built group given the same final configuration reads the same
        g2, _ = H.build_group(impl, rng, cname, n)
        try:
            first = [a for a in ("max_wavelength", "min_wavelength", "spectral_bins") if a in attrs]
            for a in first + [b for b in attrs if b not in first]:
                if a != "names":
                    setattr(g2, a, list(shadow[a]))
            for a in attrs:
                if a == "names":
                    continue
                x1 = [impl.norm_read(a, x) for x in getattr(g, a)]
                x2 = [impl.norm_read(a, x) for x in getattr(g2, a)]
                if len(x1) != len(x2) or not all(impl.same(p, q) for p, q in zip(x1, x2)):
                    fail(a, "live-fresh: a group with history reads differently from a fresh group given the same values", n=n)
                    break
        except Exception as ex:
            fail("fresh", "live-fresh: configuring a fresh group with the final values raised", n=n, error=repr(ex))
    return st["checks"]
