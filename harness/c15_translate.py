"""C15 translator: the property objects of the real group classes -> descriptor table (Coq text).

For every group class the *running* class object is inspected (so Python's own binding rules decide
under which name a property object ends up and which getter / setter it carries); the source of
each getter / setter is parsed with `ast` and matched against the few shapes of the descriptor DSL
of coq/Model/C15_Groups.v.  The matcher is fail-closed: the parameters (sequence kinds, member
attributes, guard class) are read off loosely, the canonical body for those parameters is
regenerated from a template, and the two ASTs (alpha-renamed, raise-arguments and docstrings
stripped) must be identical; anything else becomes `Custom`, which is never well formed.
"""
import ast
import builtins
import inspect
import textwrap

KIND_ORDER = ["list", "tuple", "ndarray"]
KIND_COQ = {"list": "KList", "tuple": "KTuple", "ndarray": "KArr"}
GUARDS = {"RenderEngine": "tag_engine"}

# property objects that are not group-level settings nor the member list
IGNORE = {("BolometerCamera", "slits"): "list of slits collected from the foils; not a member / broadcast attribute"}

_KEEP = {"Primitive", "self", "isinstance", "len", "zip", "all", "list", "tuple", "ndarray", "ValueError", "TypeError",
         "BolometerFoil", "BolometerIRVB"} | set(GUARDS)

T_BROADCAST = """
def f(self, value):
    if isinstance(value, ({K})):
        if len(value) == len(self._observers):
            for m, v in zip(self._observers, value):
                m.{A} = v
        else:
            raise ValueError()
    else:
        for m in self._observers:
            m.{B} = value
"""
T_TYPED = """
def f(self, value):
    if isinstance(value, ({K})):
        if len(value) == len(self._observers):
            for m, v in zip(self._observers, value):
                if isinstance(v, {G}):
                    m.{A} = v
                else:
                    raise TypeError()
        else:
            raise ValueError()
    else:
        if not isinstance(value, {G}):
            raise TypeError()
        for m in self._observers:
            m.{B} = value
"""
T_NESTED = """
def f(self, value):
    if all(isinstance(v, (list, tuple)) for v in value):
        if len(value) == len(self._observers):
            for m, v in zip(self._observers, value):
                m.{A} = v
        else:
            raise ValueError()
    else:
        for m in self._observers:
            m.{B} = value
"""
T_SEQONLY = """
def f(self, value):
    if isinstance(value, ({K})):
        if len(value) == len(self._observers):
            for m, v in zip(self._observers, value):
                m.{A} = v
        else:
            raise ValueError()
    else:
        raise TypeError()
"""
T_LENONLY = """
def f(self, value):
    if len(value) == len(self._observers):
        for m, v in zip(self._observers, value):
            m.{A} = v
    else:
        raise ValueError()
"""
T_GETTER = """
def f(self):
    return [m.{A} for m in self._observers]
"""
# the member-list properties (exact bodies of the unchanged tree)
T_MEMBERS_GET = ["""
def f(self):
    return self._observers
""", """
def f(self):
    return self._foil_detectors.copy()
"""]
T_MEMBERS_SET = ["""
def f(self, value):
    if not isinstance(value, (list, tuple)):
        raise TypeError()
    if not all(isinstance(val, self._OBSERVER_TYPE) for val in value):
        raise ValueError()
    for observer in value:
        observer.parent = self
    self._observers = tuple(value)
""", """
def f(self, value):
    self.observers = value
""", """
def f(self, value):
    if not isinstance(value, list):
        raise TypeError()
    value = value.copy()
    for foil_detector in value:
        if not isinstance(foil_detector, (BolometerFoil, BolometerIRVB)):
            raise TypeError()
        if not foil_detector.slit in self._slits:
            self._slits.append(foil_detector.slit)
        foil_detector.parent = self
    self._foil_detectors = value
"""]


class _Norm(ast.NodeTransformer):
    """alpha-rename local names in order of first appearance; strip raise arguments"""

    def __init__(self):
        self.map = {}

    def _n(self, name):
        if name in _KEEP or hasattr(builtins, name):     # classes, exceptions, builtins keep their names
            return name
        if name not in self.map:
            self.map[name] = "x%d" % len(self.map)
        return self.map[name]

    def visit_Name(self, node):
        return ast.copy_location(ast.Name(id=self._n(node.id), ctx=node.ctx), node)

    def visit_arg(self, node):
        return ast.copy_location(ast.arg(arg=self._n(node.arg), annotation=None), node)

    def visit_Raise(self, node):
        exc = node.exc
        if isinstance(exc, ast.Call) and isinstance(exc.func, ast.Name):
            exc = ast.Name(id=exc.func.id, ctx=ast.Load())
        return ast.copy_location(ast.Raise(exc=exc, cause=None), node)


def _fn(src):
    tree = ast.parse(textwrap.dedent(src))
    fn = tree.body[0]
    assert isinstance(fn, ast.FunctionDef)
    return fn


def _norm_dump(fn):
    fn = ast.parse(ast.unparse(fn)).body[0]          # private copy
    body = list(fn.body)
    if body and isinstance(body[0], ast.Expr) and isinstance(body[0].value, ast.Constant) \
            and isinstance(body[0].value.value, str):
        body = body[1:]                                  # docstring
    fn.body = body or [ast.Pass()]
    fn.decorator_list = []
    fn.name = "f"
    fn.returns = None
    n = _Norm()
    n.visit(fn.args)
    fn = n.visit(fn)
    return ast.dump(fn, annotate_fields=False, include_attributes=False)


def _member_assign_attrs(fn):
    """attributes assigned on a local (non-self) name, in source order"""
    out = []

    class V(ast.NodeVisitor):
        def visit_Assign(self, node):
            for t in node.targets:
                if isinstance(t, ast.Attribute) and isinstance(t.value, ast.Name) and t.value.id != "self":
                    out.append(t.attr)
            self.generic_visit(node)
    V().visit(fn)
    return out


def _isinstance_tuples(fn):
    out = []

    class V(ast.NodeVisitor):
        def visit_Call(self, node):
            if isinstance(node.func, ast.Name) and node.func.id == "isinstance" and len(node.args) == 2:
                out.append(node.args[1])
            self.generic_visit(node)
    V().visit(fn)
    return out


def _source_fn(func):
    return _fn(inspect.getsource(func))


def describe_getter(fget):
    fn = _source_fn(fget)
    nd = _norm_dump(fn)
    for t in T_MEMBERS_GET:
        if nd == _norm_dump(_fn(t)):
            return ("members", None)
    # return [m.A for m in self._observers]
    attr = None
    for node in ast.walk(fn):
        if isinstance(node, ast.ListComp) and isinstance(node.elt, ast.Attribute):
            attr = node.elt.attr
            break
    if attr is not None and nd == _norm_dump(_fn(T_GETTER.format(A=attr))):
        return ("attr", attr)
    return ("custom", None)


def describe_setter(fset):
    """-> (decorator target, shape text, zip attr, bcast attr)"""
    fn = _source_fn(fset)
    target = "?"
    for dec in fn.decorator_list:
        if isinstance(dec, ast.Attribute) and dec.attr == "setter" and isinstance(dec.value, ast.Name):
            target = dec.value.id
    nd = _norm_dump(fn)
    for t in T_MEMBERS_SET:
        if nd == _norm_dump(_fn(t)):
            return target, "Members", None, None
    attrs = _member_assign_attrs(fn)
    tuples = _isinstance_tuples(fn)
    kinds = None
    guard = None
    for t in tuples:
        if isinstance(t, ast.Tuple) and all(isinstance(e, ast.Name) for e in t.elts) and kinds is None:
            kinds = [e.id for e in t.elts]
        elif isinstance(t, ast.Name) and t.id in GUARDS:
            guard = t.id
    A = attrs[0] if attrs else None
    B = attrs[1] if len(attrs) > 1 else A
    if A is None:
        return target, "Custom", None, None
    if kinds is not None and all(k in KIND_ORDER for k in kinds) and len(set(kinds)) == len(kinds):
        K = ", ".join(kinds) + ("," if len(kinds) == 1 else "")
        ks = "[" + "; ".join(KIND_COQ[k] for k in KIND_ORDER if k in kinds) + "]"
        if nd == _norm_dump(_fn(T_BROADCAST.format(K=K, A=A, B=B))):
            return target, "(Broadcast %s)" % ks, A, B
        if guard and nd == _norm_dump(_fn(T_TYPED.format(K=K, A=A, B=B, G=guard))):
            return target, "(TypedBroadcast %s %s)" % (ks, GUARDS[guard]), A, B
        if nd == _norm_dump(_fn(T_SEQONLY.format(K=K, A=A))):
            return target, "(SeqOnly %s)" % ks, A, A
        if nd == _norm_dump(_fn(T_NESTED.format(A=A, B=B))):
            return target, "NestedSeq", A, B
    if nd == _norm_dump(_fn(T_LENONLY.format(A=A))):
        return target, "LenOnly", A, A
    return target, "Custom", A, B


def extract(classes):
    """classes: [(name, class object)] -> [(class name, [descr dict])], in sorted attribute order"""
    out = []
    for cname, cls in classes:
        rows = []
        for name in sorted(dir(cls)):
            try:
                attr = inspect.getattr_static(cls, name)
            except AttributeError:
                continue
            if not isinstance(attr, property):
                continue
            if (cname, name) in IGNORE:
                continue
            gk, gattr = describe_getter(attr.fget)
            row = {"class": cname, "name": name, "setter_def": None, "settarget": name, "get": gattr or "?",
                   "zip": "?", "bcast": "?", "shape": "Custom",
                   "where": "%s:%d" % (inspect.getsourcefile(attr.fget).split("/cherab/", 1)[-1],
                                       attr.fget.__code__.co_firstlineno)}
            if attr.fset is None:
                row["shape"] = "ReadOnly"
                row["zip"] = row["bcast"] = row["get"]
            else:
                target, shape, A, B = describe_setter(attr.fset)
                row.update({"setter_def": attr.fset.__name__, "settarget": target, "shape": shape,
                            "zip": A or "?", "bcast": B or "?"})
                if shape == "Members":
                    if gk != "members":
                        row["shape"] = "Custom"
                    row["get"] = row["zip"] = row["bcast"] = name
                elif gk != "attr":
                    row["shape"] = "Custom"
            rows.append(row)
        out.append((cname, rows))
    return out


def coq_string(s):
    return '"' + s.replace('"', '""') + '"'


def to_coq(table):
    parts = []
    for cname, rows in table:
        ds = []
        for r in rows:
            ds.append("{| d_name := %s; d_settarget := %s; d_get := %s; d_zip := %s; d_bcast := %s; d_shape := %s |}"
                      % (coq_string(r["name"]), coq_string(r["settarget"]), coq_string(r["get"]),
                         coq_string(r["zip"]), coq_string(r["bcast"]), r["shape"]))
        parts.append("  (%s, [\n    %s])" % (coq_string(cname), ";\n    ".join(ds)))
    return "Definition extracted : extracted_table := [\n" + ";\n".join(parts) + "].\n"


# method bodies of the unchanged tree (frozen copies; generated once from /repo at c11e2e2 with inspect.getsource,
# docstrings removed).  A method of a group class must match one of them exactly (modulo local names, messages).
METHOD_TEMPLATES = [
    ('MInit0D', '''
def f(self, parent=None, transform=None, name=None, observers=None):
    super().__init__(parent=parent, transform=transform, name=name)
    self._observers = tuple()
    if observers is not None:
        for observer in observers:
            self.add_observer(observer)
'''),
    ('MInitSpectroscopic', '''
def f(self, parent=None, transform=None, name=None, observers=None):
    super().__init__(parent=parent, transform=transform, name=name, observers=observers)
'''),
    ('MInitBolometer', '''
def f(self, camera_geometry=None, parent=None, transform=None, name=''):
    super().__init__(parent=parent, transform=transform, name=name)
    self._foil_detectors = []
    self._slits = []
    if camera_geometry is not None:
        if not isinstance(camera_geometry, Primitive):
            raise TypeError('camera_geometry must be a primitive')
        camera_geometry.parent = self
    self._camera_geometry = camera_geometry
'''),
    ('MGetitem0D', '''
def f(self, item):
    try:
        selected = self._observers[item]
    except IndexError:
        raise IndexError('observer number {} not available in this {} with only {} observers.'.format(item, self.__class__.__name__, len(self._observers)))
    except TypeError:
        if isinstance(item, str):
            observers = [observer for observer in self._observers if observer.name == item]
            if len(observers) == 1:
                return observers[0]
            if len(observers) == 0:
                raise ValueError("observer '{}' was not found in this {}.".format(item, self.__class__.__name__))
            raise ValueError('Found {} observers with name {} in this {}.'.format(len(observers), item, self.__class__.__name__))
        else:
            raise TypeError('{} key must be of type int, slice or str.'.format(self.__class__.__name__))
    return selected
'''),
    ('MGetitemBolometer', '''
def f(self, item):
    if isinstance(item, (int, slice)):
        try:
            return self._foil_detectors[item]
        except IndexError:
            raise IndexError('Bolometer number {} not available in this BolometerCamera.'.format(item))
    elif isinstance(item, str):
        for detector in self._foil_detectors:
            if detector.name == item:
                return detector
        raise ValueError("Bolometer '{}' was not found in this BolometerCamera.".format(item))
    else:
        raise TypeError('BolometerCamera key must be of type int, slice or str.')
'''),
    ('MLen0D', '''
def f(self):
    return len(self._observers)
'''),
    ('MLenBolometer', '''
def f(self):
    return len(self._foil_detectors)
'''),
    ('MIterBolometer', '''
def f(self):
    for detector in self._foil_detectors:
        yield detector
'''),
    ('MAdd0D', '''
def f(self, observer):
    if not isinstance(observer, self._OBSERVER_TYPE):
        raise ValueError('Can only add {} objects'.format(self._OBSERVER_TYPE))
    observer.parent = self
    self._observers = self._observers + (observer,)
'''),
    ('MAddAlias', '''
def f(self, sight_line):
    self.add_observer(sight_line)
'''),
    ('MAddBolometer', '''
def f(self, foil_detector):
    if not isinstance(foil_detector, (BolometerFoil, BolometerIRVB)):
        raise TypeError('The foil_detector argument must be of type BolometerFoil or BolometerIRVB.')
    if not foil_detector.slit in self._slits:
        self._slits.append(foil_detector.slit)
    foil_detector.parent = self
    self._foil_detectors.append(foil_detector)
'''),
    ('MObserve0D', '''
def f(self):
    for observer in self._observers:
        observer.observe()
'''),
    ('MObserveBolometer', '''
def f(self):
    observations = []
    for foil_detector in self._foil_detectors:
        foil_detector.observe()
        observations.append(foil_detector.pipelines[0].value.mean)
    return observations
'''),
]

METHODS = ["__init__", "__getitem__", "__len__", "__iter__", "add_observer", "add_sight_line", "add_foil_detector", "observe"]


def extract_methods(classes):
    """[(class name, [(method name, shape)])]: for each member-related method the class resolves to (through
    its MRO), the template its body is identical to, 'MAbsent' when the class has no such Python method,
    'MCustom' when the body matches no template (fail closed)."""
    dumps = [(name, _norm_dump(_fn(src))) for name, src in METHOD_TEMPLATES]
    out = []
    for cname, cls in classes:
        rows = []
        for m in METHODS:
            try:
                f = inspect.getattr_static(cls, m)
            except AttributeError:
                f = None
            if not inspect.isfunction(f):
                rows.append((m, "MAbsent"))
                continue
            nd = _norm_dump(_source_fn(f))
            shape = [name for name, d in dumps if d == nd]
            rows.append((m, shape[0] if shape else "MCustom"))
        out.append((cname, rows))
    return out


def methods_to_coq(table):
    return "Definition extracted_methods : list (string * list (string * mshape)) := [\n" + ";\n".join(
        "  (%s, [%s])" % (coq_string(c), "; ".join("(%s, %s)" % (coq_string(m), sh) for m, sh in rows))
        for c, rows in table) + "].\n"
