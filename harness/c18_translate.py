"""C18 translator: the policy tables of the four laser profile classes, read from the CURRENT source of
cherab/core/model/laser/profile.pyx (fail closed: any statement of a setter or of __init__ that is not
one of the recognised shapes aborts the translation).

Output: coq/Gen/C18/Policy.v with
  gen_policy : list (pkind * fld * (bool * act))   which property exists, whether its setter starts with the
                                                   guard `if value <= 0: raise ValueError`, what it does afterwards
  gen_script : pkind -> list itok                  __init__ statement by statement
and the tie lemma  policy_ok : policy_agrees = true  (vm_compute) which the kernel checks against the tables the
model's step / construct functions use (Model/C18_Laser.v: has_field, guarded, action, init_script).
Also returns the constructor signatures (parameter order and defaults) used by the harness to build objects
positionally / with defaults.
"""
import os
import re
from fractions import Fraction

ATTR2FLD = {"energy_density": "Fed", "pulse_energy": "Fpe", "pulse_length": "Fpl", "stddev_x": "Fsx", "stddev_y": "Fsy",
            "stddev_z": "Fsz", "mean_z": "Fmz", "waist_z": "Fwz", "stddev_waist": "Fsw", "laser_wavelength": "Fwl",
            "laser_radius": "Frad", "laser_length": "Flen"}
CLASS2KIND = {"UniformEnergyDensity": "KUniform", "ConstantBivariateGaussian": "KBiv", "TrivariateGaussian": "KTri",
              "GaussianBeamAxisymmetric": "KBeam"}
FIELDS = ["Fed", "Fpe", "Fpl", "Fsx", "Fsy", "Fsz", "Fmz", "Fwz", "Fsw", "Fwl", "Frad", "Flen"]


class TranslationError(Exception):
    pass


def code_lines(body):
    """statements of a function body: docstrings, comments and blank lines removed"""
    body = re.sub(r'"""(?:.|\n)*?"""', "", body)
    out = []
    for ln in body.splitlines():
        ln = ln.split("#")[0].rstrip()
        if ln.strip():
            out.append(ln.strip())
    return out


def qcoq(text):
    fr = Fraction(text)
    return "(%d # %d)" % (fr.numerator, fr.denominator)


def translate(repo):
    src = open(os.path.join(repo, "cherab/core/model/laser/profile.pyx")).read()
    parts = re.split(r"^cdef class (\w+)\(LaserProfile\):\s*$", src, flags=re.M)
    classes = dict(zip(parts[1::2], parts[2::2]))
    if set(classes) != set(CLASS2KIND):
        raise TranslationError("profile classes found: %s" % sorted(classes))
    policy, scripts, signatures = {}, {}, {}
    for cname, text in classes.items():
        kind = CLASS2KIND[cname]
        text = re.split(r"^def \w+\(", text, flags=re.M)[0]           # module-level functions after the last class
        # ---- methods -------------------------------------------------------------------------------------
        pieces = re.split(r"^    (?=@|def |cpdef )", text, flags=re.M)
        chunks = []
        for pc in pieces:                       # a decorator line belongs to the def that follows it
            if chunks and re.fullmatch(r"@[\w.]+\s*", chunks[-1]):
                chunks[-1] += pc
            else:
                chunks.append(pc)
        setters, init = {}, None
        for ch in chunks:
            m = re.match(r"@(\w+)\.setter\s*\n\s*def (\w+)\(self, (?:double )?value\):\s*\n((?:.|\n)*)", ch)
            if m:
                if m.group(1) != m.group(2):
                    raise TranslationError("%s: setter of %s is bound to the name %s" % (cname, m.group(1), m.group(2)))
                setters[m.group(1)] = code_lines(m.group(3))
            m = re.match(r"def __init__\(self,((?:.|\n)*?)\):\s*\n((?:.|\n)*)", ch)
            if m:
                init = (m.group(1), code_lines(m.group(2)))
        if init is None:
            raise TranslationError("%s: no __init__" % cname)
        # ---- setters -------------------------------------------------------------------------------------
        for attr, lines in setters.items():
            if attr not in ATTR2FLD:
                raise TranslationError("%s: unknown property %s" % (cname, attr))
            f = ATTR2FLD[attr]
            guard = False
            if len(lines) >= 2 and lines[0] == "if value <= 0:" and re.fullmatch(r"raise ValueError\(.*\)", lines[1]):
                guard, lines = True, lines[2:]
            if not lines or lines[0] != "self._%s = value" % attr:
                raise TranslationError("%s.%s: first statement after the guard is not the assignment: %s" % (cname, attr, lines[:1]))
            rest = lines[1:]
            if rest == ["self.notifier.notify()"]:
                act = "ANotify"
            elif rest == ["self._function_changed()"]:
                act = "AFunc"
            elif rest == ["self._stddev_z = self._pulse_length * SPEED_OF_LIGHT", "self._function_changed()"] and attr == "pulse_length":
                act = "AFuncSz"
            elif rest == ["funct = Constant3D(value)", "self.set_energy_density_function(funct)"]:
                act = "AConst"
            else:
                raise TranslationError("%s.%s: unrecognised setter body %s" % (cname, attr, rest))
            policy[(kind, f)] = (guard, act)
        # ---- __init__ -------------------------------------------------------------------------------------
        sig, lines = init
        params = []
        for prm in [p.strip() for p in re.split(r",(?![^()]*\))", sig.replace("\n", " ")) if p.strip()]:
            m = re.fullmatch(r"(?:double |Vector3D )?(\w+)\s*=\s*(.+)", prm)
            if not m:
                raise TranslationError("%s.__init__: parameter %r" % (cname, prm))
            params.append((m.group(1), m.group(2)))
        pnames = [p for p, _ in params]
        script = []
        for ln in lines:
            if ln == "super().__init__()" or ln == "self.set_pointing_function(ConstantVector3D(Vector3D(0, 0, 1)))":
                continue
            if ln == "self.set_polarization(polarization)":
                script.append("IPol")
                continue
            ln = re.sub(r"\s+", " ", ln)
            m = re.fullmatch(r"self\._(\w+) = ([0-9.eE+-]+)", ln)
            if m and m.group(1) in ATTR2FLD:
                script.append("IRawC %s %s" % (ATTR2FLD[m.group(1)], qcoq(m.group(2))))
                continue
            m = re.fullmatch(r"self\._(\w+) = (\w+)", ln)
            if m and m.group(1) in ATTR2FLD and m.group(2) == m.group(1) and m.group(2) in pnames:
                script.append("IRawA %s" % ATTR2FLD[m.group(1)])
                continue
            m = re.fullmatch(r"self\.(\w+) = (\w+)", ln)
            if m and m.group(1) in ATTR2FLD and m.group(2) == m.group(1) and m.group(2) in pnames and m.group(1) in setters:
                script.append("ISet %s" % ATTR2FLD[m.group(1)])
                continue
            raise TranslationError("%s.__init__: unrecognised statement %r" % (cname, ln))
        scripts[kind] = script
        sigd = []
        for pn, dv in params:
            if pn == "polarization":
                m = re.fullmatch(r"Vector3D\(([-0-9.e]+), ([-0-9.e]+), ([-0-9.e]+)\)", dv)
                if not m:
                    raise TranslationError("%s.__init__: default polarization %r" % (cname, dv))
                sigd.append(("polarization", "pol", tuple(float(x) for x in m.groups())))
            else:
                if pn not in ATTR2FLD:
                    raise TranslationError("%s.__init__: unknown parameter %s" % (cname, pn))
                sigd.append((pn, ATTR2FLD[pn], float(dv)))
        signatures[kind] = sigd
    return policy, scripts, signatures


def coq_text(policy, scripts):
    kinds = ["KUniform", "KBiv", "KTri", "KBeam"]
    rows = []
    for k in kinds:
        for f in FIELDS:
            if (k, f) in policy:
                g, a = policy[(k, f)]
                rows.append("(%s, %s, (true, %s, %s))" % (k, f, "true" if g else "false", a))
            else:
                rows.append("(%s, %s, (false, false, ANone))" % (k, f))
    return """(* GENERATED by harness/c18_translate.py from cherab/core/model/laser/profile.pyx -- do not edit *)
Require Import Cherab.Common.Qx Cherab.Model.C18_Laser.
Open Scope Q_scope.

(* (class, attribute, (has a property setter, guarded by `if value <= 0: raise ValueError`, action after the assignment)) *)
Definition gen_policy : list (pkind * fld * (bool * bool * act)) := [
  %s].

Definition gen_script (k : pkind) : list itok :=
  match k with
%s
  end.

Definition act_eqb (a b : act) : bool :=
  match a, b with ANone, ANone | ANotify, ANotify | AConst, AConst | AFunc, AFunc | AFuncSz, AFuncSz => true | _, _ => false end.
Definition itok_eqb (a b : itok) : bool :=
  match a, b with
  | IRawC f q, IRawC g r => fld_eqb f g && Qeq_bool q r
  | IRawA f, IRawA g | ISet f, ISet g => fld_eqb f g
  | IPol, IPol => true
  | _, _ => false
  end.
Fixpoint list_eqb {A} (e : A -> A -> bool) (l1 l2 : list A) : bool :=
  match l1, l2 with [] , [] => true | a :: t1, b :: t2 => e a b && list_eqb e t1 t2 | _, _ => false end.

(* the tables the model's step / construct use are the tables of the current source.  For attributes without a
   setter the model's [guarded] is irrelevant (step answers AttributeError first). *)
Definition policy_agrees : bool :=
  forallb (fun row => let '(k, f, (h, g, a)) := row in
             Bool.eqb (has_field k f) h && act_eqb (action k f) a && (negb h || Bool.eqb (guarded k f) g)) gen_policy
  && (length gen_policy =? 48)%%nat
  && forallb (fun k => list_eqb itok_eqb (init_script k) (gen_script k)) [KUniform; KBiv; KTri; KBeam].

Lemma policy_ok : policy_agrees = true.
Proof. vm_compute. reflexivity. Qed.
""" % (";\n  ".join(rows), "\n".join("  | %s => [%s]" % (k, "; ".join(scripts[k])) for k in kinds))
