"""C18 translator: the policy tables of the four laser profile classes, read from the CURRENT source of
cherab/core/model/laser/profile.pyx (fail closed: any statement of a setter or of __init__ that is not
one of the recognised shapes aborts the translation).

Output: coq/Gen/C18/Policy.v with
  gen_policy : list (pkind * fld * (bool * act))   which property exists, whether its setter starts with the
                                                   guard `if value <= 0: raise ValueError`, what it does afterwards
  gen_script : pkind -> list itok                  __init__ statement by statement
and the tie lemma  policy_ok : policy_agrees = true  (vm_compute) which the kernel checks against the tables the
model's step / construct functions use (Model/C18_Laser.v: has_field, guarded, action, init_script).
Also returns the constructor signatures (parameter order and defaults) used by the harness to build objects
positionally / with defaults.
"""
import os
import re
from fractions import Fraction

ATTR2FLD = {"energy_density": "Fed", "pulse_energy": "Fpe", "pulse_length": "Fpl", "stddev_x": "Fsx", "stddev_y": "Fsy",
            "stddev_z": "Fsz", "mean_z": "Fmz", "waist_z": "Fwz", "stddev_waist": "Fsw", "laser_wavelength": "Fwl",
            "laser_radius": "Frad", "laser_length": "Flen"}
CLASS2KIND = {"UniformEnergyDensity": "KUniform", "ConstantBivariateGaussian": "KBiv", "TrivariateGaussian": "KTri",
              "GaussianBeamAxisymmetric": "KBeam"}
FIELDS = ["Fed", "Fpe", "Fpl", "Fsx", "Fsy", "Fsz", "Fmz", "Fwz", "Fsw", "Fwl", "Frad", "Flen"]


class TranslationError(Exception):
    pass


def code_lines(body):
    """statements of a function body: docstrings, comments and blank lines removed"""
    body = re.sub(r'"""(?:.|\n)*?"""', "", body)
    out = []
    for ln in body.splitlines():
        ln = ln.split("#")[0].rstrip()
        if ln.strip():
            out.append(ln.strip())
    return out


def qcoq(text):
    fr = Fraction(text)
    return "(%d # %d)" % (fr.numerator, fr.denominator)


def translate(repo):
    src = open(os.path.join(repo, "cherab/core/model/laser/profile.pyx")).read()
    parts = re.split(r"^cdef class (\w+)\(LaserProfile\):\s*$", src, flags=re.M)
    classes = dict(zip(parts[1::2], parts[2::2]))
    if set(classes) != set(CLASS2KIND):
        raise TranslationError("profile classes found: %s" % sorted(classes))
    policy, scripts, signatures = {}, {}, {}
    for cname, text in classes.items():
        kind = CLASS2KIND[cname]
        text = re.split(r"^def \w+\(", text, flags=re.M)[0]           # module-level functions after the last class
        # ---- methods -------------------------------------------------------------------------------------
        pieces = re.split(r"^    (?=@|def |cpdef )", text, flags=re.M)
        chunks = []
        for pc in pieces:                       # a decorator line belongs to the def that follows it
            if chunks and re.fullmatch(r"@[\w.]+\s*", chunks[-1]):
                chunks[-1] += pc
            else:
                chunks.append(pc)
        setters, init = {}, None
        for ch in chunks:
            m = re.match(r"@(\w+)\.setter\s*\n\s*def (\w+)\(self, (?:double )?value\):\s*\n((?:.|\n)*)", ch)
            if m:
                if m.group(1) != m.group(2):
                    raise TranslationError("%s: setter of %s is bound to the name %s" % (cname, m.group(1), m.group(2)))
                setters[m.group(1)] = code_lines(m.group(3))
            m = re.match(r"def __init__\(self,((?:.|\n)*?)\):\s*\n((?:.|\n)*)", ch)
            if m:
                init = (m.group(1), code_lines(m.group(2)))
        if init is None:
            raise TranslationError("%s: no __init__" % cname)
        # ---- setters -------------------------------------------------------------------------------------
        for attr, lines in setters.items():
            if attr not in ATTR2FLD:
                raise TranslationError("%s: unknown property %s" % (cname, attr))
            f = ATTR2FLD[attr]
            guard = False
            if len(lines) >= 2 and lines[0] == "if value <= 0:" and re.fullmatch(r"raise ValueError\(.*\)", lines[1]):
                guard, lines = True, lines[2:]
            if not lines or lines[0] != "self._%s = value" % attr:
                raise TranslationError("%s.%s: first statement after the guard is not the assignment: %s" % (cname, attr, lines[:1]))
            rest = lines[1:]
            if rest == ["self.notifier.notify()"]:
                act = "ANotify"
            elif rest == ["self._function_changed()"]:
                act = "AFunc"
            elif rest == ["self._stddev_z = self._pulse_length * SPEED_OF_LIGHT", "self._function_changed()"] and attr == "pulse_length":
                act = "AFuncSz"
            elif rest == ["funct = Constant3D(value)", "self.set_energy_density_function(funct)"]:
                act = "AConst"
            else:
                raise TranslationError("%s.%s: unrecognised setter body %s" % (cname, attr, rest))
            policy[(kind, f)] = (guard, act)
        # ---- __init__ -------------------------------------------------------------------------------------
        sig, lines = init
        params = []
        for prm in [p.strip() for p in re.split(r",(?![^()]*\))", sig.replace("\n", " ")) if p.strip()]:
            m = re.fullmatch(r"(?:double |Vector3D )?(\w+)\s*=\s*(.+)", prm)
            if not m:
                raise TranslationError("%s.__init__: parameter %r" % (cname, prm))
            params.append((m.group(1), m.group(2)))
        pnames = [p for p, _ in params]
        script = []
        for ln in lines:
            if ln == "super().__init__()" or ln == "self.set_pointing_function(ConstantVector3D(Vector3D(0, 0, 1)))":
                continue
            if ln == "self.set_polarization(polarization)":
                script.append("IPol")
                continue
            ln = re.sub(r"\s+", " ", ln)
            m = re.fullmatch(r"self\._(\w+) = ([0-9.eE+-]+)", ln)
            if m and m.group(1) in ATTR2FLD:
                script.append("IRawC %s %s" % (ATTR2FLD[m.group(1)], qcoq(m.group(2))))
                continue
            m = re.fullmatch(r"self\._(\w+) = (\w+)", ln)
            if m and m.group(1) in ATTR2FLD and m.group(2) == m.group(1) and m.group(2) in pnames:
                script.append("IRawA %s" % ATTR2FLD[m.group(1)])
                continue
            m = re.fullmatch(r"self\.(\w+) = (\w+)", ln)
            if m and m.group(1) in ATTR2FLD and m.group(2) == m.group(1) and m.group(2) in pnames and m.group(1) in setters:
                script.append("ISet %s" % ATTR2FLD[m.group(1)])
                continue
            raise TranslationError("%s.__init__: unrecognised statement %r" % (cname, ln))
        scripts[kind] = script
        sigd = []
        for pn, dv in params:
            if pn == "polarization":
                m = re.fullmatch(r"Vector3D\(([-0-9.e]+), ([-0-9.e]+), ([-0-9.e]+)\)", dv)
                if not m:
                    raise TranslationError("%s.__init__: default polarization %r" % (cname, dv))
                sigd.append(("polarization", "pol", tuple(float(x) for x in m.groups())))
            else:
                if pn not in ATTR2FLD:
                    raise TranslationError("%s.__init__: unknown parameter %s" % (cname, pn))
                sigd.append((pn, ATTR2FLD[pn], float(dv)))
        signatures[kind] = sigd
    return policy, scripts, signatures


def _methods(text):
    """{name: (decorator or '', signature, statements)} of the methods of one class body"""
    pieces = re.split(r"^    (?=@|def |cpdef |cdef )", text, flags=re.M)
    chunks = []
    for pc in pieces:
        if chunks and re.fullmatch(r"@[\w.]+\s*", chunks[-1]):
            chunks[-1] += pc
        else:
            chunks.append(pc)
    out = {}
    for ch in chunks:
        m = re.match(r"(?:@([\w.]+)\s*\n\s*)?(?:def|cpdef \w+|cpdef)\s+(\w+)\(([^)]*)\):\s*\n((?:.|\n)*)", ch)
        if m:
            out[(m.group(1) or "", m.group(2))] = (m.group(3), code_lines(m.group(4)))
    return out


def translate_spectrum(repo):
    """policy of the LaserSpectrum / GaussianSpectrum setters and accessors (fail closed)"""
    base = open(os.path.join(repo, "cherab/core/laser/laserspectrum.pyx")).read()
    model = open(os.path.join(repo, "cherab/core/model/laser/laserspectrum.pyx")).read()
    mb = re.split(r"^cdef class LaserSpectrum\(Function1D\):\s*$", base, flags=re.M)
    if len(mb) != 2:
        raise TranslationError("class LaserSpectrum not found")
    bm = _methods(mb[1])
    mg = re.split(r"^cdef class GaussianSpectrum\(LaserSpectrum\):\s*$", model, flags=re.M)
    if len(mg) != 2:
        raise TranslationError("class GaussianSpectrum not found")
    gm = _methods(mg[1])

    def need(methods, key, sig, lines, what):
        if key not in methods:
            raise TranslationError("%s: not found" % what)
        gs, gl = methods[key]
        if re.sub(r"\s+", " ", gs.strip()) != sig or gl != lines:
            raise TranslationError("%s: unrecognised shape: (%s) %s" % (what, gs, gl))

    pol = {}
    need(bm, ("min_wavelength.setter", "min_wavelength"), "self, double value",
         ["self._check_wavelength_validity(value, self.max_wavelength)", "self._min_wavelength = value", "self._update_cache()"], "min_wavelength setter")
    pol["AMin"] = ("false", "CRangeMin", "RAlways")
    need(bm, ("max_wavelength.setter", "max_wavelength"), "self, double value",
         ["self._check_wavelength_validity(self.min_wavelength, value)", "self._max_wavelength = value", "self._update_cache()"], "max_wavelength setter")
    pol["AMax"] = ("false", "CRangeMax", "RAlways")
    need(bm, ("bins.setter", "bins"), "self, int value",
         ["if value <= 0:", 'raise ValueError("Value has to be larger than 0")', "self._bins = value", "self._update_cache()"], "bins setter")
    pol["ABins"] = ("false", "CPos", "RAlways")
    need(gm, ("stddev.setter", "stddev"), "self, value",
         ["if value <= 0:", 'raise ValueError("Value has to be larger than 0")', "self._stddev = value", "self._recip_stddev = 1 / value",
          "self._normalisation = 1 / (value * sqrt(2 * M_PI))", "self._norm_cdf = 1 / (value * M_SQRT2)",
          "if self._bins > 0:", "self._update_cache()"], "stddev setter")
    pol["AStd"] = ("true", "CPos", "RIfInit")
    need(gm, ("mean.setter", "mean"), "self, double value",
         ["if value <= 0:", 'raise ValueError("Value has to be larger than 0")', "self._mean = value", "if self._bins > 0:", "self._update_cache()"],
         "mean setter")
    pol["AMean"] = ("true", "CPos", "RIfInit")
    const_body = re.split(r"^cdef class GaussianSpectrum", re.split(r"^cdef class ConstantSpectrum\(LaserSpectrum\):\s*$", model, flags=re.M)[1], flags=re.M)[0]
    if ".setter" in const_body:
        raise TranslationError("ConstantSpectrum defines a property setter")
    # _check_wavelength_validity = range_invalid of the model
    key = ("", "_check_wavelength_validity")
    if key not in bm:
        raise TranslationError("_check_wavelength_validity not found")
    cl = [l for l in bm[key][1] if not l.startswith("raise ValueError(")]
    if cl != ["if min_wavelength <= 0:", "if max_wavelength <= 0:", "if min_wavelength >= max_wavelength:"]:
        raise TranslationError("_check_wavelength_validity: unrecognised shape %s" % cl)
    # constructors
    need(bm, ("", "__init__"), "self, double min_wavelength, double max_wavelength, int bins",
         ["super().__init__()", "self._check_wavelength_validity(min_wavelength, max_wavelength)", "self._min_wavelength = min_wavelength",
          "self._max_wavelength = max_wavelength", "self.bins = bins"], "LaserSpectrum.__init__")
    need(gm, ("", "__init__"), "self, double min_wavelength, double max_wavelength, int bins, double mean, double stddev",
         ["self.stddev = stddev", "self.mean = mean", "super().__init__(min_wavelength, max_wavelength, bins)"], "GaussianSpectrum.__init__")
    # accessors
    acc = {}
    for g, nm in (("GMin", "get_min_wavelenth"), ("GMax", "get_max_wavelenth"), ("GDelta", "get_delta_wavelength")):
        if ("", nm) not in bm or len(bm[("", nm)][1]) != 1:
            raise TranslationError("accessor %s not found" % nm)
        m = re.fullmatch(r"return self\._(min_wavelength|max_wavelength|delta_wavelength)", bm[("", nm)][1][0])
        if not m:
            raise TranslationError("accessor %s: %s" % (nm, bm[("", nm)][1]))
        acc[g] = {"min_wavelength": "WMin", "max_wavelength": "WMax", "delta_wavelength": "WDelta"}[m.group(1)]
    if bm.get(("", "get_spectral_bins"), (None, None))[1] != ["return self._bins"]:
        raise TranslationError("get_spectral_bins: %s" % (bm.get(("", "get_spectral_bins")),))
    return pol, acc


def coq_text(policy, scripts, spol=None, sacc=None):
    kinds = ["KUniform", "KBiv", "KTri", "KBeam"]
    rows = []
    for k in kinds:
        for f in FIELDS:
            if (k, f) in policy:
                g, a = policy[(k, f)]
                rows.append("(%s, %s, (true, %s, %s))" % (k, f, "true" if g else "false", a))
            else:
                rows.append("(%s, %s, (false, false, ANone))" % (k, f))
    return """(* GENERATED by harness/c18_translate.py from cherab/core/model/laser/profile.pyx -- do not edit *)
Require Import Cherab.Common.Qx Cherab.Model.C18_Laser.
Open Scope Q_scope.

(* (class, attribute, (has a property setter, guarded by `if value <= 0: raise ValueError`, action after the assignment)) *)
Definition gen_policy : list (pkind * fld * (bool * bool * act)) := [
  %s].

Definition gen_script (k : pkind) : list itok :=
  match k with
%s
  end.

Definition act_eqb (a b : act) : bool :=
  match a, b with ANone, ANone | ANotify, ANotify | AConst, AConst | AFunc, AFunc | AFuncSz, AFuncSz => true | _, _ => false end.
Definition itok_eqb (a b : itok) : bool :=
  match a, b with
  | IRawC f q, IRawC g r => fld_eqb f g && Qeq_bool q r
  | IRawA f, IRawA g | ISet f, ISet g => fld_eqb f g
  | IPol, IPol => true
  | _, _ => false
  end.
Fixpoint list_eqb {A} (e : A -> A -> bool) (l1 l2 : list A) : bool :=
  match l1, l2 with [] , [] => true | a :: t1, b :: t2 => e a b && list_eqb e t1 t2 | _, _ => false end.

(* the tables the model's step / construct use are the tables of the current source.  For attributes without a
   setter the model's [guarded] is irrelevant (step answers AttributeError first). *)
Definition policy_agrees : bool :=
  forallb (fun row => let '(k, f, (h, g, a)) := row in
             Bool.eqb (has_field k f) h && act_eqb (action k f) a && (negb h || Bool.eqb (guarded k f) g)) gen_policy
  && (length gen_policy =? 48)%%nat
  && forallb (fun k => list_eqb itok_eqb (init_script k) (gen_script k)) [KUniform; KBiv; KTri; KBeam].

Lemma policy_ok : policy_agrees = true.
Proof. vm_compute. reflexivity. Qed.
%s""" % (";\n  ".join(rows), "\n".join("  | %s => [%s]" % (k, "; ".join(scripts[k])) for k in kinds), spectrum_text(spol, sacc))


def spectrum_text(spol, sacc):
    if spol is None:
        return ""
    return """
(* ---- spectra: laserspectrum.pyx (core/laser and core/model/laser) ---- *)
Require Import Cherab.Model.C18_Spectrum.
Definition gen_spolicy : list (sattr * (bool * scheck * srebin)) := [%s].
Definition gen_acc : list (sacc * sfield) := [%s].
Definition scheck_eqb (a b : scheck) := match a, b with CRangeMin, CRangeMin | CRangeMax, CRangeMax | CPos, CPos => true | _, _ => false end.
Definition srebin_eqb (a b : srebin) := match a, b with RAlways, RAlways | RIfInit, RIfInit => true | _, _ => false end.
Definition sfield_eqb (a b : sfield) := match a, b with WMin, WMin | WMax, WMax | WDelta, WDelta => true | _, _ => false end.
Definition spolicy_agrees : bool :=
  forallb (fun row => let '(a, (g, c, r)) := row in
             Bool.eqb (gauss_only a) g && scheck_eqb (check_of a) c && srebin_eqb (rebin_of a) r) gen_spolicy
  && (length gen_spolicy =? 5)%%nat
  && forallb (fun row => sfield_eqb (acc_field (fst row)) (snd row)) gen_acc && (length gen_acc =? 3)%%nat.
Lemma spolicy_ok : spolicy_agrees = true.
Proof. vm_compute. reflexivity. Qed.
""" % ("; ".join("(%s, (%s, %s, %s))" % ((a,) + spol[a]) for a in ("AMin", "AMax", "ABins", "AMean", "AStd")),
       "; ".join("(%s, %s)" % (g, sacc[g]) for g in ("GMin", "GMax", "GDelta")))
