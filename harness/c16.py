"""C16 -- Instruments: settings follow parameters, calibration conserves the spectrum
(cherab/tools/spectroscopy/{instrument,spectrometer,polychromator}.py).

Theorems: coq/Properties/C16.v (all histories of public calls, all pixel layouts, all binnings).
Tie: correspondence -- random histories of public calls (setters with accepted and rejected values,
reads that fill the lazy caches) are run on the real Spectrometer / CzernyTurnerSpectrometer /
Polychromator; the result of EVERY call is compared inside Coq with the model run by vm_compute
with rnd := round53 (exact equality, no tolerance); filter construction likewise; calibrate against
the integral of the linear interpolant under relative 2^-40.
Search: the executable statement of the property on the implementation (mutated instrument vs an
instrument constructed with the final parameters; range covers pixels/filters; bin-width bound;
value*width == spectrum.integrate and == an exact rational integral of the interpolant).
"""
import glob
import re
import json
import math
import os
from fractions import Fraction

import numpy as np

from common import VERIF, qlit, qlist, coq_string, dyadic, coqc, coqc_many, parse_evals, parse_zlist

THEOREMS = ["C16_spectrometer_history_independent", "C16_spectrometer_reachable_valid", "C16_czerny_turner_history_independent",
            "C16_polychromator_history_independent", "C16_range_covers_pixels", "C16_range_covers_filters",
            "C16_bin_width_bound", "C16_bin_width_bound_float", "C16_bin_width_bound_polychromator",
            "C16_czerny_turner_pixels_increasing", "C16_calibrate_conserves", "C16_spectrum_integral_additive",
            "C16_round53_relative_error", "C16_bin_width_bound_double", "C16_bin_width_bound_polychromator_float",
            "C16_bin_width_bound_polychromator_double", "C16_filter_range", "C16_trapezoid_range_exact",
            "C16_calibrate_call_outcomes", "C16_setters_have_tabled_effects",
            "C16_spectrum_integral_constant", "C16_calibrate_conserves_spectrum", "C16_calibrate_flat",
            "C16_spectrometer_order_independent", "C16_polychromator_order_independent", "C16_constructors_follow_source_tables",
            "C16_resolution_positive", "C16_resolution_decreasing", "C16_resolution_certificate",
            "C16_round53_respects_equality", "C16_order_independent_double"]

D2R = float(np.pi / 180.0)
SLACK = 2.0 ** -40          # bin-width bound on doubles: theorem C16_bin_width_bound_float gives ((1+u)/(1-u))^2, u = 2^-53
HEADER = ("Require Import Cherab.Common.Qx Cherab.Model.C16_Instruments Cherab.Model.C16_Check Cherab.Model.C16_Source.\n"
          "From Coq Require Import String.\nOpen Scope Q_scope.\n")


# ---------------------------------------------------------------------------------------------
# encoding of values for Coq
# ---------------------------------------------------------------------------------------------
def zl(n):
    return "(%d)%%Z" % int(n)


def cstr(s):
    return coq_string(s) + "%string"


def qarrs(arrs):
    return "[" + "; ".join(qlist([float(x) for x in a]) for a in arrs) + "]"


def err_kind(e):
    if isinstance(e, ValueError):
        return "ErrValue"
    if isinstance(e, TypeError):
        return "ErrType"
    if isinstance(e, AttributeError):
        return "ErrAttribute"
    return "ErrOther"


class Enc:
    """encodes what a public call returned as a Coq term of type [out]; filters are named by id"""

    def __init__(self, filter_ids=None):
        self.fid = filter_ids or {}
        from raysect.optical.observer import SpectralRadiancePipeline0D, RadiancePipeline0D
        self.cls = {SpectralRadiancePipeline0D: "SpectralRadiance0D", RadiancePipeline0D: "Radiance0D"}

    def x(self, v):
        if isinstance(v, (bool, str)) or not isinstance(v, (float, int, np.floating, np.integer)):
            return "OErr ErrOther"
        v = float(v)
        if math.isnan(v):
            raise ValueError("implementation returned NaN")
        if v == math.inf:
            return "OX PInf"
        return "OX (Fin %s)" % qlit(v)

    def z(self, v):
        if isinstance(v, bool) or not isinstance(v, (int, np.integer)):
            return "OErr ErrOther"
        return "OZ %s" % zl(v)

    def arrs(self, v):
        return "OArrs %s" % qarrs(v)

    def kw(self, v):
        items = []
        for d in v:
            if not isinstance(d, dict) or set(d) - {"name", "filter"} or "name" not in d or not isinstance(d["name"], str):
                return "OErr ErrOther"
            f = "None"
            if "filter" in d:
                if id(d["filter"]) not in self.fid:
                    return "OErr ErrOther"
                f = "(Some %s)" % zl(self.fid[id(d["filter"])])
            items.append("{| kw_name := %s; kw_filter := %s |}" % (cstr(d["name"]), f))
        return "OKw [%s]" % "; ".join(items)

    def cl(self, v):
        names = []
        for c in v:
            if c not in self.cls:
                return "OErr ErrOther"
            names.append(self.cls[c])
        return "OCl [%s]" % "; ".join(names)


GETTERS = [("GetMin", "min_wavelength", "x"), ("GetMax", "max_wavelength", "x"), ("GetBins", "spectral_bins", "z"),
           ("GetKwargs", "pipeline_kwargs", "kw"), ("GetClasses", "pipeline_classes", "cl")]


TRACE = {"kind": None, "steps": [], "init": None}     # what the case under construction has done so far
CRASHES = []                                           # exceptions that escaped a case: recorded, reported, the run goes on


def trace_start(kind, init=None, steps=None):
    TRACE["kind"], TRACE["init"], TRACE["steps"] = kind, init, (steps if steps is not None else [])


def safe_case(gen, *args):
    """run one case generator (which drives the implementation); an exception of the implementation - or of the harness while
    digesting the implementation's answer - on these VALID inputs is recorded with the history so far and the run continues"""
    import traceback
    trace_start(gen.__name__)
    try:
        return gen(*args)
    except Exception as e:
        tb = traceback.format_exc()
        CRASHES.append({"kind": TRACE["kind"], "init": jsonable(TRACE["init"]), "history_so_far": [str(x)[:300] for x in TRACE["steps"]],
                        "exception": "%s: %s" % (type(e).__name__, str(e)[:300]), "error_kind": err_kind(e),
                        "where": [l.strip() for l in tb.strip().splitlines() if l.strip().startswith("File")][-3:], "traceback": tb[-2500:]})
        return None


def call(fn):
    """run one public call; returns ('ok', value) or ('err', kind)"""
    try:
        return "ok", fn()
    except Exception as e:          # every exception kind is compared with the model's
        return "err", err_kind(e)


def do_get(inst, enc, gi):
    name, attr, kind = GETTERS[gi]
    st, v = call(lambda: getattr(inst, attr))
    return "OErr %s" % v if st == "err" else getattr(enc, kind)(v)


def do_set(inst, attr, value):
    st, v = call(lambda: setattr(inst, attr, value))
    return ("OErr %s" % v if st == "err" else "OUnit"), st == "ok"


# ---------------------------------------------------------------------------------------------
# generators
# ---------------------------------------------------------------------------------------------
NAMES = ["", "spec", "My Spectrometer", "a: b", "x", "KS3", "poly 1", "H-alpha", "name with \"quote\""]
# name = str(value): values that are not strings are legal
NAME_OBJECTS = [123, None, 2.5, ("a", 1), True]

import collections
STATS = collections.Counter()      # what the generators actually produced (goes into the evidence)
TRIG = {}                          # (cos, tan) of the diffraction angle per resolution-oracle key
DEFAULTS = {}                      # constructor defaults read from the current source (c16_source.translate), tied to the model
QUICK = [True]                     # tier switch for the size classes


def ulp_up(x):
    return float(np.nextafter(x, np.inf))


def ulp_dn(x):
    return float(np.nextafter(x, -np.inf))


def gen_name(rng):
    """(value handed to the setter, the string the instrument must hold)"""
    if rng.random() < 0.15:
        v = rng.choice(NAME_OBJECTS)
        STATS["name:non-str object"] += 1
        return v, str(v)
    v = rng.choice(NAMES)
    return v, v


def gen_edges(rng, style=None):
    """strictly increasing pixel-edge array (at least 2 entries)"""
    style = style or rng.choice(["dyadic", "dyadic", "full", "survey", "hires", "two", "ulp", "intratio", "integer", "many",
                                  "uniform", "nearuniform"])
    STATS["edges:" + style] += 1
    if style == "two":
        a = dyadic(rng, 200, 900, 6)
        return [a, a + dyadic(rng, 0.05, 4, 8)], style
    n = rng.randint(2, 9)
    if style == "many":              # loop-count classes 9/10/11 (and 99/100/101 in the thorough tier)
        n = rng.choice([9, 10, 11] if QUICK[0] or rng.random() < 0.7 else [99, 100, 101])
        style = "full"
    if style in ("dyadic", "ulp"):
        a = dyadic(rng, 200, 900, 4)
        out = [a]
        for _ in range(n):
            out.append(out[-1] + dyadic(rng, 2 ** -6, 4, 6))
        if style == "ulp":           # one pixel exactly one ulp wide (the narrowest width np.diff(...) <= 0 lets through)
            i = rng.randrange(len(out) - 1)
            out.insert(i + 1, ulp_up(out[i]))
    elif style == "intratio":        # (max - min) / step is exactly an integer, or one ulp off it: the ceil boundary
        a = dyadic(rng, 200, 900, 3)
        w = 2.0 ** -rng.randint(0, 5)
        out = [a + i * w for i in range(n + 1)]
        r = rng.random()
        if r < 0.3:
            out[-1] = ulp_up(out[-1])
        elif r < 0.6:
            out[-1] = ulp_dn(out[-1])
    elif style in ("uniform", "nearuniform"):     # equal widths, or widths drifting by 1e-9 .. 1e-4 relative
        e, _ = gen_long_edges(rng, n)
        while style == "nearuniform" and not _.startswith("near"):
            e, _ = gen_long_edges(rng, n)
        while style == "uniform" and _ != "uniform":
            e, _ = gen_long_edges(rng, n)
        out = e
    elif style == "integer":         # integer-valued edges (can be handed over as int arrays)
        a = float(rng.randint(200, 900))
        out = [a]
        for _ in range(n):
            out.append(out[-1] + rng.randint(1, 5))
    elif style == "full":
        a = rng.uniform(200, 900)
        out = [a]
        for _ in range(n):
            out.append(out[-1] + rng.uniform(0.01, 3.0))
    elif style == "survey":          # SurveySpectrometer-style: wide range, widths growing with wavelength
        a = rng.uniform(200, 400)
        out = [a]
        w = rng.uniform(0.2, 1.0)
        for _ in range(n):
            out.append(out[-1] + w)
            w *= rng.uniform(1.0, 1.2)
    else:                            # hires: narrow, nearly equal pixels
        a = rng.uniform(400, 700)
        w = rng.uniform(0.005, 0.02)
        out = [a]
        for _ in range(n):
            out.append(out[-1] + w * rng.uniform(0.98, 1.02))
    return out, style


def gen_bad_edges(rng):
    k = rng.randint(0, 4)
    STATS["bad edges:" + ["one element", "repeated edge", "decreasing", "empty", "last two swapped"][k]] += 1
    if k == 0:
        return [dyadic(rng, 200, 900, 4)]                      # one element
    e, _ = gen_edges(rng, "dyadic")
    if k == 1:
        i = rng.randrange(len(e) - 1)
        e[i + 1] = e[i]                                          # repeated edge (zero-width pixel)
    elif k == 2:
        e = e[::-1]                                              # decreasing
    elif k == 3:
        return []                                                # empty array
    else:
        e[-1], e[-2] = e[-2], e[-1]                              # increasing except for the last step
    return e


def gen_scale(rng, p=0.2):
    """a power of two: the property is covariant under it (Angstrom/nm/m ...), and the scaling is exact in binary"""
    if rng.random() < p:
        STATS["scaled by 2^k"] += 1
        return 2.0 ** rng.randint(-30, 30)
    return 1.0


def gen_w2p(rng, allow_bad=True, allow_empty=False):
    """numbers for wavelength_to_pixel as a list of lists of floats; returns (value, valid)"""
    if allow_empty and rng.random() < 0.04:
        STATS["w2p:no spectra at all"] += 1
        return [], True
    n = rng.choice([1, 1, 2, 2, 3, 4]) if QUICK[0] else rng.choice([1, 1, 2, 2, 3, 4, 5, 6])
    arrs = [gen_edges(rng)[0] for _ in range(n)]
    r = rng.random()
    if n >= 2 and r < 0.35:
        # nested layouts: a broad array enclosing an earlier (or later) narrow one on both sides, in either list order
        i, j = rng.sample(range(n), 2)
        inner = arrs[i]
        lo = inner[0] - dyadic(rng, 0.5, 40, 4)
        hi = inner[-1] + dyadic(rng, 0.5, 40, 4)
        k = rng.randint(2, 7)
        arrs[j] = [lo + (hi - lo) * t / k for t in range(k + 1)]
        STATS["w2p:nested"] += 1
    elif n >= 2 and r < 0.45:
        i, j = rng.sample(range(n), 2)
        arrs[j] = list(arrs[i])                                  # the same spectrum accommodated twice
        STATS["w2p:repeated array"] += 1
    elif n >= 2 and r < 0.55:
        i, j = rng.sample(range(n), 2)                           # same start or same end as another array
        if rng.random() < 0.5:
            arrs[j] = [arrs[i][0]] + [x for x in arrs[j] if x > arrs[i][0]][:4] if any(x > arrs[i][0] for x in arrs[j]) else list(arrs[i])
        else:
            keep = [x for x in arrs[j] if x < arrs[i][-1]][-4:]
            arrs[j] = keep + [arrs[i][-1]] if keep else list(arrs[i])
        STATS["w2p:shared first/last edge"] += 1
    s = gen_scale(rng)
    if s != 1.0:
        arrs = [[x * s for x in a] for a in arrs]
    if allow_bad and rng.random() < 0.2:
        arrs[rng.randrange(n)] = gen_bad_edges(rng)
        return arrs, False
    return arrs, True


def form_w2p(rng, arrs):
    """the same numbers in one of the argument forms the setter accepts (np.array(x, dtype=float) of each entry)"""
    k = rng.randrange(9)
    label = "list of lists"
    val = [list(a) for a in arrs]
    if k == 1:
        val, label = tuple(tuple(a) for a in arrs), "tuple of tuples"
    elif k == 2:
        val, label = [np.array(a, dtype=np.float64) for a in arrs], "list of float64 arrays"
    elif k == 3:
        val = []
        for a in arrs:
            b = np.full(2 * len(a), -1.0)
            b[::2] = a
            v = b[::2]
            v.flags.writeable = False
            val.append(v)
        val, label = tuple(val), "non-contiguous read-only views"
    elif k == 4 and arrs and all(len(a) == len(arrs[0]) for a in arrs) and len(arrs[0]) > 0:
        val, label = np.array(arrs, dtype=np.float64), "2-D ndarray (rows)"
    elif k == 5 and all(float(np.float32(x)) == x for a in arrs for x in a):
        val, label = [np.array(a, dtype=np.float32) for a in arrs], "float32 arrays"
    elif k == 6 and all(float(x).is_integer() and abs(x) < 2 ** 31 for a in arrs for x in a):
        val, label = ([np.array(a, dtype=np.int64) for a in arrs] if rng.random() < 0.5 else [[int(x) for x in a] for a in arrs]), "int arrays / lists of int"
    elif k == 7:
        val, label = [[np.float64(x) for x in a] for a in arrs], "lists of numpy scalars"
    elif k == 8:
        val, label = [tuple(a) if i % 2 else np.array(a) for i, a in enumerate(arrs)], "mixed tuple / ndarray"
    STATS["w2p form:" + label] += 1
    return val


def model_num(v):
    """the number a scalar argument means to the implementation (int('3') == 3, int(True) == 1)"""
    if isinstance(v, (str, bool, np.bool_)):
        return int(v)
    if isinstance(v, (int, np.integer)):
        return int(v)
    return float(v)


def form_int(rng, v, allow_str=True):
    """an integer-valued argument in one of the forms int(value) accepts"""
    if not (isinstance(v, int) and not isinstance(v, bool)) or abs(v) > 2 ** 20:
        return v
    k = rng.randrange(8)
    forms = [v, v, np.int64(v), float(v), np.float64(v), np.float32(v), str(v) if allow_str else np.int32(v), True if v == 1 else v]
    STATS["int form:" + type(forms[k]).__name__] += 1
    return forms[k]


def form_real(rng, v):
    """a real-valued argument as Python float / numpy scalar (float32 only when exactly representable)"""
    k = rng.randrange(4)
    if k == 1:
        return np.float64(v)
    if k == 2 and float(np.float32(v)) == float(v):
        STATS["real form:float32"] += 1
        return np.float32(v)
    if k == 3 and float(v).is_integer() and abs(v) < 2 ** 40:
        STATS["real form:int"] += 1
        return int(v)
    return v


def gen_mbpp(rng):
    r = rng.random()
    if r < 0.55:
        return form_int(rng, rng.randint(1, 12))
    if r < 0.75:
        # rejected: int() truncates towards zero; the guard is value <= 0 AFTER int()
        v = rng.choice([0, -1, -3, 0.5, -0.5, -0.0, 0.999999, -5e-324, 1e-300, False, "0", "-2", np.int64(0), np.float64(-0.0)])
        STATS["guard value for an int attribute"] += 1
        return v
    if r < 0.9:
        return rng.choice([1.5, 2.7, 3.999, 7.0, 1.0000001, np.float64(2.5)])
    return rng.choice([1, 2, 5, 10, 16, 99, 100, 101, 2 ** 20, 10 ** 6])


# ---------------------------------------------------------------------------------------------
# Spectrometer histories
# ---------------------------------------------------------------------------------------------
DEFAULT_PIPELINE_NAMES = {"Spectral Radiance Pipeline", "Radiance Pipeline"}     # raysect's 'name or <default>'


def do_create_pipelines(inst, enc, prefix, ops, outs, log):
    """create_pipelines() (instrument.py:65-79) is an operation of the model (gop CreatePipelines): what it returns is
    encoded as the list of (pipeline class, name, filter) of the pipelines actually built"""
    st, v = call(inst.create_pipelines)
    STATS["op:create_pipelines"] += 1
    log.append("create_pipelines()")
    ops.append("%s CreatePipelines" % prefix)
    if st == "err":
        outs.append("OErr %s" % v)
        return
    items = []
    for p in v:
        if type(p) not in enc.cls:
            outs.append("OErr ErrOther")
            return
        name = "" if p.name in DEFAULT_PIPELINE_NAMES else p.name
        f = "None"
        if enc.cls[type(p)] == "Radiance0D":
            if id(p.filter) not in enc.fid:
                outs.append("OErr ErrOther")
                return
            f = "(Some %s)" % zl(enc.fid[id(p.filter)])
        items.append("(%s, {| kw_name := %s; kw_filter := %s |})" % (enc.cls[type(p)], cstr(name), f))
    outs.append("OPipes [%s]" % "; ".join(items))


def read_all(rng, inst, enc, prefix, ops, outs, log, arrays=None):
    """fill and read EVERY cached / derived attribute in one burst (random order): the five lazy properties,
    create_pipelines(), and the pixel arrays where the class has them"""
    STATS["op:read every cached attribute at once"] += 1
    order = list(range(6))
    rng.shuffle(order)
    for gi in order:
        if gi == 5:
            do_create_pipelines(inst, enc, prefix, ops, outs, log)
        else:
            ops.append("%s %s" % (prefix, GETTERS[gi][0]))
            outs.append(do_get(inst, enc, gi))
            log.append(GETTERS[gi][1])
    if arrays:
        ops += [arrays[0], arrays[1]]
        outs += [enc.arrs(inst.wavelength_to_pixel), enc.arrs(inst.wavelengths)]
        log += [arrays[0], arrays[1]]


def list_variant(rng, cur, fresh_item):
    """a list of the SAME length as cur that differs from it: other content, a permutation, or one element changed;
    fresh_item(i) returns a replacement for position i that differs from cur[i]"""
    cur = list(cur)
    k = rng.choice(["same length, new content", "permutation", "one element changed"])
    if k == "permutation" and len(cur) >= 2 and any(c is not cur[0] and c != cur[0] for c in cur):
        new = cur[1:] + cur[:1] if rng.random() < 0.5 else cur[::-1]
        if all(a is b or a == b for a, b in zip(new, cur)):
            new = cur[1:] + cur[:1]
    elif k == "one element changed" or len(cur) == 1:
        k = "one element changed"
        i = rng.randrange(len(cur))
        new = cur[:i] + [fresh_item(i)] + cur[i + 1:]
    else:
        k = "same length, new content"
        new = [fresh_item(i) for i in range(len(cur))]
    STATS["list parameter replaced: " + k] += 1
    return new


def pick_past(rng, past):
    """re-assign the current or an earlier accepted value (same value again, A -> B -> A)"""
    STATS["op:re-assign a current/earlier value"] += 1
    return rng.choice(past)


def sp_history(rng, mod, enc, quick):
    """returns dict(case=<coq term>, final=<tracked parameters>, inst=<mutated instrument>, meta=...)"""
    arrs, _ = gen_w2p(rng, allow_bad=False)
    w2p = form_w2p(rng, arrs)
    trace_start("spectrometer", {"constructing with wavelength_to_pixel": arrs})
    mbpp = rng.randint(1, 10)
    name = rng.choice(NAMES)
    # constructor with default / keyword / positional arguments
    r = rng.random()
    if r < 0.1:
        mbpp, name = DEFAULTS[("Spectrometer", "min_bins_per_pixel")], DEFAULTS[("Spectrometer", "name")]
        inst = mod.Spectrometer(w2p)
        STATS["ctor:defaults"] += 1
    elif r < 0.2:
        name = DEFAULTS[("Spectrometer", "name")]
        inst = mod.Spectrometer(w2p, min_bins_per_pixel=mbpp)
        STATS["ctor:defaults"] += 1
    elif r < 0.3:
        inst = mod.Spectrometer(name=name, min_bins_per_pixel=mbpp, wavelength_to_pixel=w2p)
        STATS["ctor:keywords"] += 1
    else:
        inst = mod.Spectrometer(w2p, mbpp, name)
    p_txt = "{| spp_mbpp := %s; spp_w2p := %s; spp_name := %s |}" % (qlit(mbpp), qarrs(arrs), cstr(name))
    cur = {"w2p": w2p, "arrs": arrs, "mbpp": mbpp, "name": name}
    past = {"w2p": [(w2p, arrs)], "mbpp": [mbpp], "name": [(name, name)]}
    ops, outs, log = [], ["OUnit"], []
    trace_start("spectrometer", {"w2p": arrs, "mbpp": mbpp, "name": name}, log)
    stale_window = False     # a read happened and a setter followed: the situation the tests never reach
    read_seen = False
    for _ in range(rng.randint(2, 10 if quick else 16)):
        r = rng.random()
        if r < 0.36:
            gi = rng.randrange(5)
            ops.append("SpGet %s" % GETTERS[gi][0])
            outs.append(do_get(inst, enc, gi))
            log.append(GETTERS[gi][1])
            read_seen = True
        elif r < 0.41:
            if rng.random() < 0.5:
                read_all(rng, inst, enc, "SpGet", ops, outs, log, ("SpGetW2p", "SpGetWl"))
            else:
                do_create_pipelines(inst, enc, "SpGet", ops, outs, log)
            read_seen = True
        elif r < 0.6:
            q = rng.random()
            if q < 0.2:
                v, va = pick_past(rng, past["w2p"])
            elif q < 0.45 and len(cur["arrs"]):
                # after the caches were filled: the same NUMBER of spectra with different content / permuted / one changed
                read_all(rng, inst, enc, "SpGet", ops, outs, log, ("SpGetW2p", "SpGetWl"))
                read_seen = True
                va = list_variant(rng, [list(a) for a in cur["arrs"]], lambda i: gen_edges(rng)[0])
                v = form_w2p(rng, va)
            else:
                va, _ = gen_w2p(rng, allow_empty=True)
                v = form_w2p(rng, va)
            o, ok = do_set(inst, "wavelength_to_pixel", v)
            ops.append("SpSetW2p %s" % qarrs(va))
            outs.append(o)
            log.append("wavelength_to_pixel=%r%s" % (va, "" if ok else " (rejected)"))
            if ok:
                cur["w2p"], cur["arrs"] = v, va
                past["w2p"].append((v, va))
                stale_window |= read_seen
        elif r < 0.8:
            v = pick_past(rng, past["mbpp"]) if rng.random() < 0.25 else gen_mbpp(rng)
            o, ok = do_set(inst, "min_bins_per_pixel", v)
            ops.append("SpSetMbpp %s" % qlit(model_num(v)))
            outs.append(o)
            log.append("min_bins_per_pixel=%r%s" % (v, "" if ok else " (rejected)"))
            if ok:
                cur["mbpp"] = int(v)
                past["mbpp"].append(v)
                stale_window |= read_seen
        elif r < 0.9:
            v, vs = pick_past(rng, past["name"]) if rng.random() < 0.25 else gen_name(rng)
            o, ok = do_set(inst, "name", v)
            ops.append("SpSetName %s" % cstr(vs))
            outs.append(o)
            log.append("name=%r" % (v,))
            cur["name"] = vs
            past["name"].append((v, vs))
            stale_window |= read_seen
        else:
            which = rng.choice(["SpGetW2p", "SpGetWl"])
            ops.append(which)
            outs.append(enc.arrs(inst.wavelength_to_pixel if which == "SpGetW2p" else inst.wavelengths))
            log.append(which)
    # final observation of everything the property names
    for gi in rng.sample(range(5), 5):
        ops.append("SpGet %s" % GETTERS[gi][0])
        outs.append(do_get(inst, enc, gi))
    ops += ["SpGetW2p", "SpGetWl"]
    outs += [enc.arrs(inst.wavelength_to_pixel), enc.arrs(inst.wavelengths)]
    case = "check_sp %s [%s] [%s]" % (p_txt, "; ".join(ops), "; ".join(outs))
    return {"case": case, "cur": cur, "inst": inst, "kind": "spectrometer", "log": log,
            "init": {"w2p": arrs, "mbpp": mbpp, "name": name}, "stale_window": stale_window}


def snapshot(inst, enc, arrays=True):
    """everything C16 names, as comparable Python values"""
    snap = {}
    for gi, (_, attr, kind) in enumerate(GETTERS):
        st, v = call(lambda: getattr(inst, attr))
        if st == "err":
            snap[attr] = ("err", v)
        elif kind == "x":
            snap[attr] = ("ok", float(v).hex())
        elif kind == "z":
            snap[attr] = ("ok", int(v), type(v).__name__)
        elif kind == "kw":
            snap[attr] = ("ok", [sorted((k, enc.fid.get(id(x), x) if k == "filter" else x) for k, x in d.items()) for d in v])
        else:
            snap[attr] = ("ok", [c.__name__ for c in v])
    st, v = call(inst.create_pipelines)
    snap["create_pipelines()"] = ("err", v) if st == "err" else \
        ("ok", [(type(p).__name__, "" if p.name in DEFAULT_PIPELINE_NAMES else p.name,
                 enc.fid.get(id(getattr(p, "filter", None)), None) if type(p).__name__ == "RadiancePipeline0D" else None) for p in v])
    if arrays:
        snap["wavelength_to_pixel"] = [[float(x).hex() for x in a] for a in inst.wavelength_to_pixel]
        snap["wavelengths"] = [[float(x).hex() for x in a] for a in inst.wavelengths]
    if hasattr(inst, "resolution"):
        snap["resolution(300), (500), (650)"] = [float(inst.resolution(np.float64(w))).hex() for w in (300.0, 500.0, 650.0)
                                                 if len(getattr(inst, "accommodated_spectra", ())) and w <= max(float(x) for x, _ in inst.accommodated_spectra)]
    return snap


def check_pipelines(inst, snap):
    """create_pipelines() builds one pipeline per class with the kwargs (only when both lists exist)"""
    if snap["pipeline_classes"][0] != "ok" or snap["pipeline_kwargs"][0] != "ok":
        return None
    pipes = inst.create_pipelines()
    if [type(p) for p in pipes] != list(inst.pipeline_classes):
        return "create_pipelines() classes differ from pipeline_classes"
    # raysect replaces an empty name by the pipeline's default name
    if any(d["name"] and p.name != d["name"] for p, d in zip(pipes, inst.pipeline_kwargs)):
        return "create_pipelines() names differ from pipeline_kwargs"
    return None


def range_and_width_claims(mn, mx, bins, intervals, narrowest, per):
    """the two inequalities of the property on doubles; returns list of failed claims"""
    fails = []
    for (a, b) in intervals:
        if not (mn <= a and b <= mx):
            fails.append("range [%r, %r] does not cover [%r, %r]" % (mn, mx, a, b))
            break
    if not (isinstance(bins, int) and bins > 0):
        fails.append("spectral_bins = %r is not a positive int" % (bins,))
    else:
        width = (Fraction(mx) - Fraction(mn)) / bins
        bound = Fraction(narrowest) / per
        if width > bound * (1 + Fraction(SLACK)):
            fails.append("bin width %r exceeds narrowest/min_bins = %r" % (float(width), float(bound)))
    return fails


def sp_search(h, mod, enc):
    """executable statement of the property for one Spectrometer / Czerny-Turner history"""
    inst, cur = h["inst"], h["cur"]
    fails = []
    if h["kind"] == "spectrometer":
        fresh = mod.Spectrometer(cur["w2p"], cur["mbpp"], cur["name"])
        per = cur["mbpp"]
        if int(inst.min_bins_per_pixel) != cur["mbpp"] or inst.name != cur["name"] or \
                [list(map(float, a)) for a in inst.wavelength_to_pixel] != [list(map(float, a)) for a in cur["arrs"]]:
            fails.append("public parameters differ from the last accepted assignments")
    else:
        fresh = mod.CzernyTurnerSpectrometer(cur["order"], cur["grating"], cur["focal"], cur["spacing"], cur["angle"],
                                             cur["acc"], cur["mbpp"], cur["name"])
        per = cur["mbpp"]
    a, b = snapshot(inst, enc), snapshot(fresh, enc)
    for k in a:
        if a[k] != b[k]:
            fails.append("%s of the mutated instrument %r != %r of an instrument constructed with the final parameters"
                         % (k, a[k], b[k]))
    if len(inst.wavelength_to_pixel) and a["min_wavelength"][0] == "ok" and a["spectral_bins"][0] == "ok":
        mn, mx, bins = float(inst.min_wavelength), float(inst.max_wavelength), inst.spectral_bins
        intervals = [(float(w[i]), float(w[i + 1])) for w in inst.wavelength_to_pixel for i in range(len(w) - 1)]
        narrowest = min(Fraction(y) - Fraction(x) for x, y in intervals)
        fails += range_and_width_claims(mn, mx, bins, intervals, narrowest, per)
    if h["kind"] == "spectrometer":
        msg = check_pipelines(inst, a)
        if msg:
            fails.append(msg)
    fails += sp_metamorphic(h, mod, a)
    return fails


def sp_metamorphic(h, mod, snap):
    """consequences of the property that need no model: the settings do not depend on the ORDER in which the
    accommodated spectra are listed, and they are covariant under a power-of-two change of wavelength unit"""
    cur, fails = h["cur"], []
    if snap["min_wavelength"][0] != "ok" or snap["spectral_bins"][0] != "ok":
        return fails
    want = (snap["min_wavelength"], snap["max_wavelength"], snap["spectral_bins"])
    if h["kind"] == "spectrometer":
        arrs = [list(map(float, a)) for a in cur["arrs"]]
        if len(arrs) >= 2:
            for perm, label in ((arrs[::-1], "reversed"), (arrs[1:] + arrs[:1], "rotated")):
                o = mod.Spectrometer(perm, cur["mbpp"], cur["name"])
                got = tuple(snapshot(o, Enc(), arrays=False)[k] for k in ("min_wavelength", "max_wavelength", "spectral_bins"))
                if got != want:
                    fails.append("settings depend on the order of the accommodated spectra: %s list gives %r, original %r" % (label, got, want))
                    break
        k = -7 if float.fromhex(want[0][1]) > 1.0 else 9
        o = mod.Spectrometer([[x * 2.0 ** k for x in a] for a in arrs], cur["mbpp"], cur["name"])
        got = (float(o.min_wavelength) / 2.0 ** k, float(o.max_wavelength) / 2.0 ** k, o.spectral_bins)
        if got != (float.fromhex(want[0][1]), float.fromhex(want[1][1]), want[2][1]):
            fails.append("settings are not covariant under scaling the wavelengths by 2^%d: %r vs %r" % (k, got, want))
    else:
        acc = [tuple(x) for x in cur["acc"]]
        if len(acc) >= 2:
            o = mod.CzernyTurnerSpectrometer(cur["order"], cur["grating"], cur["focal"], cur["spacing"], cur["angle"],
                                             acc[::-1], cur["mbpp"], cur["name"])
            got = tuple(snapshot(o, Enc(), arrays=False)[k] for k in ("min_wavelength", "max_wavelength", "spectral_bins"))
            if got != want:
                fails.append("settings depend on the order of the accommodated spectra: reversed list gives %r, original %r" % (got, want))
        inst = h["inst"]
        pub = (int(inst.diffraction_order), float(inst.grating), float(inst.focal_length), float(inst.pixel_spacing))
        trk = (int(cur["order"]), float(cur["grating"]), float(cur["focal"]), float(cur["spacing"]))
        if pub != trk or abs(float(inst.diffraction_angle) - float(cur["angle"])) > 1e-12 * float(cur["angle"]) \
                or int(inst.min_bins_per_pixel) != cur["mbpp"] or inst.name != cur["name"] \
                or [(float(w), int(n)) for w, n in inst.accommodated_spectra] != [(float(w), int(n)) for w, n in cur["acc"]]:
            fails.append("public parameters differ from the last accepted assignments")
    return fails


# ---------------------------------------------------------------------------------------------
# Czerny-Turner histories
# ---------------------------------------------------------------------------------------------
def ct_valid(c, acc=None):
    """physically meaningful parameters: positive, decreasing-free resolution over the accommodated range"""
    acc = acc if acc is not None else c["acc"]
    lam = max(float(w) for w, _ in acc) * 1.02 + 5.0
    p = 0.5 * int(c["order"]) * float(c["grating"]) * lam
    a = math.radians(float(c["angle"]))
    disc = math.cos(a) ** 2 - p * p
    return disc > 0.05 and math.sqrt(disc) - p * math.tan(a) > 0.05


def ct_gen_param(rng, which):
    if which == "order":
        return rng.choice([1, 1, 2, 3, 1.0, 2.9, np.int64(2), np.float64(1.5), True, "2"])
    if which == "grating":
        return form_real(rng, rng.choice([dyadic(rng, 2 ** -11, 2 ** -8, 16), rng.uniform(3e-4, 2.5e-3)]))
    if which == "focal":
        return form_real(rng, rng.choice([float(2 ** rng.randint(27, 31)), rng.uniform(2e8, 2e9)]))
    if which == "spacing":
        return form_real(rng, rng.choice([float(2 ** rng.randint(13, 16)), rng.uniform(8e3, 5e4)]))
    if which == "angle":
        # not as float32: np.deg2rad of a float32 scalar is evaluated in single precision, which the model's
        # deg2rad (one double multiplication) does not describe; mutated and fresh instruments agree there as well
        v = form_real(rng, rng.choice([dyadic(rng, 2, 30, 3), rng.uniform(2, 30)]))
        return float(v) if isinstance(v, np.float32) else v
    if which == "acc":
        r = rng.random()
        if r < 0.04:
            STATS["acc:no spectra at all"] += 1
            return ()
        nmax = 6
        if r < 0.2:
            nmax = -1                                            # loop-count classes 9/10/11 (99/100/101 in thorough)
        base = [(rng.choice([dyadic(rng, 300, 800, 3), rng.uniform(300, 800), float(rng.randint(300, 800))]),
                 rng.randint(1, nmax) if nmax > 0 else rng.choice([9, 10, 11] if QUICK[0] or rng.random() < 0.8 else [99, 100, 101]))
                for _ in range(rng.choice([1, 1, 2, 3]))]
        if len(base) >= 2 and rng.random() < 0.3:
            base[rng.randrange(len(base))] = base[0]             # the same spectrum twice
            STATS["acc:repeated entry"] += 1
        if len(base) >= 2 and rng.random() < 0.3:
            # nested: a later (or earlier) spectrum starts below and, having more pixels, ends above another one
            i, j = rng.sample(range(len(base)), 2)
            base[j] = (base[i][0] - dyadic(rng, 0.01, 0.05, 8), base[i][1] + rng.randint(6, 12))
            STATS["acc:nested"] += 1
        return form_acc(rng, base)
    raise KeyError(which)


def form_acc(rng, base):
    """accommodated_spectra in one of the forms 'for min_wavelength, pixels in value' accepts"""
    k = rng.randrange(6)
    label = "tuple of tuples"
    val = tuple((w, n) for w, n in base)
    if k == 1:
        val, label = [[w, n] for w, n in base], "list of lists"
    elif k == 2:
        val, label = [(np.float64(w), np.int64(n)) for w, n in base], "numpy scalars"
    elif k == 3:
        val, label = np.array([[w, float(n)] for w, n in base]), "2-D float ndarray (pixel counts as floats)"
    elif k == 4:
        val, label = tuple((w, float(n)) for w, n in base), "float pixel counts"
    elif k == 5 and all(float(w).is_integer() for w, _ in base):
        val, label = [(int(w), n) for w, n in base], "int wavelengths"
    STATS["acc form:" + label] += 1
    return val


CT_SET = {"order": ("CtSetOrder", "diffraction_order"), "grating": ("CtSetGrating", "grating"),
          "focal": ("CtSetFocal", "focal_length"), "spacing": ("CtSetSpacing", "pixel_spacing"),
          "angle": ("CtSetAngle", "diffraction_angle")}


def acc_txt(acc):
    return "[" + "; ".join("(%s, %s)" % (qlit(float(w)), zl(int(n))) for w, n in acc) + "]"


def ct_table_add(table, mod, c, acc):
    """resolution oracle entries for the key of the parameters c along the pixel chains of acc, taken from
    the resolution() method of a throw-away instrument (so that a stale pixel array of the instrument
    under test cannot leak into the oracle)"""
    aux = mod.CzernyTurnerSpectrometer(c["order"], c["grating"], c["focal"], c["spacing"], c["angle"], ((1., 1),))
    key = (int(c["order"]), float(c["grating"]), float(c["focal"]), float(c["spacing"]), float(aux._diffraction_angle))
    ent = table.setdefault(key, {})
    # cos / tan of the stored angle, as the running system computes them (data of the model's resolution formula)
    TRIG[key] = (float(np.cos(aux._diffraction_angle)), float(np.tan(aux._diffraction_angle)))
    for w0, n in acc:
        w = np.float64(w0)
        for _ in range(int(n)):
            r = aux.resolution(w)
            if math.isnan(r):
                raise ValueError("resolution is NaN for generated parameters")
            ent[float(w)] = float(r)
            w = w + r


def ct_history(rng, mod, enc, quick):
    while True:
        c = {k: ct_gen_param(rng, k) for k in ("order", "grating", "focal", "spacing", "angle", "acc")}
        if len(c["acc"]) and ct_valid(c):
            break
    c["mbpp"] = rng.randint(1, 8)
    c["name"] = rng.choice(NAMES)
    trace_start("czerny-turner", {"constructing with": c})
    r = rng.random()
    if r < 0.15:
        c["mbpp"], c["name"] = DEFAULTS[("CzernyTurnerSpectrometer", "min_bins_per_pixel")], DEFAULTS[("CzernyTurnerSpectrometer", "name")]
        inst = mod.CzernyTurnerSpectrometer(c["order"], c["grating"], c["focal"], c["spacing"], c["angle"], c["acc"])
        STATS["ctor:defaults"] += 1
    elif r < 0.3:
        inst = mod.CzernyTurnerSpectrometer(name=c["name"], min_bins_per_pixel=c["mbpp"], accommodated_spectra=c["acc"],
                                            diffraction_angle=c["angle"], pixel_spacing=c["spacing"], focal_length=c["focal"],
                                            grating=c["grating"], diffraction_order=c["order"])
        STATS["ctor:keywords"] += 1
    else:
        inst = mod.CzernyTurnerSpectrometer(c["order"], c["grating"], c["focal"], c["spacing"], c["angle"], c["acc"],
                                            c["mbpp"], c["name"])
    p_txt = ("{| ctp_order := %s; ctp_grating := %s; ctp_focal := %s; ctp_spacing := %s; ctp_angle := %s; "
             "ctp_acc := %s; ctp_mbpp := %s; ctp_name := %s |}" % (
                 qlit(model_num(c["order"])), qlit(float(c["grating"])), qlit(float(c["focal"])), qlit(float(c["spacing"])),
                 qlit(float(c["angle"])), acc_txt(c["acc"]), qlit(c["mbpp"]), cstr(c["name"])))
    cur = dict(c)
    cur["order"] = int(cur["order"])
    past = {k: [c[k]] for k in ("order", "grating", "focal", "spacing", "angle", "acc", "mbpp")}
    past["name"] = [(c["name"], c["name"])]
    table = {}
    ct_table_add(table, mod, cur, cur["acc"])
    ops, outs, log, side = [], ["OUnit"], [], []
    trace_start("czerny-turner", c, log)
    stale_window = read_seen = False
    for _ in range(rng.randint(2, 9 if quick else 14)):
        r = rng.random()
        if r < 0.32:
            gi = rng.randrange(5)
            ops.append("CtGet %s" % GETTERS[gi][0])
            outs.append(do_get(inst, enc, gi))
            log.append(GETTERS[gi][1])
            read_seen = True
        elif r < 0.36:
            if rng.random() < 0.5:
                read_all(rng, inst, enc, "CtGet", ops, outs, log, ("CtGetW2p", "CtGetWl"))
                read_seen = True
            else:
                do_create_pipelines(inst, enc, "CtGet", ops, outs, log)
        elif r < 0.39:
            # wavelength_to_pixel is read-only here (the subclass re-declares the property without a setter): model op
            va, _ = gen_w2p(rng, allow_bad=False)
            st, v = call(lambda: setattr(inst, "wavelength_to_pixel", form_w2p(rng, va)))
            STATS["op:assignment to a read-only attribute"] += 1
            ops.append("CtAssignW2p %s" % qarrs(va))
            outs.append("OErr %s" % v if st == "err" else "OUnit")
            log.append("wavelength_to_pixel=... (%s)" % (v if st == "err" else "ACCEPTED"))
        elif r < 0.7:
            which = rng.choice(list(CT_SET))
            q = rng.random()
            if q < 0.18:
                v = rng.choice([0, -1, -2.5, -0.0, 0.0, -5e-324, np.float64(0.0)]) if which != "order" else \
                    rng.choice([0, -1, 0.5, 0.999999, -0.0, False, "0", -0.5])
                STATS["guard value for a positive attribute"] += 1
            elif q < 0.36:
                v = pick_past(rng, past[which])
            else:
                v = ct_gen_param(rng, which)
            if q >= 0.18:
                trial = dict(cur)
                trial[which] = int(v) if which == "order" else v
                if len(cur["acc"]) and not ct_valid(trial):
                    continue
            o, ok = do_set(inst, CT_SET[which][1], v)
            ops.append("%s %s" % (CT_SET[which][0], qlit(model_num(v) if which == "order" else float(v))))
            outs.append(o)
            log.append("%s=%r%s" % (CT_SET[which][1], v, "" if ok else " (rejected)"))
            if ok:
                cur[which] = int(v) if which == "order" else v
                past[which].append(v)
                ct_table_add(table, mod, cur, cur["acc"])
                stale_window |= read_seen
        elif r < 0.8:
            q = rng.random()
            if q < 0.2:
                v = rng.choice([((0.0, 3),), ((-400.0, 3),), ((-0.0, 2),), ((500.0, 0),), ((500.0, -2),), ((500.0, 3), (600.0, 0)),
                                [(500.0, 2), (-5e-324, 2)], ((500.0, -0.0),)])
                STATS["guard value in accommodated_spectra"] += 1
            elif q < 0.35:
                v = pick_past(rng, past["acc"])
            elif q < 0.6 and len(cur["acc"]):
                # after the caches were filled: the same NUMBER of accommodated spectra, other content / permuted / one changed
                read_all(rng, inst, enc, "CtGet", ops, outs, log, ("CtGetW2p", "CtGetWl"))
                read_seen = True
                base = [(float(w), int(n)) for w, n in cur["acc"]]
                v = form_acc(rng, list_variant(rng, base, lambda i: (
                    rng.choice([dyadic(rng, 300, 800, 3), rng.uniform(300, 800)]), rng.choice([base[i][1], rng.randint(1, 6)]))))
            else:
                v = ct_gen_param(rng, "acc")
            if q >= 0.2 and len(v) and not ct_valid(cur, v):
                continue
            o, ok = do_set(inst, "accommodated_spectra", v)
            ops.append("CtSetAcc %s" % acc_txt(v))
            outs.append(o)
            log.append("accommodated_spectra=%r%s" % (v, "" if ok else " (rejected)"))
            if ok:
                cur["acc"] = v
                past["acc"].append(v)
                ct_table_add(table, mod, cur, v)
                stale_window |= read_seen
        elif r < 0.88:
            v = pick_past(rng, past["mbpp"]) if rng.random() < 0.25 else gen_mbpp(rng)
            o, ok = do_set(inst, "min_bins_per_pixel", v)
            ops.append("CtSetMbpp %s" % qlit(model_num(v)))
            outs.append(o)
            log.append("min_bins_per_pixel=%r%s" % (v, "" if ok else " (rejected)"))
            if ok:
                cur["mbpp"] = int(v)
                past["mbpp"].append(v)
                stale_window |= read_seen
        elif r < 0.94:
            v, vs = pick_past(rng, past["name"]) if rng.random() < 0.25 else gen_name(rng)
            o, ok = do_set(inst, "name", v)
            ops.append("CtSetName %s" % cstr(vs))
            outs.append(o)
            log.append("name=%r" % (v,))
            cur["name"] = vs
            past["name"].append((v, vs))
        else:
            which = rng.choice(["CtGetW2p", "CtGetWl"])
            ops.append(which)
            outs.append(enc.arrs(inst.wavelength_to_pixel if which == "CtGetW2p" else inst.wavelengths))
            log.append(which)
    for gi in rng.sample(range(5), 5):
        ops.append("CtGet %s" % GETTERS[gi][0])
        outs.append(do_get(inst, enc, gi))
    ops += ["CtGetW2p", "CtGetWl"]
    outs += [enc.arrs(inst.wavelength_to_pixel), enc.arrs(inst.wavelengths)]
    tab_txt = "[" + "; ".join(
        "({| k_order := %s; k_grating := %s; k_focal := %s; k_spacing := %s; k_angle := %s |}, (%s, %s), [%s])" % (
            zl(k[0]), qlit(k[1]), qlit(k[2]), qlit(k[3]), qlit(k[4]), qlit(TRIG[k][0]), qlit(TRIG[k][1]),
            "; ".join("(%s, %s)" % (qlit(w), qlit(r)) for w, r in ent.items()))
        for k, ent in table.items()) + "]"
    case = "check_ct_full %s %s %s [%s] [%s]" % (qlit(D2R), tab_txt, p_txt, "; ".join(ops), "; ".join(outs))
    return {"case": case, "cur": cur, "inst": inst, "kind": "czerny-turner", "log": log, "side": side,
            "init": {k: c[k] for k in c}, "stale_window": stale_window}


# ---------------------------------------------------------------------------------------------
# Polychromator histories and filters
# ---------------------------------------------------------------------------------------------
def gen_filter_spec(rng, around=None):
    """('trap', c, w, ft) or ('gen', wavelengths, samples); mostly valid.  around = (lo, hi): a filter that encloses
    that interval on both sides, or shares one of its ends (nesting / order classes)"""
    s = gen_scale(rng)
    if rng.random() < 0.7 or around:
        c = rng.choice([dyadic(rng, 300, 900, 3), rng.uniform(300, 900), 656.1, 464.8, float(rng.randint(300, 900))])
        w = rng.choice([3.0, dyadic(rng, 0.5, 12, 4), rng.uniform(0.5, 12), float(rng.randint(1, 12))])
        if around:
            lo, hi = around
            c, w, s = 0.5 * (lo + hi), (hi - lo) * (1 + rng.choice([0.25, 1.0, 4.0])), 1.0
            if rng.random() < 0.3:
                c = lo + 0.5 * w                       # same lower end as the enclosed filter (up to rounding)
        r = rng.random()
        if r < 0.3:
            ft = None
        elif r < 0.4:
            ft = w * s
        elif r < 0.45:
            ft = rng.choice([0.0, -0.0, False])        # 'flat_top or window' -> window
        elif r < 0.5:
            ft = ulp_dn(w * s)                         # one ulp below the window: not the 'flat_top == window' shortcut
            STATS["filter:flat_top one ulp below window"] += 1
        elif r < 0.53:
            ft = 5e-324
        elif r < 0.56 and w * s > 1:
            ft = True                                  # a bool is a number: flat_top = 1
        else:
            ft = w * s * rng.choice([0.25, 0.5, 0.75, rng.uniform(0.05, 0.99)])
        c, w = c * s, w * s
        return ("trap", form_real(rng, c), form_real(rng, w), ft)
    n = rng.randint(2, 6)
    a = rng.choice([dyadic(rng, 300, 900, 3), rng.uniform(300, 900), float(rng.randint(300, 900))])
    ws = [a]
    for _ in range(n - 1):
        ws.append(ws[-1] + rng.choice([dyadic(rng, 0.25, 5, 4), rng.uniform(0.2, 5), float(rng.randint(1, 4))]))
    ws = [x * s for x in ws]
    order = rng.choice(["sorted", "reversed", "shuffled", "shuffled", "largest first", "smallest last"])
    STATS["filter nodes:" + order] += 1
    if order == "reversed":
        ws = ws[::-1]
    elif order == "shuffled":
        rng.shuffle(ws)
    elif order == "largest first":
        ws = [ws[-1]] + ws[:-1]
    elif order == "smallest last":
        ws = ws[1:] + [ws[0]]
    samples = [rng.choice([0.0, 0.5, 1.0, rng.uniform(0, 1)]) for _ in ws]
    k = rng.randrange(4)
    if k == 1:
        ws, samples = tuple(ws), tuple(samples)
    elif k == 2:
        ws, samples = np.array(ws), np.array(samples, dtype=np.float32)
    elif k == 3 and all(float(x).is_integer() for x in ws):
        ws = [int(x) for x in ws]
        STATS["filter:int wavelengths"] += 1
    return ("gen", ws, samples)


def gen_bad_trap(rng):
    return rng.choice([("trap", 0.0, 3.0, None), ("trap", -500.0, 3.0, 1.0), ("trap", 500.0, 0.0, None),
                       ("trap", 500.0, -2.0, 1.0), ("trap", 500.0, 3.0, -1.0), ("trap", 500.0, 3.0, 3.5),
                       ("trap", 500.0, 3.0, 3.0000000000000004), ("trap", -0.0, 3.0, None), ("trap", 500.0, -0.0, None),
                       ("trap", 500, 3, -5e-324), ("trap", -5e-324, 3.0, 1.0), ("trap", 500.0, 5e-324, 1.0),
                       ("gen", [], []), ("gen", [500.0], [1.0]), ("gen", [500.0, 500.0], [1.0, 0.5]), ("gen", [500], [0])])


def build_filter(mod, spec, name):
    if spec[0] == "trap":
        if float(spec[2]) == float(DEFAULTS[("TrapezoidalFilter", "window")]) and spec[3] is DEFAULTS[("TrapezoidalFilter", "flat_top")] \
                and type(spec[2]) is float:
            STATS["ctor:defaults"] += 1
            return mod.TrapezoidalFilter(spec[1], name=name)          # default window and flat_top
        return mod.TrapezoidalFilter(spec[1], spec[2], spec[3], name)
    return mod.PolychromatorFilter(spec[1], spec[2], name=name)


def filter_model_txt(spec, fid, name):
    if spec[0] == "trap":
        ft = "None" if spec[3] is None else "(Some %s)" % qlit(float(spec[3]))
        return "mk_trapezoid round53 eps15 %s %s %s %s %s" % (zl(fid), cstr(name), qlit(float(spec[1])), qlit(float(spec[2])), ft)
    return "mk_filter round53 %s %s %s" % (zl(fid), cstr(name), qlist([float(x) for x in spec[1]]))


def filter_case(rng, mod):
    spec = gen_bad_trap(rng) if rng.random() < 0.3 else gen_filter_spec(rng)
    st, f = call(lambda: build_filter(mod, spec, "f"))
    if st == "err":
        impl = "(Err %s)" % f
    else:
        impl = "(Ok (%s, %s, %s, %s))" % (qlit(float(f.min_wavelength)), qlit(float(f.max_wavelength)), qlit(float(f.window)),
                                        qlit(float(f.central_wavelength)))
        if f.name != "f":
            impl = "(Err ErrOther)"
    return {"case": "filter_eqb (%s) %s" % (filter_model_txt(spec, 0, "f"), impl), "spec": spec,
            "ok": st == "ok", "kind": "filter", "fails": filter_claims(spec, st, f)}


def filter_claims(spec, st, f):
    """executable statement for one filter: 'the range covers every ... filter' starts with the filter's own declared range
    covering the nodes it was built from; window = max - min >= 0, central wavelength = midpoint"""
    valid = spec[0] == "gen" and len(spec[1]) >= 1 and len(spec[1]) == len(spec[2])
    if spec[0] == "trap":
        c, w, ft = float(spec[1]), float(spec[2]), spec[3]
        valid = c > 0 and w > 0 and (ft is None or not ft or 0 < float(ft) <= w)
    if not valid:
        return []
    if st != "ok":
        return ["constructing the filter from valid arguments raised %s" % f]
    mn, mx, win, cen = float(f.min_wavelength), float(f.max_wavelength), float(f.window), float(f.central_wavelength)
    nodes = [float(x) for x in spec[1]] if spec[0] == "gen" else [float(spec[1]) - 0.5 * float(spec[2]), float(spec[1]) + 0.5 * float(spec[2])]
    fails = []
    if not (mn <= min(nodes) and max(nodes) <= mx):
        fails.append("declared range [%r, %r] of the filter does not cover its nodes [%r, %r]" % (mn, mx, min(nodes), max(nodes)))
    if win != mx - mn or win < 0:
        fails.append("window %r is not max - min = %r (or is negative)" % (win, mx - mn))
    if cen != 0.5 * (mx + mn) or not (min(nodes) <= cen <= max(nodes)):
        fails.append("central wavelength %r is not the midpoint of the nodes' range [%r, %r]" % (cen, min(nodes), max(nodes)))
    return fails


def pc_history(rng, mod, quick):
    # a pool of filter objects; the model gets the same filters through mk_trapezoid / mk_filter
    pool, fid = [], {}
    trace_start("polychromator", "building the pool of filters")
    for i in range(rng.randint(2, 5)):
        around = None
        if pool and rng.random() < 0.35:
            g = pool[rng.randrange(len(pool))][0]
            around = (float(g.min_wavelength), float(g.max_wavelength))
            STATS["filters:one encloses / shares an end with another"] += 1
        spec = gen_filter_spec(rng, around)
        name = rng.choice(["f%d" % i, "H-alpha filter", "CIII 465 nm", ""])
        TRACE["steps"].append("build filter %r name=%r" % (spec, name))
        f = build_filter(mod, spec, name)
        pool.append((f, spec, name))
        fid[id(f)] = i
    rng.shuffle(pool)
    fid = {id(f): i for i, (f, _, _) in enumerate(pool)}
    enc = Enc(fid)

    def ftxt(i):
        f, spec, name = pool[i]
        return "(res_opt (%s))" % filter_model_txt(spec, i, name)

    def gen_filters(allow_bad=True):
        r = rng.random()
        if allow_bad and r < 0.1:
            idx = [rng.randrange(len(pool)) for _ in range(rng.randint(1, 3))]
            pos = rng.randrange(len(idx) + 1)
            val = [pool[i][0] for i in idx]
            val.insert(pos, rng.choice([None, 3.0, "filter", mod.TrapezoidalFilter]))
            txt = [ftxt(i) for i in idx]
            txt.insert(pos, "None")
            return val, "[" + "; ".join(txt) + "]", idx, False
        if allow_bad and r < 0.17:
            return rng.choice([[], ()]), "[]", [], True
        idx = [rng.randrange(len(pool)) for _ in range(rng.randint(1, 4))]
        if rng.random() < 0.15:
            idx = list(range(len(pool))) * rng.choice([1, 2])      # every filter, possibly each twice
        val = [pool[i][0] for i in idx]
        if rng.random() < 0.5:
            val = tuple(val)
        return val, "[" + "; ".join(ftxt(i) for i in idx) + "]", idx, True

    fv, ftx, fidx, _ = gen_filters(allow_bad=False)
    mbpw = rng.randint(1, 20)
    name = rng.choice(NAMES)
    r = rng.random()
    if r < 0.15:
        mbpw, name = DEFAULTS[("Polychromator", "min_bins_per_window")], DEFAULTS[("Polychromator", "name")]
        inst = mod.Polychromator(fv)
        STATS["ctor:defaults"] += 1
    elif r < 0.3:
        inst = mod.Polychromator(name=name, filters=fv, min_bins_per_window=mbpw)
        STATS["ctor:keywords"] += 1
    else:
        inst = mod.Polychromator(fv, mbpw, name)
    p_txt = "{| pcp_filters := %s; pcp_mbpw := %s; pcp_name := %s |}" % (ftx, qlit(mbpw), cstr(name))
    cur = {"filters": fv, "fidx": fidx, "mbpw": mbpw, "name": name}
    past = {"filters": [(fv, ftx, fidx)], "mbpw": [mbpw], "name": [(name, name)]}
    ops, outs, log = [], ["OUnit"], []
    trace_start("polychromator", {"pool": [(sp_, n_) for _, sp_, n_ in pool], "filters": fidx, "mbpw": mbpw, "name": name}, log)
    stale_window = read_seen = False
    for _ in range(rng.randint(2, 10 if quick else 16)):
        r = rng.random()
        if r < 0.4:
            gi = rng.randrange(5)
            ops.append("PcGet %s" % GETTERS[gi][0])
            outs.append(do_get(inst, enc, gi))
            log.append(GETTERS[gi][1])
            read_seen = True
        elif r < 0.45:
            if rng.random() < 0.5:
                read_all(rng, inst, enc, "PcGet", ops, outs, log)
            else:
                do_create_pipelines(inst, enc, "PcGet", ops, outs, log)
            read_seen = True
        elif r < 0.65:
            q = rng.random()
            if q < 0.2:
                v, vt, idx = pick_past(rng, past["filters"])
            elif q < 0.5 and len(cur["fidx"]):
                # after the caches were filled: the same NUMBER of filters, other filters / permuted / one replaced
                read_all(rng, inst, enc, "PcGet", ops, outs, log)
                read_seen = True
                idx = list_variant(rng, cur["fidx"], lambda i: rng.choice([j for j in range(len(pool)) if j != cur["fidx"][i]]))
                v = [pool[i][0] for i in idx]
                if rng.random() < 0.5:
                    v = tuple(v)
                vt = "[" + "; ".join(ftxt(i) for i in idx) + "]"
            else:
                v, vt, idx, _ = gen_filters()
            o, ok = do_set(inst, "filters", v)
            ops.append("PcSetFilters %s" % vt)
            outs.append(o)
            log.append("filters=%s%s" % (idx, "" if ok else " (rejected)"))
            if ok:
                cur["filters"], cur["fidx"] = v, idx
                past["filters"].append((v, vt, idx))
                stale_window |= read_seen
        elif r < 0.85:
            v = pick_past(rng, past["mbpw"]) if rng.random() < 0.25 else gen_mbpp(rng)
            o, ok = do_set(inst, "min_bins_per_window", v)
            ops.append("PcSetMbpw %s" % qlit(model_num(v)))
            outs.append(o)
            log.append("min_bins_per_window=%r%s" % (v, "" if ok else " (rejected)"))
            if ok:
                cur["mbpw"] = int(v)
                past["mbpw"].append(v)
                stale_window |= read_seen
        else:
            v, vs = pick_past(rng, past["name"]) if rng.random() < 0.25 else gen_name(rng)
            o, ok = do_set(inst, "name", v)
            ops.append("PcSetName %s" % cstr(vs))
            outs.append(o)
            log.append("name=%r" % (v,))
            cur["name"] = vs
            past["name"].append((v, vs))
            stale_window |= read_seen
    for gi in rng.sample(range(5), 5):
        ops.append("PcGet %s" % GETTERS[gi][0])
        outs.append(do_get(inst, enc, gi))
    ops.append("PcGetFilters")
    outs.append("OArrs [%s]" % "; ".join("[%s]" % qlit(enc.fid.get(id(f), -1)) for f in inst.filters))
    case = "check_pc %s [%s] [%s]" % (p_txt, "; ".join(ops), "; ".join(outs))
    return {"case": case, "cur": cur, "inst": inst, "kind": "polychromator", "log": log, "enc": enc,
            "init": {"filters": fidx, "mbpw": mbpw, "name": name,
                     "pool": [(s, n) for _, s, n in pool]}, "stale_window": stale_window}


def pc_search(h, mod):
    inst, cur, enc = h["inst"], h["cur"], h["enc"]
    fails = []
    if len(cur["filters"]) == 0:
        return None                       # degenerate instrument without filters: no range to speak of
    fresh = mod.Polychromator(cur["filters"], cur["mbpw"], cur["name"])
    if int(inst.min_bins_per_window) != cur["mbpw"] or inst.name != cur["name"] or \
            [id(f) for f in inst.filters] != [id(f) for f in cur["filters"]]:
        fails.append("public parameters differ from the last accepted assignments")
    a, b = snapshot(inst, enc, arrays=False), snapshot(fresh, enc, arrays=False)
    for k in a:
        if a[k] != b[k]:
            fails.append("%s of the mutated polychromator %r != %r of one constructed with the final parameters"
                         % (k, a[k], b[k]))
    if a["min_wavelength"][0] == "ok" and a["spectral_bins"][0] == "ok":
        mn, mx, bins = float(inst.min_wavelength), float(inst.max_wavelength), inst.spectral_bins
        intervals = [(float(f.min_wavelength), float(f.max_wavelength)) for f in inst.filters]
        narrowest = min(Fraction(float(f.window)) for f in inst.filters)
        fails += range_and_width_claims(mn, mx, bins, intervals, narrowest, cur["mbpw"])
        if len(cur["filters"]) >= 2:
            want = (a["min_wavelength"], a["max_wavelength"], a["spectral_bins"])
            fl = list(cur["filters"])
            for perm, label in ((fl[::-1], "reversed"), (fl[1:] + fl[:1], "rotated")):
                o = mod.Polychromator(perm, cur["mbpw"], cur["name"])
                got = tuple(snapshot(o, enc, arrays=False)[k] for k in ("min_wavelength", "max_wavelength", "spectral_bins"))
                if got != want:
                    fails.append("settings depend on the order of the filters: %s list gives %r, original %r" % (label, got, want))
                    break
    msg = check_pipelines(inst, a)
    if msg:
        fails.append(msg)
    return fails


# ---------------------------------------------------------------------------------------------
# calibrate
# ---------------------------------------------------------------------------------------------
def exact_pl_integral(xs, ys, a, b):
    """integral over [a,b] of the linear interpolant of (xs, ys) with constant extrapolation, in Fractions"""
    xs = [Fraction(x) for x in xs]
    ys = [Fraction(y) for y in ys]
    a, b = Fraction(a), Fraction(b)
    tot = Fraction(0)
    if a < xs[0]:
        tot += ys[0] * (min(b, xs[0]) - a)
    if b > xs[-1]:
        tot += ys[-1] * (b - max(a, xs[-1]))
    for i in range(len(xs) - 1):
        u, v = max(a, xs[i]), min(b, xs[i + 1])
        if v > u:
            m = (ys[i + 1] - ys[i]) / (xs[i + 1] - xs[i])
            yu, yv = ys[i] + m * (u - xs[i]), ys[i] + m * (v - xs[i])
            tot += (yu + yv) / 2 * (v - u)
    return tot


CAL_EDGE_STYLES = ["dyadic", "full", "survey", "hires", "two", "intratio", "integer", "uniform", "nearuniform", "nearuniform"]


def cal_layout(rng, quick, s):
    """pixel layout, spectrum range and binning of one calibration; all wavelengths scaled by s (a power of two)"""
    style = rng.choice(["aligned", "fine", "coarse", "random", "random", "tight", "narrow-range", "guard-ulp", "nested"])
    STATS["calibrate:" + style] += 1
    if style == "aligned":
        # pixel edges on bin edges (dyadic)
        a = float(rng.randint(300, 800))
        delta = 2.0 ** rng.randint(-4, -1)
        nb = rng.randint(8, 40 if quick else 120)
        smin, smax = a, a + nb * delta
        cuts = sorted(rng.sample(range(0, nb + 1), rng.randint(2, min(8, nb + 1))))
        cuts[0], cuts[-1] = 0, nb
        w2p = [[a + c * delta for c in cuts]]
        bins = nb
    else:
        n = rng.choice([1, 1, 2, 3])
        w2p = [gen_edges(rng, rng.choice(CAL_EDGE_STYLES))[0] for _ in range(n)]
        if style == "nested":
            inner = w2p[0]
            k = rng.randint(2, 6)
            lo_, hi_ = inner[0] - dyadic(rng, 0.5, 10, 4), inner[-1] + dyadic(rng, 0.5, 10, 4)
            broad = [lo_ + (hi_ - lo_) * t / k for t in range(k + 1)]
            w2p = [inner, broad] if rng.random() < 0.5 else [broad, inner]
        lo, hi = min(w[0] for w in w2p), max(w[-1] for w in w2p)
        narrow = min(y - x for w in w2p for x, y in zip(w, w[1:]))
        if style == "tight":
            smin, smax = lo, hi
        elif style == "narrow-range":
            if rng.random() < 0.5:
                smin, smax = lo + (hi - lo) * 2.0 ** -10, hi + 1.0
            else:
                smin, smax = lo - 1.0, hi - (hi - lo) * 2.0 ** -10
        elif style == "guard-ulp":
            # exactly at, one ulp inside and one ulp outside the two comparisons of the guard (:153)
            smin, smax = lo - 1.0, hi + 1.0
            k = rng.randrange(6)
            if k == 0:
                smin = ulp_up(lo)          # rejected
            elif k == 1:
                smin = ulp_dn(lo)
            elif k == 2:
                smax = ulp_dn(hi)          # rejected
            elif k == 3:
                smax = ulp_up(hi)
            elif k == 4:
                smin = lo
            else:
                smax = hi
        else:
            smin, smax = lo - rng.uniform(0, 5), hi + rng.uniform(0, 5)
        if style == "coarse":
            bins = rng.randint(1, 6)             # N = 1, 2: a spectrum of one or two bins
        elif style == "fine":
            bins = min(max(int((smax - smin) / narrow * rng.randint(2, 4)), 4), 60 if quick else 300)
        else:
            bins = rng.choice([rng.randint(2, 50 if quick else 200), 9, 10, 11] + ([] if quick else [99, 100, 101]))
    if s != 1.0:
        w2p = [[x * s for x in w] for w in w2p]
        smin, smax = smin * s, smax * s
    return style, w2p, smin, smax, bins


def cal_cases(rng, mod, Spectrum, quick):
    """ONE live Spectrometer calibrating up to three spectra; its layout / min_bins_per_pixel are changed through the
    setters in between, and the Spectrum object is re-used with new samples where the binning allows it.  Every
    calibration is one case for the (stateless) model fed the configuration current at that step."""
    out = []
    s = gen_scale(rng, 0.25)
    inst, sp, side = None, None, []
    nsteps = rng.choice([1, 1, 2, 3])
    STATS["calibrate:steps on one instrument=%d" % nsteps] += 1
    for step in range(nsteps):
        style, w2p, smin, smax, bins = cal_layout(rng, quick, s)
        mbpp = rng.randint(1, 5)
        if inst is None:
            inst = mod.Spectrometer(form_w2p(rng, w2p), mbpp, "cal")
            if rng.random() < 0.5:
                inst.min_wavelength                       # cache filled before the layout is replaced and restored
                other, _ = gen_w2p(rng, allow_bad=False)
                inst.wavelength_to_pixel = other
                inst.wavelength_to_pixel = w2p
        else:
            if rng.random() < 0.7:
                inst.wavelength_to_pixel = form_w2p(rng, w2p)
            else:                                          # keep the layout, re-use it for another spectrum
                w2p = prev_w2p
                lo, hi = min(w[0] for w in w2p), max(w[-1] for w in w2p)
                smin, smax = lo - abs(lo) * rng.choice([0.0, 0.01]), hi + abs(hi) * rng.choice([0.0, 0.01])
            inst.min_bins_per_pixel = mbpp
        prev_w2p = w2p
        if sp is not None and rng.random() < 0.7 and sp.min_wavelength <= min(w[0] for w in w2p) and sp.max_wavelength >= max(w[-1] for w in w2p):
            smin, smax, bins = sp.min_wavelength, sp.max_wavelength, sp.bins      # the same Spectrum object, new samples
            STATS["calibrate:Spectrum object re-used"] += 1
        else:
            sp = Spectrum(smin, smax, bins)
        kind = rng.choice(["uniform", "spiky", "ramp", "zeros-and-spike", "all-zero", "constant"])
        if kind == "uniform":
            sp.samples[:] = [rng.uniform(0, 10) for _ in range(bins)]
        elif kind == "spiky":
            sp.samples[:] = [rng.choice([0.0, 0.0, rng.uniform(0, 100)]) for _ in range(bins)]
        elif kind == "ramp":
            sp.samples[:] = [float(i) / 4 for i in range(bins)]
        elif kind == "all-zero":
            sp.samples[:] = 0.0
        elif kind == "constant":
            sp.samples[:] = dyadic(rng, 1, 50, 3)
        else:
            sp.samples[:] = 0.0
            sp.samples[rng.randrange(bins)] = dyadic(rng, 1, 50, 3)
        if rng.random() < 0.1:
            # second-order call site: the isinstance guard (:151), an outcome of the model's calibrate_call
            st0, v0 = call(lambda: inst.calibrate(rng.choice([np.array(sp.samples), list(sp.samples), None, 1.0])))
            STATS["calibrate:non-Spectrum argument"] += 1
            p0 = "{| spp_mbpp := %s; spp_w2p := %s; spp_name := %s |}" % (qlit(mbpp), qarrs(w2p), cstr("cal"))
            impl0 = "(Err %s)" % v0 if st0 == "err" else "(Ok %s)" % qarrs(v0)
            out.append({"case": "check_cal_arg %s ANotSpectrum %s" % (p0, impl0), "kind": "calibrate", "style": "not-a-Spectrum",
                        "samples": "-", "w2p": w2p, "smin": 0.0, "smax": 0.0, "bins": 0, "ys": [], "xs": [], "st": "type",
                        "step": step, "scale": s, "val": v0 if st0 == "err" else "accepted", "integ": None,
                        "imin": 0.0, "imax": 0.0, "side": []})
        st, val = call(lambda: inst.calibrate(sp))
        imin, imax = float(inst.min_wavelength), float(inst.max_wavelength)
        xs = [float(x) for x in sp.wavelengths]
        ys = [float(y) for y in sp.samples]
        if st == "ok":
            impl = "(Ok %s)" % qarrs(val)
        else:
            impl = "(Err %s)" % val
        p_txt = "{| spp_mbpp := %s; spp_w2p := %s; spp_name := %s |}" % (qlit(mbpp), qarrs(w2p), cstr("cal"))
        case = "check_cal %s %s %s %s %s %s" % (p_txt, qlit(float(smin)), qlit(float(smax)), qlist(xs), qlist(ys), impl)
        integ = None
        if st == "ok":      # the implementation's own integrals, taken now (the Spectrum object may be re-used later)
            integ = [[float(sp.integrate(w[i], w[i + 1])) for i in range(len(w) - 1)] for w in w2p]
        out.append({"case": case, "kind": "calibrate", "style": style, "samples": kind, "w2p": w2p, "smin": float(smin),
                    "smax": float(smax), "bins": bins, "ys": ys, "xs": xs, "st": st, "step": step, "scale": s,
                    "val": [list(map(float, v)) for v in val] if st == "ok" else val, "integ": integ,
                    "imin": imin, "imax": imax, "side": side if step == nsteps - 1 else []})
    return out


def cal_search(h):
    """value*width == the spectrum's integral over the pixel; sum over adjacent pixels == integral over their union"""
    fails = []
    if h["st"] == "type":
        return fails                   # not a Spectrum: outside the property's quantifier; tied by the correspondence
    covers = h["smin"] <= h["imin"] and h["smax"] >= h["imax"]
    if h["st"] != "ok":
        if covers:
            fails.append("calibrate raised %s for a spectrum whose range covers the instrument" % h["val"])
        return fails
    if not covers:
        # outside the property's quantifier (spectra covering the instrument); the guard itself is tied by the correspondence
        return fails
    scale = max(h["ys"]) if max(h["ys"]) > 0 else 1.0
    if len(h["val"]) != len(h["w2p"]):
        return ["calibrate returned %d arrays for %d accommodated spectra" % (len(h["val"]), len(h["w2p"]))]
    for w, vals, ints in zip(h["w2p"], h["val"], h["integ"]):
        if len(vals) != len(w) - 1:
            fails.append("calibrate returned %d values for %d pixels" % (len(vals), len(w) - 1))
            break
        tot = Fraction(0)
        for i, v in enumerate(vals):
            width = Fraction(w[i + 1]) - Fraction(w[i])
            have = Fraction(v) * width
            want_impl = Fraction(ints[i])
            want_exact = exact_pl_integral(h["xs"], h["ys"], w[i], w[i + 1])
            tol = Fraction(1e-10) * Fraction(scale) * width
            if abs(have - want_impl) > tol or abs(have - want_exact) > tol:
                fails.append("pixel %d [%r, %r]: value*width = %r, spectrum.integrate = %r, exact integral of the interpolant = %r"
                             % (i, w[i], w[i + 1], float(have), float(want_impl), float(want_exact)))
                break
            tot += have
        else:
            whole = exact_pl_integral(h["xs"], h["ys"], w[0], w[-1])
            if abs(tot - whole) > Fraction(1e-10) * Fraction(scale) * (Fraction(w[-1]) - Fraction(w[0])):
                fails.append("sum of value*width over the pixels %r != integral over their union %r" % (float(tot), float(whole)))
    return fails


# ---------------------------------------------------------------------------------------------
# calibrate on long detector arrays (search only: the executable clause on the implementation)
# ---------------------------------------------------------------------------------------------
def gen_long_edges(rng, n):
    """(edges, class label) of one detector row of n pixels: exactly uniform, nearly uniform (relative width drift
    1e-9 .. 1e-4: linear, quadratic, sinusoidal, random jitter, one odd pixel) or clearly non-uniform"""
    l0 = rng.choice([float(rng.randint(300, 800)), rng.uniform(300, 800)])
    b = rng.choice([2.0 ** -rng.randint(4, 8), rng.uniform(0.004, 0.05)])
    cls = rng.choice(["uniform", "uniform", "near:linear", "near:quadratic", "near:sine", "near:jitter", "near:one pixel",
                      "near:linear", "near:quadratic", "near:jitter", "nonuniform:growth", "nonuniform:random"])
    p = np.arange(n + 1, dtype=float)
    if cls == "uniform":
        edges = l0 + b * p                                       # widths equal up to the rounding of the edges
    elif cls.startswith("near"):
        d = 10.0 ** rng.uniform(-9, -4) * rng.choice([1.0, -1.0])
        t = np.arange(n, dtype=float) / n
        if cls == "near:linear":
            f = t
        elif cls == "near:quadratic":
            f = t * t
        elif cls == "near:sine":
            f = np.sin(2 * np.pi * rng.randint(1, 5) * t)
        elif cls == "near:jitter":
            f = np.array([rng.uniform(-1, 1) for _ in range(n)])
        else:
            f = np.zeros(n)
            f[rng.randrange(n)] = 1.0
        edges = np.concatenate(([l0], l0 + np.cumsum(b * (1.0 + d * f))))
        cls += " drift %.0e" % abs(d)
    elif cls == "nonuniform:growth":
        g = 1.0 + 10.0 ** rng.uniform(-3, -1.3)
        edges = np.concatenate(([l0], l0 + np.cumsum(b * g ** np.minimum(np.arange(n), 200))))
    else:
        edges = np.concatenate(([l0], l0 + np.cumsum([b * rng.uniform(0.3, 3.0) for _ in range(n)])))
    return [float(x) for x in edges], cls


def pl_cumulative(xs, ys, t):
    """antiderivative (from xs[0]) at the points t of the linear interpolant of (xs, ys) with constant extrapolation;
    independent of raysect and of the code under test (NumPy, vectorised)"""
    xs, ys, t = np.asarray(xs), np.asarray(ys), np.asarray(t)
    G = np.concatenate(([0.0], np.cumsum(0.5 * (ys[1:] + ys[:-1]) * np.diff(xs)))) if len(xs) > 1 else np.zeros(1)
    out = np.empty(len(t))
    lo, hi = t <= xs[0], t >= xs[-1]
    out[lo] = ys[0] * (t[lo] - xs[0])
    out[hi] = G[-1] + ys[-1] * (t[hi] - xs[-1])
    mid = ~(lo | hi)
    if mid.any():
        k = np.searchsorted(xs, t[mid], side="right") - 1
        dx = t[mid] - xs[k]
        m = (ys[k + 1] - ys[k]) / (xs[k + 1] - xs[k])
        out[mid] = G[k] + (ys[k] + 0.5 * m * dx) * dx
    return out


def long_cal_case(rng, mod, Spectrum, quick):
    """one Spectrometer with one or two long pixel rows calibrating a spectrum with narrow features inside single pixels
    and across pixel edges; returns the case with the list of failed claims (empty on a correct implementation)"""
    nmax = 400 if quick else 2000
    rows, classes = [], []
    for _ in range(rng.choice([1, 1, 2])):
        n = rng.choice([rng.randint(20, nmax), rng.randint(100, nmax), nmax])
        e, c = gen_long_edges(rng, n)
        rows.append(e)
        classes.append("%s n=%d" % (c.split(" drift")[0], n))
        STATS["long calibrate:" + c.split(" drift")[0]] += 1
    mbpp = rng.randint(1, 5 if quick else 3)
    inst = mod.Spectrometer(form_w2p(rng, rows), mbpp, "long")
    lo, hi = min(r[0] for r in rows), max(r[-1] for r in rows)
    grid = rng.choice(["instrument", "instrument", "wider", "coarse"])
    if grid == "instrument":       # the documented workflow: the spectrum the observer returns for this instrument
        smin, smax, bins = float(inst.min_wavelength), float(inst.max_wavelength), int(inst.spectral_bins)
    elif grid == "wider":
        smin, smax, bins = lo - rng.uniform(0, 2), hi + rng.uniform(0, 2), rng.randint(200, 3000 if quick else 8000)
    else:
        smin, smax, bins = lo - 1.0, hi + 1.0, rng.randint(5, 60)
    bins = min(bins, 4000 if quick else 20000)
    sp = Spectrum(smin, smax, bins)
    wl = np.array(sp.wavelengths)
    ys = np.full(bins, dyadic(rng, 0, 2, 3))
    feats = []
    for _ in range(rng.randint(1, 6)):
        r = rows[rng.randrange(len(rows))]
        i = rng.randrange(len(r) - 1)
        w = r[i + 1] - r[i]
        where = rng.choice(["inside", "edge", "edge"])
        c0 = r[i] + (rng.uniform(0.2, 0.8) * w if where == "inside" else 0.0)
        kind = rng.choice(["line", "line", "step", "spike"])
        if kind == "line":
            ys = ys + rng.uniform(5, 100) * np.exp(-0.5 * ((wl - c0) / (w * rng.uniform(0.2, 1.5))) ** 2)
        elif kind == "step":
            ys = ys + rng.uniform(5, 50) * (wl >= c0)
        else:
            ys[int(np.argmin(np.abs(wl - c0)))] += rng.uniform(10, 200)
        feats.append("%s %s pixel %d" % (kind, where, i))
    sp.samples[:] = ys
    ys = [float(y) for y in sp.samples]
    st, val = call(lambda: inst.calibrate(sp))
    h = {"kind": "calibrate-long", "classes": classes, "grid": grid, "features": feats, "mbpp": mbpp, "w2p": rows,
         "smin": float(smin), "smax": float(smax), "bins": bins, "ys": ys, "fails": [], "n_pixels": sum(len(r) - 1 for r in rows)}
    if st != "ok":
        h["fails"].append({"claim": "calibrate raised %s for a spectrum whose range covers the instrument" % val})
        return h
    scale = max(ys) if max(ys) > 0 else 1.0
    xs = [float(x) for x in sp.wavelengths]
    for ri, (r, vals) in enumerate(zip(rows, val)):
        if len(vals) != len(r) - 1:
            h["fails"].append({"claim": "calibrate returned %d values for %d pixels" % (len(vals), len(r) - 1), "array": ri})
            continue
        e = np.array(r)
        width = np.diff(e)
        have = np.array(vals, dtype=float) * width
        want_impl = np.array([sp.integrate(r[i], r[i + 1]) for i in range(len(r) - 1)])
        want_indep = np.diff(pl_cumulative(xs, ys, e))
        tol = 1e-9 * scale * width + 1e-13 * scale * (e[-1] - e[0])
        # measured margin: the largest deviation seen, as a fraction of the tolerance (goes into the evidence)
        h["max_dev_over_tol"] = max(h.get("max_dev_over_tol", 0.0),
                                    float(np.max(np.maximum(np.abs(have - want_impl), np.abs(have - want_indep)) / tol)))
        h["max_dev_rel"] = max(h.get("max_dev_rel", 0.0),
                               float(np.max(np.maximum(np.abs(have - want_impl), np.abs(have - want_indep)) / (scale * width))))
        bad = np.nonzero((np.abs(have - want_impl) > tol) | (np.abs(have - want_indep) > tol))[0]
        if len(bad):
            i = int(bad[np.argmax(np.abs(have - want_impl)[bad])])
            h["fails"].append({"claim": "calibrated value * pixel width != integral of the spectrum over the pixel",
                               "array": ri, "layout": classes[ri], "pixel": i, "pixel_edges": [r[i], r[i + 1]],
                               "observed_value_times_width": float(have[i]), "expected_spectrum_integrate": float(want_impl[i]),
                               "expected_independent_integral": float(want_indep[i]), "pixels_failing": int(len(bad)),
                               "pixels": len(r) - 1})
        tot, whole = float(have.sum()), float(sp.integrate(r[0], r[-1]))
        if abs(tot - whole) > 1e-9 * scale * (e[-1] - e[0]):
            h["fails"].append({"claim": "sum of value*width over the pixels != integral of the spectrum over their union",
                               "array": ri, "layout": classes[ri], "observed": tot, "expected": whole})
    return h


# ---------------------------------------------------------------------------------------------
def guarded_search(fn, h, *args):
    """the executable property for one case; an exception while evaluating it on the implementation is a failed claim"""
    try:
        return fn(h, *args)
    except Exception as e:
        import traceback
        return ["evaluating the property on the implementation raised %s: %s (%s)" % (
            type(e).__name__, str(e)[:200], [l.strip() for l in traceback.format_exc().splitlines() if l.strip().startswith("File")][-1][:160])]


def jsonable(o):
    if isinstance(o, dict):
        return {str(k): jsonable(v) for k, v in o.items()}
    if isinstance(o, (list, tuple)):
        return [jsonable(v) for v in o]
    if isinstance(o, np.ndarray):
        return jsonable(o.tolist())
    if isinstance(o, (np.floating, np.integer, np.bool_)):
        return o.item()
    if isinstance(o, (str, int, float, bool)) or o is None:
        return o
    return repr(o)


def run(ctx):
    ctx.trusted += [
        "Coq 8.16.1 kernel, vm_compute (no native_compute)",
        "harness/c16.py: history generators, encoding of call results as Coq terms, Q literal printer, comparators in Model/C16_Check.v",
        "round53 in Model/C16_Instruments.v as the meaning of one IEEE-754 double operation (+,-,*,/ in the normal range); "
        "every range, bin count and pixel array is compared EXACTLY under it (its relative-error bound 2^-53 is a theorem: "
        "C16_round53_relative_error, so C16_bin_width_bound_double / _polychromator_double need no hypothesis on the rounding)",
        "harness/c16_source.py: fail-closed ast translator (no code executed) from the current source to coq/Gen/C16/Source.v; the tables "
        "it is compared with (Model/C16_Source.v) are maintained by hand next to the model and linked to the model's setters by "
        "C16_setters_have_tabled_effects; whole-function bodies mirrored by hand (sp_derive, pc_derive, mk_filter, mk_trapezoid, calibrate, "
        "ct_update_w2p, create_pipelines) are pinned as normalised source text, i.e. any edit of them breaks the tie until the model is reviewed",
        "CzernyTurnerSpectrometer.resolution: the pixel recurrence uses a finite table filled from the resolution() method of a throw-away "
        "instrument with the same five parameters (exact comparison of the pixel arrays); every table entry is additionally checked inside Coq "
        "against the model's formula resolution_of by the certificate S >= 0, S^2 = cos^2 - p^2 (relative 2^-40; C16_resolution_certificate "
        "says what it means).  np.cos / np.tan of the stored angle enter as two numbers per parameter set, tied to each other by "
        "cos^2 (1 + tan^2) = 1 but not to the angle; sqrt is never evaluated; np.deg2rad(x) = round53(x * (pi/180)) for double arguments",
        "raysect Spectrum.integrate is modelled by its specification (integral of the linear interpolant of the samples at the bin "
        "centres, constant extrapolation) and tied under relative 2^-40; NumPy; CPython",
    ]
    ctx.assumptions += [
        "parameter changes are made through the public setters (a list handed to a setter is not mutated afterwards behind the instrument's back)",
        "'settings of an instrument constructed directly with the final parameters' is stated for final parameters on which "
        "_update_spectral_settings does not raise (at least one accommodated spectrum / filter); the degenerate cases are modelled and tied, "
        "but excluded from the observational-equality theorem",
        "Czerny-Turner parameters are physically meaningful (real, positive resolution over the accommodated range); coverage of the pixels "
        "by the range is proved for strictly increasing pixel arrays, which for Czerny-Turner is proved from resolution > 0 in exact arithmetic",
        "the bin-width bound is a theorem in exact arithmetic and, for doubles, up to the factor ((1+u)/(1-u))^2 with u = 2^-53",
    ]
    ctx.rebuild()
    ctx.proofs("Properties.C16", THEOREMS, extra_modules=("Model.C16_Check", "Proofs.C16_Check", "Model.C16_Source"))

    # ---- (T) the tables the model mirrors are regenerated from the current source; the kernel checks the tie -----
    from common import REPO
    import c16_source
    src_tab = c16_source.translate(REPO)
    DEFAULTS.clear()
    DEFAULTS.update(src_tab["py_defaults"])
    tie_ok, out = coqc(ctx.write_gen("Source.v", c16_source.coq_text(src_tab)), timeout=300)
    vals = parse_evals(out)
    src_diff = vals[0] if vals else "?"
    ctx.obligation("Gen/C16/Source.v: source_tie (%d setter/method rows, %d constructors, %d getters, %d defaults, %d pinned bodies, "
                   "member lists of %d classes, %d sites of 1.e-15)" % (
                       len(src_tab["setters"]) + len(src_tab["methods"]), len(src_tab["ctors"]), len(src_tab["getters"]),
                       len(src_tab["defaults"]), len(src_tab["consts"]), len(src_tab["members"]), len(src_tab["eps"])),
                   "tie", tie_ok, "rows that differ: %s\n%s" % (src_diff, out[-1500:]))
    ctx.log("source tie: %s" % ("ok" if tie_ok else "FAILS, rows that differ: " + src_diff))

    import cherab
    assert list(cherab.__path__) == [REPO + "/cherab"], cherab.__path__
    import warnings
    warnings.simplefilter("error", RuntimeWarning)      # NaN / overflow in the implementation must not pass silently
    from cherab.tools import spectroscopy as mod
    from raysect.optical import Spectrum

    rng = ctx.rng
    quick = ctx.quick
    enc0 = Enc()
    n_sp, n_ct, n_pc, n_cal, n_flt = (90, 55, 90, 56, 48) if quick else (1200, 800, 1200, 600, 360)

    hist = []
    STATS.clear()
    QUICK[0] = quick
    # corpus of past disagreements first
    corpus = sorted(glob.glob(os.path.join(VERIF, "corpus", "C16", "*.json")))
    CRASHES.clear()

    def add(h):
        if h is not None:
            hist.extend(h if isinstance(h, list) else [h])

    for _ in range(n_sp):
        add(safe_case(sp_history, rng, mod, enc0, quick))
    for _ in range(n_ct):
        add(safe_case(ct_history, rng, mod, enc0, quick))
    for _ in range(n_pc):
        add(safe_case(pc_history, rng, mod, quick))
    tries = 0
    while sum(1 for h in hist if h["kind"] == "calibrate") < n_cal and tries < 4 * n_cal:
        tries += 1
        add(safe_case(cal_cases, rng, mod, Spectrum, quick))
    for _ in range(n_flt):
        add(safe_case(filter_case, rng, mod))
    long_cases = [h for h in (safe_case(long_cal_case, rng, mod, Spectrum, quick) for _ in range(30 if quick else 160)) if h is not None]
    hist.sort(key=lambda h: h["kind"] != "calibrate")     # the expensive files are compiled first (stable sort)
    ctx.log("generated %d cases (%d corpus files present)" % (len(hist), len(corpus)))

    # ---- correspondence: the model is run by Coq ------------------------------------------------
    files = []
    n_calib = sum(1 for h in hist if h["kind"] == "calibrate")        # these come first (sorted above)
    bounds = list(range(0, n_calib, 15)) + list(range(n_calib, len(hist), 40)) + [len(hist)]
    for fi, (si, ei) in enumerate(zip(bounds, bounds[1:])):
        chunk = hist[si:ei]
        if not chunk:
            continue
        items = []
        for h in chunk:
            if h["kind"] in ("calibrate", "filter"):
                items.append("(if %s then 0 else 1)%%Z" % h["case"])
            else:
                items.append("(%s)" % h["case"])
        txt = (HEADER + "Definition res_opt {A} (r : res A) : option A := match r with Ok a => Some a | Err _ => None end.\n"
               "Definition results : list Z := [\n  " + ";\n  ".join(items) + "].\nEval vm_compute in results.\n")
        files.append((ctx.write_gen("cases_%03d.v" % fi, txt), list(range(si, ei))))
    res = coqc_many([f for f, _ in files], timeout=900)
    # a coqc process that died without any output was killed from outside (the machine is shared and the
    # kernel's OOM killer picks victims freely): run such files once more, one at a time
    for f, _ in files:
        ok, out = res[f]
        if not ok and not out.strip():
            ctx.log("coqc on %s died without output; retrying" % os.path.basename(f))
            res[f] = coqc(f, timeout=900)
    diff_cases = []
    for f, ids in files:
        ok, out = res[f]
        vals = parse_evals(out) if ok else []
        good = ok and len(vals) == 1
        codes = parse_zlist(vals[0]) if good else []
        good = good and len(codes) == len(ids)
        bad = [(ids[i], c) for i, c in enumerate(codes) if c != 0] if good else []
        ctx.obligation("correspondence %s (%d cases)" % (os.path.basename(f), len(ids)), "correspondence",
                       good and not bad, out if not good else "DIFF (case, first disagreeing call) %s" % bad)
        if not good:
            ctx.broken.append("coqc failed on %s: %s" % (f, out[-800:]))
        diff_cases += bad
    ctx.log("correspondence: %d cases in %d files, %d disagree" % (len(hist), len(files), len(diff_cases)))

    # ---- failing-input search: the property itself on the implementation ------------------------
    search_fails = []
    n_search = n_degenerate = 0
    for i, h in enumerate(hist):
        if h["kind"] in ("spectrometer", "czerny-turner"):
            if len(h["cur"]["arrs"] if h["kind"] == "spectrometer" else h["cur"]["acc"]) == 0:
                n_degenerate += 1
            fl = guarded_search(sp_search, h, mod, enc0)
        elif h["kind"] == "polychromator":
            fl = guarded_search(pc_search, h, mod)
            if fl is None:
                n_degenerate += 1
                continue
        elif h["kind"] == "calibrate":
            fl = guarded_search(cal_search, h)
        elif h["kind"] == "filter":
            fl = h["fails"]
        else:
            continue
        n_search += 1
        for msg in fl[:2]:
            search_fails.append((i, msg))
    long_fails = [(h, f) for h in long_cases for f in h["fails"][:1]]
    n_search += len(long_cases)
    ctx.obligation("executable property on the implementation (%d histories / calibrations, of which %d on long pixel rows, %d pixels)"
                   % (n_search, len(long_cases), sum(h["n_pixels"] for h in long_cases)), "search",
                   not search_fails and not long_fails, str(search_fails[:3]) + str([f for _, f in long_fails[:2]]))

    def replay_of(h):
        r = {k: h[k] for k in ("kind", "init", "log", "cur") if k in h}
        if h["kind"] == "calibrate":
            r = {k: h[k] for k in ("kind", "style", "samples", "w2p", "smin", "smax", "bins", "ys", "st", "val", "step", "scale")}
        if h["kind"] == "filter":
            r = {"kind": "filter", "spec": h["spec"], "how": "TrapezoidalFilter(c, window, flat_top) / PolychromatorFilter(wavelengths, samples)"}
        if "cur" in r:
            r["cur"] = {k: v for k, v in r["cur"].items() if k != "filters"}
        r["coq_case"] = h["case"][:4000]
        return jsonable(r)

    seen_keys = set()
    for i, msg in search_fails:
        h = hist[i]
        key = "c16:%s:%s" % (h["kind"], re.sub(r"[-+]?[0-9][0-9.e+-]*", "#", msg.split(" of the ")[0].split(":")[0])[:48])
        if key in seen_keys or len(seen_keys) >= 5:
            continue
        seen_keys.add(key)
        ctx.violation(key, "%s: %s" % (h["kind"], msg), replay_of(h), found=True)
    ctx.obligation("no exception escapes a case on valid inputs (%d cases generated, %d long rows)" % (len(hist), len(long_cases)),
                   "search", not CRASHES, str([(c["kind"], c["exception"]) for c in CRASHES[:3]]))
    seen_crash = set()
    for c in CRASHES:
        key = "c16:exception:%s:%s" % (c["kind"], c["exception"].split(":")[0])
        if key in seen_crash or len(seen_crash) >= 4:
            continue
        seen_crash.add(key)
        ctx.violation(key, "%s: the implementation (or digesting its answer) raised %s on a valid input after the history recorded in the replay; "
                      "%d cases of this run ended this way" % (c["kind"], c["exception"], sum(1 for x in CRASHES if x["kind"] == c["kind"])),
                      c, found=True)
    search_fails = search_fails + [(None, c["exception"]) for c in CRASHES]
    seen_long = set()
    for h, f in long_fails:
        key = "c16:calibrate-long:%s" % f["claim"][:40]
        if key in seen_long:
            continue
        seen_long.add(key)
        text = "calibrate: %s" % f["claim"]
        if "pixel" in f:
            text += (": %s, pixel %d [%r, %r]: value*width = %r, spectrum.integrate = %r, independent integral of the interpolant = %r "
                     "(%d of %d pixels fail)" % (f["layout"], f["pixel"], f["pixel_edges"][0], f["pixel_edges"][1],
                                                 f["observed_value_times_width"], f["expected_spectrum_integrate"],
                                                 f["expected_independent_integral"], f["pixels_failing"], f["pixels"]))
        rep = {k: h[k] for k in ("kind", "classes", "grid", "features", "mbpp", "smin", "smax", "bins")}
        rep.update({"failure": f, "wavelength_to_pixel": h["w2p"], "spectrum": {"min_wavelength": h["smin"], "max_wavelength": h["smax"],
                                                                               "bins": h["bins"], "samples": h["ys"]},
                    "how": "Spectrometer(wavelength_to_pixel, mbpp).calibrate(Spectrum(min, max, bins) with .samples = samples)"})
        ctx.violation(key, text, jsonable(rep), found=True)
    search_fails = search_fails + [(None, f["claim"]) for _, f in long_fails]
    if diff_cases and not search_fails:
        kinds = set()
        for ci, code in diff_cases:
            h = hist[ci]
            if h["kind"] in kinds:
                continue
            kinds.add(h["kind"])
            ctx.violation("c16-diff:%s" % h["kind"],
                          "model and implementation disagree for a %s case (first disagreeing call: %d; -1 = resolution oracle had no entry, -2 = a resolution() value does not "
                          "satisfy the formula's certificate); "
                          "the executable property found no failing input" % (h["kind"], code),
                          dict(replay_of(h), first_disagreeing_call=code), found=False)

    if not tie_ok and not search_fails:
        ctx.violation("c16-source-tie", "the current source differs from the tables the model mirrors (%s); the executable property "
                      "found no failing input" % src_diff, {"rows_that_differ": src_diff, "generated": "coq/Gen/C16/Source.v"}, found=False)

    # ---- evidence -------------------------------------------------------------------------------
    kinds = {}
    for h in hist:
        kinds[h["kind"]] = kinds.get(h["kind"], 0) + 1
    histories = [h for h in hist if "log" in h]
    n_ops = sum(len(h["log"]) for h in histories)
    n_rej = sum(1 for h in histories for l in h["log"] if l.endswith("(rejected)"))
    n_reads = sum(1 for h in histories for l in h["log"] if "=" not in l)
    stale = sum(1 for h in histories if h["stale_window"])
    cal = [h for h in hist if h["kind"] == "calibrate"]
    cal_styles = {}
    for h in cal:
        cal_styles[h["style"]] = cal_styles.get(h["style"], 0) + 1
    distinct = len({h["case"] for h in hist if h.get("stale_window") or h["kind"] in ("calibrate", "filter")})
    ctx.coverage.update({
        "evaluations": len(hist),
        "distinct_nontrivial": distinct,
        "rule": "one case = one history of public calls on one instrument (constructor, setters with accepted/rejected values, reads, "
                "then a full read-out), or one calibrate call, or one filter construction. Non-trivial history = an accepted setter "
                "follows a read that filled a lazy cache (the only situation in which a stale cache is observable); calibrate and filter "
                "cases count as non-trivial; distinct = distinct Coq case text",
        "distribution": {"cases_by_kind": kinds, "calls_in_histories": n_ops, "rejected_setter_calls": n_rej, "reads": n_reads,
                         "histories_with_setter_after_read": stale, "degenerate_final_states(no spectra/filters)": n_degenerate,
                         "calibrate_alignment_styles": cal_styles,
                         "calibrate_error_cases(range too narrow)": sum(1 for h in cal if h["st"] == "err"),
                         "filter_error_cases": sum(1 for h in hist if h["kind"] == "filter" and not h["ok"]),
                         "search_cases": n_search, "corpus_files": len(corpus), "cases_that_raised_out_of_their_generator": len(CRASHES),
                         "long_calibrations(search only, not run through Coq)": {
                             "cases": len(long_cases), "pixels": sum(h["n_pixels"] for h in long_cases),
                             "measured_on_this_run: largest |value*width - integral| / (max sample * pixel width)":
                                 max(h.get("max_dev_rel", 0.0) for h in long_cases),
                             "measured_on_this_run: largest deviation as a fraction of the tolerance":
                                 max(h.get("max_dev_over_tol", 0.0) for h in long_cases),
                             "max_pixels_in_one_row": max(max(len(r) - 1 for r in h["w2p"]) for h in long_cases),
                             "spectrum_grids": {g: sum(1 for h in long_cases if h["grid"] == g) for g in ("instrument", "wider", "coarse")},
                             "features": {k: sum(1 for h in long_cases for f in h["features"] if f.startswith(k)) for k in
                                          ("line inside", "line edge", "step inside", "step edge", "spike inside", "spike edge")}},
                         "input_classes": dict(sorted(STATS.items()))},
        "tolerance": {"ranges, bin counts, pixel edge/centre arrays, filter min/max/window/central_wavelength, kwargs, classes, "
                      "create_pipelines() result (class, name, filter identity of every pipeline), exception kinds of every call incl. the "
                      "read-only Czerny-Turner pixel arrays and calibrate(<not a Spectrum>)": "exact",
                      "resolution() values vs the formula (certificate S^2 = cos^2 - p^2, S >= 0; cos^2 (1 + tan^2) = 1)": "relative 2^-40",
                      "source tables (setter guard kinds and effect lists, constructor statement order, lazy getters, defaults, member lists, "
                      "pinned bodies, literal 1.e-15)": "equality checked by the kernel (Gen/C16/Source.v, Lemma source_tie)",
                      "calibrate values": "relative 2^-40 + absolute 2^-50 against the exact integral of the interpolant",
                      "search: bin width bound on doubles": "relative slack 2^-40 (theorem: ((1+u)/(1-u))^2, u=2^-53)",
                      "search: value*width vs integrals": "1e-10 * max sample * pixel width",
                      "search, long pixel rows: value*width vs spectrum.integrate and vs an independent NumPy integral of the interpolant":
                          "1e-9 * max sample * pixel width + 1e-13 * max sample * row length; the largest deviation actually seen is measured on every "
                          "run and recorded under distribution.long_calibrations (unchanged /repo, seeds 0-3 quick and one thorough run: see there)"},
        "partial": ["CzernyTurnerSpectrometer.resolution is an oracle (its formula is not part of C16); Spectrum.integrate is raysect's and is "
                    "modelled by its specification; observational equality is proved for non-degenerate final parameters",
                    "power-of-two scale covariance of the settings is checked on the implementation (search) only, not stated as a theorem "
                    "(order-independence and the constructor <-> source-table link are theorems since the second deepening round)",
                    "cos and tan of the diffraction angle are data of the resolution formula (not derived from the angle in Coq); the "
                    "resolution theorems are in exact arithmetic"],
    })
    samp = []
    for k in ("spectrometer", "czerny-turner", "polychromator", "calibrate", "filter"):
        for h in hist:
            if h["kind"] == k:
                samp.append(replay_of(h))
                break
    ctx.coverage["samples"] = samp
    ctx.grep_gate()
