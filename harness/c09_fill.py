"""Fail-closed translator: the matrix-filling statements of _fractional_abundance_point in the CURRENT source of
cherab/tools/plasmas/ionisation_balance.py  ->  a list of `upd` records of coq/Model/C09_Fill.v.

Anything in that function that touches `matbal` and is not one of the recognised shapes raises TranslateError
(the check then reports the tie as broken instead of guessing)."""
import ast


class TranslateError(Exception):
    pass


def _lin(node, loopvar):
    """index expression -> (a, b, c) meaning a*atomic_number + b*loopvar + c"""
    if isinstance(node, ast.Constant) and isinstance(node.value, int) and not isinstance(node.value, bool):
        return (0, 0, node.value)
    if isinstance(node, ast.UnaryOp) and isinstance(node.op, ast.USub):
        a, b, c = _lin(node.operand, loopvar)
        return (-a, -b, -c)
    if isinstance(node, ast.Name):
        if node.id == "atomic_number":
            return (1, 0, 0)
        if loopvar is not None and node.id == loopvar:
            return (0, 1, 0)
        raise TranslateError("unknown name in an index: %s" % node.id)
    if isinstance(node, ast.BinOp) and isinstance(node.op, (ast.Add, ast.Sub)):
        l, r = _lin(node.left, loopvar), _lin(node.right, loopvar)
        s = 1 if isinstance(node.op, ast.Add) else -1
        return tuple(x + s * y for x, y in zip(l, r))
    raise TranslateError("unsupported index expression: %s" % ast.dump(node))


def _is_call_ne_te(node):
    return (isinstance(node, ast.Call) and len(node.args) == 2 and not node.keywords
            and all(isinstance(a, ast.Name) for a in node.args) and [a.id for a in node.args] == ["n_e", "t_e"])


def _terms(node, loopvar, sign=True):
    """value expression -> list of (positive?, kind, index)"""
    if isinstance(node, ast.BinOp) and isinstance(node.op, (ast.Add, ast.Sub)):
        return _terms(node.left, loopvar, sign) + _terms(node.right, loopvar, sign if isinstance(node.op, ast.Add) else not sign)
    if _is_call_ne_te(node) and isinstance(node.func, ast.Subscript) and isinstance(node.func.value, ast.Name):
        name = node.func.value.id
        kind = {"coef_ion": "KIon", "coef_recom": "KRec"}.get(name)
        if kind is None:
            raise TranslateError("rate %s used without the donor factor" % name)
        return [(sign, kind, _lin(node.func.slice, loopvar))]
    # tcx_donor_density / n_e * coef_tcx[idx](n_e, t_e)
    if isinstance(node, ast.BinOp) and isinstance(node.op, ast.Mult):
        l, r = node.left, node.right
        if (isinstance(l, ast.BinOp) and isinstance(l.op, ast.Div) and isinstance(l.left, ast.Name) and l.left.id == "tcx_donor_density"
                and isinstance(l.right, ast.Name) and l.right.id == "n_e" and _is_call_ne_te(r)
                and isinstance(r.func, ast.Subscript) and isinstance(r.func.value, ast.Name) and r.func.value.id == "coef_tcx"):
            return [(sign, "KCx", _lin(r.func.slice, loopvar))]
    raise TranslateError("unsupported value expression: %s" % ast.unparse(node))


def _touches_matbal(node):
    return any(isinstance(n, ast.Name) and n.id == "matbal" for n in ast.walk(node))


def translate(source_path):
    tree = ast.parse(open(source_path).read())
    fn = [n for n in tree.body if isinstance(n, ast.FunctionDef) and n.name == "_fractional_abundance_point"]
    if len(fn) != 1:
        raise TranslateError("_fractional_abundance_point not found exactly once")
    fn = fn[0]
    updates = []
    seen = {"zeros": False, "scale": False, "ones": False, "rhs_zero": False, "rhs_last": False, "solve": False, "normalise": False}

    def visit(stmts, loopvar, in_cx):
        for st in stmts:
            if isinstance(st, ast.Expr) and isinstance(st.value, ast.Constant):
                continue                                                     # docstring
            src = ast.unparse(st)
            if isinstance(st, ast.AugAssign) and isinstance(st.target, ast.Subscript) and isinstance(st.target.value, ast.Name) \
                    and st.target.value.id == "matbal":
                if not isinstance(st.op, (ast.Add, ast.Sub)) or not isinstance(st.target.slice, ast.Tuple) or len(st.target.slice.elts) != 2:
                    raise TranslateError("unsupported update of matbal: " + src)
                if not seen["zeros"] or seen["scale"]:
                    raise TranslateError("matbal updated before it is created or after it is scaled: " + src)
                row, col = (_lin(e, loopvar) for e in st.target.slice.elts)
                updates.append({"loop": loopvar is not None, "cx": in_cx, "row": row, "col": col,
                                "add": isinstance(st.op, ast.Add), "terms": _terms(st.value, loopvar), "src": src, "line": st.lineno})
            elif isinstance(st, ast.If):
                if ast.unparse(st.test) != "coef_tcx is not None" or st.orelse:
                    if _touches_matbal(st):
                        raise TranslateError("unsupported condition around matbal: " + ast.unparse(st.test))
                    continue
                visit(st.body, loopvar, True)
            elif isinstance(st, ast.For):
                if not _touches_matbal(st):
                    continue
                if loopvar is not None or ast.unparse(st.iter) != "range(1, atomic_number)" or not isinstance(st.target, ast.Name) or st.orelse:
                    raise TranslateError("unsupported loop around matbal: for %s in %s" % (ast.unparse(st.target), ast.unparse(st.iter)))
                visit(st.body, st.target.id, in_cx)
            elif src == "matbal = np.zeros((atomic_number + 1, atomic_number + 1))":
                seen["zeros"] = True
            elif src == "matbal = matbal * n_e":
                seen["scale"] = True
            elif src == "matbal = np.concatenate((matbal, np.ones((1, matbal.shape[1]))), axis=0)":
                if not seen["scale"]:
                    raise TranslateError("row of ones appended before scaling")
                seen["ones"] = True
            elif src == "rhs = np.zeros(matbal.shape[0])":
                seen["rhs_zero"] = seen["ones"]
            elif src == "rhs[-1] = n_e":
                seen["rhs_last"] = True
            elif src == "abundance = lsq_linear(matbal, rhs, bounds=(0, n_e))['x']":
                seen["solve"] = seen["ones"] and seen["rhs_zero"] and seen["rhs_last"]
            elif src == "frac_abundance = abundance / n_e":
                seen["normalise"] = seen["solve"]
            elif src in ("atomic_number = element.atomic_number", "return frac_abundance"):
                continue
            elif _touches_matbal(st) or "rhs" in src or "abundance" in src:
                raise TranslateError("unrecognised statement: " + src)
    visit(fn.body, None, False)
    missing = [k for k, v in seen.items() if not v]
    if missing:
        raise TranslateError("expected statements not found (or out of order): %s" % missing)
    return updates


def to_coq(updates):
    def ix(t):
        return "{| ia := %d; ib := %d; ic := %d |}" % t

    def term(t):
        return "{| t_pos := %s; t_kind := %s; t_idx := %s |}" % ("true" if t[0] else "false", t[1], ix(t[2]))
    items = []
    for u in updates:
        items.append("  (* line %d: %s *)\n  {| u_loop := %s; u_cx := %s; u_row := %s; u_col := %s; u_add := %s; u_terms := [%s] |}" % (
            u["line"], u["src"].replace("*)", "* )"), "true" if u["loop"] else "false", "true" if u["cx"] else "false",
            ix(u["row"]), ix(u["col"]), "true" if u["add"] else "false", "; ".join(term(t) for t in u["terms"])))
    return ("(* GENERATED on every run by harness/c09_fill.py from cherab/tools/plasmas/ionisation_balance.py *)\n"
            "Require Import Cherab.Common.Qx Cherab.Model.C09_Balance Cherab.Model.C09_Fill.\n"
            "Open Scope Z_scope.\n"
            "Definition source_updates : list upd := [\n" + ";\n".join(items) + "].\n"
            "(* the statements of the source, interpreted, fill the matrix exactly as Model.entry does, for every Z = 1..18,\n"
            "   every cell, with and without CX rates (rate values in balanced base 10: equality of values is equality of forms) *)\n"
            "Lemma source_fill_is_model_entry : fill_agrees source_updates 18 = true.\n"
            "Proof. vm_compute. reflexivity. Qed.\n"
            "Print Assumptions source_fill_is_model_entry.\n")
