"""C05 -- Beam CX emission is a population-weighted mean, beam emission a charged sum
(cherab/core/model/beam/charge_exchange.pyx, beam_emission.pyx, cherab/core/plasma/node.pyx).

Theorems: coq/Properties/C05.v (any number of metastables / species, any rate functions).
Tie: (T) the physical constants are re-read from constants.pyx on every run; (X) correspondence -- the
real BeamCXLine / BeamEmissionLine / Plasma are run on a real Beam + Plasma with stub attenuator, stub
atomic data (affine rate functions that log their arguments) and a recording line shape; the model of
Model/C05_BeamModels.v is evaluated by Coq (vm_compute) on the same inputs and compared inside Coq:
outcome kind exactly, radiance and every logged argument tuple at relative 2^-40.
Besides single evaluations on fresh scenes, histories are run on ONE scene with live model instances that is mutated
through the public API between evaluations; the (stateless) model is fed the configuration current at each evaluation.
Search: the executable statement of the property on the implementation (c05_impl.property_failures).
"""
import glob
import json
import math
import os
import re

from common import qlit, qlist, zlit, coqc_many, parse_evals, parse_zlist, VERIF

MSE_DEFAULTS = [0.56, 0.7060001671878492, 0.3140003593919741, 0.7279994935840365]   # overwritten from the source in run()

THEOREMS = ["C05_weighted_mean_bounds", "C05_cx_rate_is_bounded_mean", "C05_population_is_mean",
            "C05_cx_formula", "C05_cx_vanishes", "C05_bes_formula", "C05_bes_vanishes",
            "C05_zeff_formula", "C05_zeff_between", "C05_ion_density_formula",
            "C05_interaction_energy_frame", "C05_cx_rate_bounded_for_nonnegative_tables", "C05_history_independence",
            "C05_composition_add_semantics", "C05_sqrt_oracle_bound", "C05_mse_components_sum_to_radiance",
            "C05_mse_components_symmetric_nonnegative", "C05_mse_guards", "C05_bes_line_policy"]

SCALE_CX = 2.0 ** -112      # ~ 1.9e-34 W m^3          (the same constants are in c05_impl.py)
SCALE_PEC = 2.0 ** -110
UNIT5 = [1.0, 2.0 ** -16, 2.0 ** -10, 2.0 ** -64, 1.0, 1.0]     # E ~ 2^16, T ~ 2^10, n ~ 2^64
UNIT3 = [1.0, 2.0 ** -16, 2.0 ** -64, 2.0 ** -10]               # E, n, T
ATOMIC_NUMBERS = [1, 1, 1, 2, 3, 4, 5, 6, 7, 8, 10, 18]         # of c05_impl.ELEMENTS


# ---------------------------------------------------------------------------------------------
# (T) constants
# ---------------------------------------------------------------------------------------------
def read_constants(repo):
    """ATOMIC_MASS, ELEMENTARY_CHARGE, RECIP_4_PI as written in constants.pyx (fail-closed)."""
    src = open(os.path.join(repo, "cherab/core/utility/constants.pyx")).read()
    vals = {}
    for name in ("ATOMIC_MASS", "ELEMENTARY_CHARGE"):
        m = re.search(r"^\s*double\s+%s\s*=\s*([0-9.eE+-]+)\s*$" % name, src, re.M)
        if not m:
            raise RuntimeError("constants.pyx: cannot read %s" % name)
        vals[name] = float(m.group(1))
    m = re.search(r"^\s*double\s+RECIP_4_PI\s*=\s*(.+?)\s*$", src, re.M)
    if not m:
        raise RuntimeError("constants.pyx: cannot read RECIP_4_PI")
    expr = m.group(1)
    if not re.fullmatch(r"[0-9.eE+\-*/() ]*(M_PI[0-9.eE+\-*/() ]*)*", expr):
        raise RuntimeError("constants.pyx: RECIP_4_PI is not an arithmetic expression: %r" % expr)
    vals["RECIP_4_PI"] = float(eval(expr, {"__builtins__": {}}, {"M_PI": math.pi}))
    vals["RECIP_4_PI_expr"] = expr
    return vals


def read_mse_defaults(repo):
    """SIGMA_TO_PI, SIGMA1_TO_SIGMA0, PI2_TO_PI3, PI4_TO_PI3 of beam_emission.pyx and that __init__ defaults to them"""
    src = open(os.path.join(repo, "cherab/core/model/beam/beam_emission.pyx")).read()
    vals = []
    for name in ("SIGMA_TO_PI", "SIGMA1_TO_SIGMA0", "PI2_TO_PI3", "PI4_TO_PI3"):
        m = re.search(r"^%s\s*=\s*([0-9.eE+-]+)\s*(#.*)?$" % name, src, re.M)
        if not m:
            raise RuntimeError("beam_emission.pyx: cannot read %s" % name)
        vals.append(float(m.group(1)))
    if not re.search(r"sigma_to_pi=SIGMA_TO_PI,\s*sigma1_to_sigma0=SIGMA1_TO_SIGMA0,\s*pi2_to_pi3=PI2_TO_PI3,\s*pi4_to_pi3=PI4_TO_PI3\)",
                     src):
        raise RuntimeError("beam_emission.pyx: BeamEmissionLine.__init__ no longer defaults to the four module constants")
    return vals


# ---------------------------------------------------------------------------------------------
# generator
# ---------------------------------------------------------------------------------------------
def rnd_float(rng, lo, hi, exact):
    """positive number in [lo, hi], log-uniform; exact: <= 12 significant bits"""
    x = math.exp(rng.uniform(math.log(lo), math.log(hi)))
    if exact:
        m, e = math.frexp(x)
        x = math.ldexp(round(m * 4096) / 4096, e)
    return x


def rnd_point(rng):
    return [rng.randint(0, 32) / 32.0 for _ in range(3)]


def rnd_coeffs(rng, units, scale):
    return [rng.choice([0, 1, 1, 2, 3, 5, 7]) * u * scale for u in units]


TINY = 5e-324            # smallest subnormal double


def gen_species(rng, nel, exact, allow_neutral=True, ns=None):
    ns = ns or rng.choice([1, 1, 2, 2, 3, 3, 4, 5, 6] * 5 + [12])
    keys = set()
    sps = []
    while len(sps) < ns:
        el = rng.randrange(nel)
        zmax = ATOMIC_NUMBERS[el]
        if allow_neutral and rng.random() < 0.15:
            ch = 0
        else:
            ch = rng.randint(1, zmax)
        if (el, ch) in keys:
            continue
        keys.add((el, ch))
        sps.append(gen_one_species(rng, exact, el, ch))
    if not any(s["charge"] >= 1 for s in sps):
        sps[0]["charge"] = 1
        if len({(s["el"], s["charge"]) for s in sps}) < len(sps):
            sps = sps[:1]
    return sps


def with_duplicates(rng, exact, sps):
    """the list handed to the implementation: some (element, charge) keys occur twice; Composition keeps the
    position of the first and the value of the last"""
    raw = [dict(s) for s in sps]
    for _ in range(rng.choice([1, 1, 2])):
        if raw:
            s = rng.choice(raw)
            raw.insert(rng.randint(0, len(raw)), gen_one_species(rng, exact, s["el"], s["charge"]))
    return raw


def gen_beam(rng, exact):
    cls = rng.choice(["inside"] * 12 + ["z<0", "z>length", "z=length", "z=0", "att=0", "z=-0.0", "z=+tiny", "z=-tiny",
                                        "z=length-ulp", "z=length+ulp", "att=-0.0"])
    length = rng.choice([0.5, 1.0, 2.0, 3.0])
    bp = rnd_point(rng)
    bp[2] = {"inside": rng.randint(1, 15) / 16.0 * length, "z<0": -rng.randint(1, 8) / 16.0,
             "z>length": length + rng.randint(1, 8) / 16.0, "z=length": length, "z=0": 0.0, "att=0": length / 2,
             "att=-0.0": length / 4, "z=-0.0": -0.0, "z=+tiny": TINY, "z=-tiny": -TINY,
             "z=length-ulp": math.nextafter(length, 0.0), "z=length+ulp": math.nextafter(length, 9.0)}[cls]
    d = [rng.uniform(-1, 1) if not exact else rng.randint(-8, 8) / 8.0 for _ in range(3)]
    if sum(abs(c) for c in d) < 0.2:
        d[2] = 1.0
    beam = {"energy": 0.0 if rng.random() < 0.03 else rnd_float(rng, 2e3, 1.2e5, exact), "length": length,
            "att0": 0.0 if cls == "att=0" else -0.0 if cls == "att=-0.0" else rnd_float(rng, 1e13, 1e17, exact),
            "dir": d, "element": rng.choice([0, 1]), "form": rng.choice(["float", "float", "int", "np"])}
    return beam, bp, cls


def zero_table(rng, base):
    """a table that is exactly zero at the evaluation point: all coefficients 0, one of the provider's null-rate
    objects, or a table that vanishes below an energy threshold far above every beam energy"""
    kind = rng.choice(["coeffs", "null", "threshold"])
    if kind == "coeffs":
        return [0.0] * len(base) + [0.0]
    if kind == "null":
        return [0.0] * len(base) + [0.0, 1.0]
    return list(base) + [2.0 ** 60]


def threshold_table(rng, base):
    """vanishes below 1e3 .. 1.3e5 eV/amu: zero at some evaluation points, non-zero at others"""
    return list(base) + [2.0 ** rng.randint(10, 17)]


def is_zero_table(c, n):
    return len(c) > n and (not any(c[:n]) or c[n] >= 2.0 ** 60)


def zero_patterns_cx(rng, case):
    """exact zeros in every role and position of the CX / population tables of a single-evaluation case"""
    rates = case["rates"]
    exc = [r for r in rates if r["m"] != 1]
    tags = []
    if rng.random() < 0.5:
        pat = rng.choice(["ground", "first excited", "last excited", "several", "all excited", "thresholds"])
        chosen = []
        if pat == "ground":
            chosen = [r for r in rates if r["m"] == 1]
        elif pat == "first excited":
            chosen = exc[:1]
        elif pat == "last excited":
            chosen = exc[-1:]
        elif pat == "several":
            chosen = [r for r in rates if rng.random() < 0.6]
        elif pat == "all excited":
            chosen = exc
        if pat == "thresholds":
            for r in rates:
                if rng.random() < 0.6:
                    r["c"] = threshold_table(rng, r["c"][:6])
        for r in chosen:
            r["c"] = zero_table(rng, r["c"][:6])
        tags.append("cx:" + pat)
    if exc and rng.random() < 0.4:
        pat = rng.choice(["entries", "entries", "whole metastable", "thresholds"])
        for j, r in enumerate(exc):
            for i, s in enumerate(case["species"]):
                if s["charge"] == 0:
                    continue
                if pat == "entries" and rng.random() < 0.3:
                    r["pop"][i] = zero_table(rng, r["pop"][i][:4])
                elif pat == "whole metastable" and j == 0:
                    r["pop"][i] = zero_table(rng, r["pop"][i][:4])
                elif pat == "thresholds" and rng.random() < 0.5:
                    r["pop"][i] = threshold_table(rng, r["pop"][i][:4])
        tags.append("pop:" + pat)
    case["zero_patterns"] = tags


def zero_patterns_bes(rng, case):
    tags = []
    if rng.random() < 0.45:
        pat = rng.choice(["entries", "all", "thresholds"])
        for i, s in enumerate(case["species"]):
            if s["charge"] == 0:
                continue
            if pat == "all" or (pat == "entries" and rng.random() < 0.4):
                case["pecs"][i] = zero_table(rng, case["pecs"][i][:4])
            elif pat == "thresholds" and rng.random() < 0.6:
                case["pecs"][i] = threshold_table(rng, case["pecs"][i][:4])
        tags.append("pec:" + pat)
    case["zero_patterns"] = tags


def gen_labels(rng):
    """donor metastable labels of the provider: 1 is the ground state wherever it stands; the other labels need
    not be 2, 3, ... and come in any order"""
    nm = rng.choice([1, 1, 2, 2, 3, 3, 4, 5])
    ms = [1] + (list(range(2, nm + 1)) if rng.random() < 0.7 else sorted(rng.sample(range(2, 10), nm - 1)))
    rng.shuffle(ms)
    return ms


def decorate(c, rng, kind):
    """argument forms and configuration routes that must not change the result"""
    for s in (c.get("species_raw") or c["species"]):
        if rng.random() < 0.25:
            s["form"] = rng.choice(["const", "const_np", "const_int"])
        if rng.random() < 0.15:
            s["charge_np"] = True
    if c.get("species_raw"):
        c["species"] = impl_effective(c["species_raw"])
    if rng.random() < 0.15:
        c["b_form"] = "const"
    c["comp_form"] = rng.choice(["list", "list", "tuple", "gen"])
    c["attach"] = rng.choice(["models", "models", "constructor"])
    if kind in ("bes", "history") and rng.random() < 0.5:
        c["bes_ratios"] = [rng.choice([0.25, 0.5, 1.0, 2.0, 0.56, 1.7]) for _ in range(4)]
    if kind in ("cx", "history"):
        r = rng.random()
        if r < 0.2:
            c["lineshape"] = "default"
        elif r < 0.4:
            c["ls_kwargs"] = True
        if rng.random() < 0.2:
            c["line_np"] = True


def pow2(rng, lo, hi):
    return 2.0 ** rng.randint(lo, hi)


def apply_scale(c, rng, bes=False):
    """multiply groups of inputs by powers of two over many decades (exact in double): the formulas are
    covariant; ranges keep every product a normal double and every sqrt argument above 2^-24"""
    kn, kt, kv, kb, ka, ke, kd, kr = (pow2(rng, -60, 40), pow2(rng, -8, 8), pow2(rng, -10, 1), pow2(rng, -10, 4),
                                      pow2(rng, -40, 40), pow2(rng, -6, 6), pow2(rng, -8, 8), pow2(rng, -40, 40))
    if bes:
        # the beam-emission total is read back through the real Stark multiplet from one bin 656 +- 200 nm: keep the
        # Doppler shift and 4 x Stark splitting (both proportional to the beam speed, the latter also to |B|) inside it
        ke, kb = min(ke, 4.0), min(kb, 1.0)
    for s in c["species"] + (c.get("species_raw") or []):
        s["n0"], s["t0"], s["v0"] = s["n0"] * kn, s["t0"] * kt, [v * kv for v in s["v0"]]
    c["b0"] = [v * kb for v in c["b0"]]
    if "beam" in c:
        c["beam"]["att0"] *= ka
        c["beam"]["energy"] *= ke
        if "dir" in c["beam"]:
            c["beam"]["dir"] = [v * kd for v in c["beam"]["dir"]]
    for r in c.get("rates", []) + (c.get("prov") or {}).get("rates", []):
        r["c"] = [v * kr for v in r["c"][:6]] + r["c"][6:]          # not the energy threshold / null flag
    for pc in c.get("pecs", []):
        pc[:] = [v * kr for v in pc[:4]] + pc[4:]
    c["scaled"] = True


def gen_case(rng, kind, nel):
    exact = rng.random() < 0.5
    case = {"kind": kind, "exact": exact, "species": gen_species(rng, nel, exact),
            "b0": [rng.uniform(-4, 4) if not exact else rng.randint(-16, 16) / 4.0 for _ in range(3)],
            "plasma_point": rnd_point(rng)}
    if rng.random() < 0.05:
        case["b0"] = [0.0, 0.0, 0.0]
    if kind in ("plasma", "bes") and rng.random() < (0.25 if kind == "plasma" else 0.06):
        # no ions / ions of zero density / nothing at all: z_effective raises ValueError, beam emission is 0
        r = rng.random()
        for s in case["species"]:
            if r < 0.4:
                s["charge"] = 0
            elif rng.random() < 0.5:
                s["charge"] = 0
            else:
                s["n0"] = 0.0 if kind == "plasma" else s["n0"]
        case["species"] = [] if r > 0.85 else impl_effective(case["species"])
        case["no_ion_class"] = True
    if rng.random() < 0.08 and case["species"]:
        case["species_raw"] = with_duplicates(rng, exact, case["species"])
        case["species"] = impl_effective(case["species_raw"])
    if kind == "plasma":
        decorate(case, rng, kind)
        if rng.random() < 0.3:
            apply_scale(case, rng)
        return case
    case["beam"], case["beam_point"], case["beam_class"] = gen_beam(rng, exact)
    if kind == "bes":
        case["pecs"] = [[0.0] * 4 if s["charge"] == 0 else rnd_coeffs(rng, UNIT3, SCALE_PEC) for s in case["species"]]
        zero_patterns_bes(rng, case)
        decorate(case, rng, kind)
        if rng.random() < 0.3:
            apply_scale(case, rng, bes=True)
        return case
    decorate(case, rng, kind)
    ions = [s for s in case["species"] if s["charge"] >= 1]
    rs = rng.choice(ions)
    case["line"] = {"el": rs["el"], "charge": rs["charge"] - 1, "transition": [rng.randint(3, 12), 2]}
    r = rng.random()
    case["receiver_class"] = "present"
    zat = ATOMIC_NUMBERS[rs["el"]]
    opts = [c for c in (rs["charge"] - 2, rs["charge"]) if 0 <= c <= zat - 1]
    others = [s for s in ions if s is not rs and s["n0"] > 0]
    if r < 0.04 and opts:
        # receiver ion absent: the species one charge lower/higher is there instead
        case["line"]["charge"] = rng.choice(opts)
        if not any(s["el"] == rs["el"] and s["charge"] == case["line"]["charge"] + 1 for s in case["species"]):
            case["receiver_class"] = "absent"
    elif r < 0.09:
        rs["n0"] = rng.choice([0.0, -0.0])
        case["receiver_class"] = "zero density"
    elif r < 0.11 and others and "species_raw" not in case:
        rs["n0"] = TINY                       # passes the == 0 guard; the product underflows
        case["receiver_class"] = "subnormal density"
    elif r < 0.14:
        rs["t0"] = rng.choice([0.0, -0.0])
        case["receiver_class"] = "zero temperature"
    elif r < 0.155 and case.get("lineshape") != "default":
        rs["t0"] = TINY
        case["receiver_class"] = "subnormal temperature"
    if "species_raw" in case:               # keep the raw list consistent with the receiver edits
        for t in case["species_raw"]:
            if (t["el"], t["charge"]) == (rs["el"], rs["charge"]):
                t["n0"], t["t0"] = rs["n0"], rs["t0"]
        case["species"] = impl_effective(case["species_raw"])
    case["rates"] = [{"m": m, "c": rnd_coeffs(rng, UNIT5, SCALE_CX),
                      "pop": [[0.0] * 4 if s["charge"] == 0 else rnd_coeffs(rng, UNIT3, 2.0 ** -3) for s in case["species"]]}
                     for m in gen_labels(rng)]
    zero_patterns_cx(rng, case)
    if rng.random() < 0.3 and case["receiver_class"] not in ("subnormal density", "subnormal temperature"):
        apply_scale(case, rng)
    return case


def gen_mse_case(rng, nel):
    """a beam-emission case whose Stark components can be read back one group at a time: beam along z, observed
    along x (no Doppler shift), B perpendicular to the beam, a cold beam (narrow components)"""
    case = gen_case(rng, "bes", nel)
    while not case["species"] or case["beam"]["energy"] == 0.0:
        case = gen_case(rng, "bes", nel)
    case["kind"] = "mse"
    case["obs"] = [1.0, 0.0, 0.0]
    case["beam"]["dir"] = [0.0, 0.0, rng.choice([0.5, 1.0, 2.0, 3.0])]
    case["beam"]["temperature"] = 2.0 ** -12
    by = rng.choice([-1, 1]) * rng.randint(4, 16) / 4.0
    case["b0"] = [rng.choice([0.0, 0.0, by / 2]), by, 0.0]
    return case


def impl_effective(raw):
    import c05_impl
    return c05_impl.effective_species(raw)


# ---------------------------------------------------------------------------------------------
# histories: one scene, live models, mutations through the public API, an evaluation after each
# ---------------------------------------------------------------------------------------------
COMPOSITION_OPS = ["add_new", "assign", "set", "clear_readd", "beam_plasma"]
BEAM_OPS = ["beam_energy", "beam_element", "beam_temperature", "beam_length", "attenuator"]
OTHER_OPS = ["atomic_data", "cx_line", "b_field", "electron"]
SAME_OPS = ["reassign_same", "models_reset"]
REASSIGN = ["energy", "element", "length", "composition", "add_same", "line", "b_field", "atomic_data", "plasma"]
GUARDS = ["receiver_density", "receiver_temperature", "ion_density", "attenuator", "length", "energy"]
ALL_OPS = ["none", "add_existing"] + COMPOSITION_OPS + BEAM_OPS + OTHER_OPS + SAME_OPS


def gen_one_species(rng, exact, el, ch, zero_prob=0.06):
    vmax = rng.choice([0.0, 1e4, 1e5, 5e5])
    return {"el": el, "charge": ch,
            "n0": 0.0 if rng.random() < zero_prob else rnd_float(rng, 1e15, 1e20, exact),
            "t0": rnd_float(rng, 1.0, 2e4, exact),
            "v0": [0.0 if vmax == 0 else (rng.uniform(-vmax, vmax) if not exact else float(round(rng.uniform(-vmax, vmax))))
                   for _ in range(3)]}


def gen_new_key(rng, nel, keys, ionised=False):
    while True:
        el = rng.randrange(nel)
        ch = rng.randint(1, ATOMIC_NUMBERS[el]) if ionised or rng.random() > 0.15 else 0
        if (el, ch) not in keys:
            return el, ch


def gen_provider(rng):
    scale = SCALE_CX * (pow2(rng, -40, 40) if rng.random() < 0.3 else 1.0)
    rates = [{"m": m, "c": rnd_coeffs(rng, UNIT5, scale)} for m in gen_labels(rng)]
    for r in rates:
        x = rng.random()
        if x < 0.2:
            r["c"] = zero_table(rng, r["c"])
        elif x < 0.45:
            r["c"] = threshold_table(rng, r["c"])
    return {"seed": rng.randrange(1 << 30), "rates": rates}


def gen_eval(rng, kind, exact, cfg, prev=None):
    if prev is not None and rng.random() < 0.4:       # the same points as the previous evaluation
        ev = dict(prev, kind=kind)
        return ev
    length = cfg["beam"]["length"]
    bp = rnd_point(rng)
    r = rng.random()
    bp[2] = (rng.randint(1, 15) / 16.0 * length if r < 0.85 else length + 0.25 if r < 0.9 else -0.125 if r < 0.95 else length)
    d = [rng.uniform(-1, 1) if not exact else rng.randint(-8, 8) / 8.0 for _ in range(3)]
    if sum(abs(c) for c in d) < 0.2:
        d[2] = 1.0
    if rng.random() < 0.3:
        k = pow2(rng, -8, 8)
        d = [c * k for c in d]
    return {"kind": kind, "plasma_point": rnd_point(rng), "beam_point": bp, "dir": d}


def mutate_species_list(rng, nel, exact, cfg):
    """a new composition derived from the current one: some species dropped, some replaced, some new, shuffled;
    the CX receiver is usually kept; at least one ion"""
    rkey = (cfg["line"]["el"], cfg["line"]["charge"] + 1)
    new = []
    for s in cfg["species"]:
        key = (s["el"], s["charge"])
        if key != rkey and rng.random() < 0.3:
            continue
        if key == rkey and rng.random() < 0.12:
            continue
        new.append(gen_one_species(rng, exact, *key) if rng.random() < 0.6 else dict(s))
    for _ in range(rng.choice([0, 1, 1, 2])):
        if len(new) < 6:
            new.append(gen_one_species(rng, exact, *gen_new_key(rng, nel, {(t["el"], t["charge"]) for t in new})))
    if not any(t["charge"] >= 1 for t in new):
        new.append(gen_one_species(rng, exact, *gen_new_key(rng, nel, {(t["el"], t["charge"]) for t in new}, ionised=True)))
    rng.shuffle(new)
    return new


def gen_step(rng, nel, exact, cfg, op):
    """the mutation `op` for the configuration cfg (cfg is updated to the configuration after the step)"""
    step = {"op": op}
    keys = [(s["el"], s["charge"]) for s in cfg["species"]]
    if op == "add_existing":
        rkey = (cfg["line"]["el"], cfg["line"]["charge"] + 1)
        ions = [k for k in keys if k[1] >= 1]
        key = rkey if rkey in keys and rng.random() < 0.5 else rng.choice(ions if ions and rng.random() < 0.85 else keys)
        step["species"] = gen_one_species(rng, exact, key[0], key[1], zero_prob=0.3)
        cfg["species"][keys.index(key)] = dict(step["species"])
    elif op == "add_new":
        step["species"] = gen_one_species(rng, exact, *gen_new_key(rng, nel, set(keys)))
        cfg["species"].append(dict(step["species"]))
    elif op in ("assign", "set", "clear_readd", "beam_plasma"):
        step["species"] = mutate_species_list(rng, nel, exact, cfg)
        step["comp_form"] = rng.choice(["list", "list", "tuple", "gen"])
        if rng.random() < 0.2:
            step["species_raw"] = with_duplicates(rng, exact, step["species"])
            step["species"] = impl_effective(step["species_raw"])
        cfg["species"] = [dict(s) for s in step["species"]]
    elif op == "reassign_same":
        step["what"] = rng.choice(REASSIGN)
    elif op == "models_reset":
        step["reversed"] = rng.random() < 0.5
    elif op == "b_field":
        step["b0"] = [rng.uniform(-4, 4) if not exact else rng.randint(-16, 16) / 4.0 for _ in range(3)]
        step["b_form"] = "const" if rng.random() < 0.25 else "fn"
        cfg["b0"], cfg["b_form"] = list(step["b0"]), step["b_form"]
    elif op == "electron":
        step["ne"], step["te"] = rnd_float(rng, 1e18, 1e20, exact), rnd_float(rng, 10.0, 5e3, exact)
    elif op == "beam_energy":
        step["energy"] = rnd_float(rng, 2e3, 1.2e5, exact)
        step["form"] = rng.choice(["float", "int", "np"])
        cfg["beam"]["energy"] = step["energy"]
    elif op == "beam_element":
        step["element"] = 1 - cfg["beam"]["element"]
        cfg["beam"]["element"] = step["element"]
    elif op == "beam_temperature":
        step["temperature"] = rnd_float(rng, 1.0, 100.0, exact)
    elif op == "beam_length":
        step["length"] = rng.choice([l for l in (0.5, 1.0, 2.0, 3.0) if l != cfg["beam"]["length"]])
        cfg["beam"]["length"] = step["length"]
    elif op == "attenuator":
        step["att0"] = 0.0 if rng.random() < 0.2 else rnd_float(rng, 1e13, 1e17, exact)
        cfg["beam"]["att0"] = step["att0"]
    elif op == "atomic_data":
        step["prov"] = gen_provider(rng)
        cfg["prov"] = json.loads(json.dumps(step["prov"]))
    elif op == "cx_line":
        ions = [k for k in keys if k[1] >= 1 and k != (cfg["line"]["el"], cfg["line"]["charge"] + 1)]
        if ions and rng.random() < 0.9:
            k = rng.choice(ions)
            step["line"] = {"el": k[0], "charge": k[1] - 1, "transition": [rng.randint(3, 12), 2]}
        else:
            step["line"] = dict(cfg["line"], transition=[rng.randint(3, 12), 2])
        cfg["line"] = dict(step["line"])
    return step


def gen_guard_cross(rng, nel, exact, cfg, ev):
    """two steps on the same scene: a quantity that a guard of the code tests goes to zero (or -0.0, or across
    the beam end) and comes back to a positive value; both models are evaluated at the SAME points after each"""
    what = rng.choice(GUARDS)
    keys = [(s["el"], s["charge"]) for s in cfg["species"]]
    rkey = (cfg["line"]["el"], cfg["line"]["charge"] + 1)
    zero = rng.choice([0.0, 0.0, -0.0])
    steps = []
    if what in ("receiver_density", "receiver_temperature", "ion_density"):
        ions = [k for k in keys if k[1] >= 1]
        key = rkey if (what != "ion_density" and rkey in keys) else rng.choice(ions)
        cur = cfg["species"][keys.index(key)]
        for phase in (0, 1):
            sp = gen_one_species(rng, exact, key[0], key[1], zero_prob=0.0)
            sp["v0"] = list(cur["v0"])
            if phase == 0:
                sp["t0" if what == "receiver_temperature" else "n0"] = zero
            steps.append({"op": "add_existing", "species": sp})
    elif what == "attenuator":
        steps = [{"op": "attenuator", "att0": zero}, {"op": "attenuator", "att0": rnd_float(rng, 1e13, 1e17, exact)}]
    elif what == "energy":
        steps = [{"op": "beam_energy", "energy": 0.0, "form": rng.choice(["float", "int"])},
                 {"op": "beam_energy", "energy": rnd_float(rng, 2e3, 1.2e5, exact), "form": "float"}]
    else:
        z, length = ev["beam_point"][2], cfg["beam"]["length"]
        short = z / 2 if 0 < z <= length else length / 2
        steps = [{"op": "beam_length", "length": short}, {"op": "beam_length", "length": length}]
    out = []
    for st in steps:
        # record the step in cfg exactly as gen_step does
        if st["op"] == "add_existing":
            cfg["species"][keys.index((st["species"]["el"], st["species"]["charge"]))] = dict(st["species"])
        elif st["op"] == "attenuator":
            cfg["beam"]["att0"] = st["att0"]
        elif st["op"] == "beam_energy":
            cfg["beam"]["energy"] = st["energy"]
        elif st["op"] == "beam_length":
            cfg["beam"]["length"] = st["length"]
        st["guard"] = what
        st["evals"] = [dict(ev, kind="cx"), dict(ev, kind="bes")]
        out.append(st)
    return out


def gen_history(rng, nel, nsteps):
    exact = rng.random() < 0.5
    sps = gen_species(rng, nel, exact)
    beam, _, _ = gen_beam(rng, exact)
    if beam["att0"] == 0.0:
        beam["att0"] = rnd_float(rng, 1e13, 1e17, exact)
    if beam["energy"] == 0.0:
        beam["energy"] = rnd_float(rng, 2e3, 1.2e5, exact)
    del beam["dir"]
    cfg = {"exact": exact, "species": sps, "b0": [rng.uniform(-4, 4) if not exact else rng.randint(-16, 16) / 4.0 for _ in range(3)],
           "beam": beam, "prov": gen_provider(rng)}
    if rng.random() < 0.15:
        cfg["species_raw"] = with_duplicates(rng, exact, cfg["species"])
        cfg["species"] = impl_effective(cfg["species_raw"])
    decorate(cfg, rng, "history")
    if rng.random() < 0.3:
        apply_scale(cfg, rng, bes=True)
    rs = rng.choice([s for s in cfg["species"] if s["charge"] >= 1])
    cfg["line"] = {"el": rs["el"], "charge": rs["charge"] - 1, "transition": [rng.randint(3, 12), 2]}
    hist = {"cfg": json.loads(json.dumps(cfg)), "steps": []}
    cfg.pop("species_raw", None)
    # every history: both models evaluated first (caches populated), then a replacement of an existing species,
    # one other composition route, one beam mutator, one of provider / line / field, a guard crossing, a re-assignment
    # of an unchanged value, and random further steps
    ops = ["add_existing", rng.choice(COMPOSITION_OPS), rng.choice(BEAM_OPS), rng.choice(OTHER_OPS), "guard_cross",
           rng.choice(SAME_OPS)]
    ops += [rng.choice(ALL_OPS + ["guard_cross"]) for _ in range(max(0, nsteps - len(ops)))]
    rng.shuffle(ops)
    prev = gen_eval(rng, "cx", exact, cfg)
    hist["steps"].append({"op": "none", "evals": [prev, dict(prev, kind="bes"), dict(prev, kind="plasma")]})
    for op in ops:
        if op == "guard_cross":
            ev = gen_eval(rng, "cx", exact, cfg, prev)
            hist["steps"] += gen_guard_cross(rng, nel, exact, cfg, ev)
            prev = ev
            continue
        step = gen_step(rng, nel, exact, cfg, op)
        kinds = rng.choice([["cx"], ["bes"], ["cx", "bes"], ["cx", "bes"], ["cx", "plasma"], ["bes", "cx"], ["plasma", "bes"]])
        step["evals"] = []
        for kind in kinds:
            prev = gen_eval(rng, kind, exact, cfg, prev)
            step["evals"].append(prev)
        hist["steps"].append(step)
    return hist


# ---------------------------------------------------------------------------------------------
# Coq text of a case
# ---------------------------------------------------------------------------------------------
def vlit(v):
    return "(%s, %s, %s)" % tuple(qlit(c) for c in v)


def species_lit(impl, case):
    return "[" + "; ".join("mkSpecies %s %s %s %s %s" % (zlit(el), zlit(ch), qlit(n), qlit(t), vlit(v))
                           for el, ch, n, t, v in impl.species_at(case)) + "]"


def coq_case(impl, case, out):
    sp = impl.species_at(case)
    sps = species_lit(impl, case)
    if case["kind"] == "plasma":
        return "check_plasma %s %s %s %s" % (sps, zlit(out["code"]), qlit(out["zeff"]), qlit(out["nion"]))
    b = case["beam"]
    common = "%s %s %s %s %s" % (qlit(b["length"]), qlit(case["beam_point"][2]), qlit(impl.attenuator_at(case)),
                                 vlit(b["dir"]), qlit(b["energy"]))
    ion_idx = [i for i, s in enumerate(sp) if s[1] >= 1]
    log = out["log"]
    if case["kind"] == "mse":
        ratios = case.get("bes_ratios") or MSE_DEFAULTS
        return "check_mse K %s [%s] %s %s %s %s %s %s" % (
            sps, "; ".join(qlist(c) for c in case["pecs"]), common, qlist(ratios), qlit(100.0), qlit(1.0e19),
            zlit(out["code"]), qlist(out["cumulative"]))
    if case["kind"] == "bes":
        pl = {l[1]: l[2] for l in log if l[0] == "pec"}
        plog = [qlist(pl[i]) for i in ion_idx] if out["code"] == 1 and all(i in pl for i in ion_idx) else []
        return "check_bes K %s [%s] %s %s %s [%s]" % (
            sps, "; ".join(qlist(c) for c in case["pecs"]), common, zlit(out["code"]), qlit(out["radiance"]),
            "; ".join(plog))
    rates = "[" + "; ".join("(%s%%Z, %s, [%s])" % (zlit(r["m"]), qlist(r["c"]), "; ".join(qlist(p) for p in r["pop"]))
                            for r in case["rates"]) + "]"
    cx = [l for l in log if l[0] == "cx"]
    cxlog = qlist(cx[0][2]) if cx else "[]"
    pops = [l for l in log if l[0] == "pop"]
    poplog = []
    if pops:
        m0 = pops[0][1][0]
        first = {l[1][1]: l[2] for l in pops if l[1][0] == m0}
        poplog = [qlist(first[i]) for i in ion_idx if i in first]
    ln = case["line"]
    return "check_cx K %s %s %s %s %s %s %s %s %s [%s]" % (
        sps, vlit(impl.bfield_at(case)), zlit(ln["el"]), zlit(ln["charge"]), rates, common,
        zlit(out["code"]), qlit(out["radiance"]), cxlog, "; ".join(poplog))


def log_consistency(case, out):
    """discrete facts about the call log that the Coq comparison relies on (compared exactly)"""
    log = out["log"]
    bad = []
    if out.get("stale_species"):
        bad.append("rate objects of species %r were evaluated, which are not in the current composition" % (out["stale_species"],))
    if "composition" in out:
        v = out["composition"]
        want = [[t["el"], t["charge"]] for t in case["species"]]
        if v["keys"] != want or v["len"] != len(want) or not v["lookup_returns_member"]:
            bad.append("composition container reports %r, expected keys %r in this order" % (v, want))
    if case["kind"] == "cx" and out["code"] == 1:
        cx = [l for l in log if l[0] == "cx"]
        if len({l[2] for l in cx}) > 1:
            bad.append("BeamCXPEC objects of one evaluation received different argument tuples")
        if sorted(l[1] for l in cx) != sorted(r["m"] for r in case["rates"]):
            bad.append("BeamCXPEC evaluated for metastables %r, provider supplied %r"
                       % (sorted(l[1] for l in cx), sorted(r["m"] for r in case["rates"])))
        pops = [l for l in log if l[0] == "pop"]
        per = {}
        for l in pops:
            per.setdefault(l[1][1], set()).add(l[2])
        if any(len(v) > 1 for v in per.values()):
            bad.append("population coefficients of one species received different arguments for different metastables")
        nion = sum(1 for s in case["species"] if s["charge"] >= 1)
        nexc = sum(1 for r in case["rates"] if r["m"] != 1)
        if len(pops) != nion * nexc:
            bad.append("%d population-coefficient evaluations, expected %d ions x %d excited states" % (len(pops), nion, nexc))
        req = [l for l in log if l[0] == "request_cx"]
        ln = case["line"]
        fresh = "_history" not in case          # a live model asks the provider only when its cache was cleared
        if (len(req) != 1 and (fresh or req)) or any(r[3] != ln["charge"] + 1 or tuple(r[4]) != tuple(ln["transition"]) for r in req):
            bad.append("beam_cx_pec requested with %r" % (req,))
    if case["kind"] in ("cx", "bes") and out["code"] in (0, 1):
        att = [l for l in log if l[0] == "att"]
        z = case["beam_point"][2]
        inside = 0 <= z <= case["beam"]["length"]
        if inside and (len(att) != 1 or tuple(att[0][1]) != tuple(case["beam_point"])):
            bad.append("attenuator sampled at %r, beam point is %r" % ([a[1] for a in att], case["beam_point"]))
        if not inside and att:
            bad.append("attenuator sampled outside 0 <= z <= length")
    return bad


# ---------------------------------------------------------------------------------------------
# a history as an event list for the cached state machine of Model/C05_History.v (run by Coq)
# ---------------------------------------------------------------------------------------------
def machine_text(impl, hist, evals, probed_txt):
    """check_machine K probed config events expected  for one history; evals = [(case, out)] of its cx / bes evaluations
    in order"""
    cfg = hist["cfg"]
    bl = lambda v: "true" if v else "false"

    def obj(s):
        return "mkobj %s%%Z %s%%Z %s %s %s %s" % (zlit(s["el"]), zlit(s["charge"]), qlit(s["n0"]), qlit(s["t0"]), vlit(s["v0"]),
                                                 bl(s.get("form", "fn") == "fn"))

    keys = set()
    for grp in [cfg.get("species_raw") or cfg["species"]] + [st.get("species_raw") or st.get("species") or [] for st in hist["steps"]]:
        for t in (grp if isinstance(grp, list) else [grp]):
            if t["charge"] >= 1:
                keys.add((t["el"], t["charge"]))
    keys = sorted(keys)

    def prov(pv):
        ms = sorted({r["m"] for r in pv["rates"]})
        pop = ["(%s%%Z, %s%%Z, %s%%Z, %s)" % (zlit(m), zlit(el), zlit(ch), qlist(impl.pop_coeffs(pv["seed"], m, el, ch)))
               for m in ms for el, ch in keys]
        pec = ["(%s%%Z, %s%%Z, %s)" % (zlit(el), zlit(ch), qlist(impl.pec_coeffs(pv["seed"], el, ch))) for el, ch in keys]
        return "(mkprov [%s] [%s] [%s])" % ("; ".join("(%s%%Z, %s)" % (zlit(r["m"]), qlist(r["c"])) for r in pv["rates"]),
                                            "; ".join(pop), "; ".join(pec))

    beam = dict(cfg["beam"])
    raw0 = cfg.get("species_raw") or cfg["species"]
    config = ("(mkConfig pt (comp_set pt [%s]) (bfield_fn %s %s) %s%%Z %s%%Z %s %s (att_fn %s) %s)"
              % ("; ".join(obj(t) for t in raw0), vlit(cfg["b0"]), bl(cfg.get("b_form", "fn") == "fn"),
                 zlit(cfg["line"]["el"]), zlit(cfg["line"]["charge"]), prov(cfg["prov"]),
                 qlit(beam["length"]), qlit(beam["att0"]), qlit(beam["energy"])))
    events = []
    cur = [dict(t) for t in impl.effective_species(raw0)]
    for st in hist["steps"]:
        op = st["op"]
        mbeam = False
        if op in ("add_new", "add_existing"):
            events.append("Mutate pt (MAdd pt (%s))" % obj(st["species"]))
            cur = impl.effective_species(cur + [st["species"]])
        elif op in ("assign", "set", "beam_plasma"):
            raw = st.get("species_raw") or st["species"]
            events.append("Mutate pt (MSet pt [%s])" % "; ".join(obj(t) for t in raw))
            cur = impl.effective_species(raw)
        elif op == "clear_readd":
            raw = st.get("species_raw") or st["species"]
            events.append("Mutate pt (MClear pt)")
            events += ["Mutate pt (MAdd pt (%s))" % obj(t) for t in raw]
            cur = impl.effective_species(raw)
        elif op == "reassign_same" and st["what"] == "composition":
            events.append("Mutate pt (MSet pt [%s])" % "; ".join(obj(t) for t in cur))
        elif op == "reassign_same" and st["what"] == "add_same":
            events += ["Mutate pt (MAdd pt (%s))" % obj(t) for t in cur]
        elif op == "b_field":
            events.append("Mutate pt (MBfield pt (bfield_fn %s %s))" % (vlit(st["b0"]), bl(st.get("b_form", "fn") == "fn")))
        elif op == "beam_energy":
            beam["energy"], mbeam = st["energy"], True
        elif op == "beam_length":
            beam["length"], mbeam = st["length"], True
        elif op == "attenuator":
            beam["att0"], mbeam = st["att0"], True
        elif op == "atomic_data":
            events.append("Mutate pt (MProvider pt %s)" % prov(st["prov"]))
        elif op == "cx_line":
            events.append("Mutate pt (MLine pt %s%%Z %s%%Z)" % (zlit(st["line"]["el"]), zlit(st["line"]["charge"])))
        if mbeam:
            events.append("Mutate pt (MBeam pt %s (att_fn %s) %s)" % (qlit(beam["length"]), qlit(beam["att0"]), qlit(beam["energy"])))
        for ev in st["evals"]:
            if ev["kind"] in ("cx", "bes"):
                events.append("Observe%s pt (%s, %s) %s %s" % ("CX" if ev["kind"] == "cx" else "BES", vlit(ev["plasma_point"]),
                                                               vlit(ev["beam_point"]), qlit(ev["beam_point"][2]), vlit(ev["dir"])))
    expected = "; ".join("(%s%%Z, %s)" % (zlit(o["code"]), qlit(o["radiance"])) for c, o in evals)
    return "check_machine K %s\n    %s\n    [%s]\n    [%s]" % (probed_txt, config, ";\n     ".join(events), expected)


# ---------------------------------------------------------------------------------------------
# second-order call sites of the anchored files (expected outcomes recorded from the documented behaviour)
# ---------------------------------------------------------------------------------------------
API_COUNT = [0]


def api_checks(impl):
    from raysect.core import Point3D, Vector3D
    from raysect.optical import Spectrum
    from cherab.core import Plasma, Beam, Species, Maxwellian
    from cherab.core.atomic import Line
    from cherab.core.atomic import elements as el
    from cherab.core.model import BeamCXLine, BeamEmissionLine
    fails = []
    API_COUNT[0] = 0

    def expect(what, fn, exc=None, value=None):
        API_COUNT[0] += 1
        try:
            got = fn()
        except Exception as e:          # noqa: the exception class IS the observation here
            if exc is None or not isinstance(e, exc):
                fails.append("%s: raised %r, expected %s" % (what, e, exc.__name__ if exc else repr(value)))
            return
        if exc is not None:
            fails.append("%s: returned %r, expected %s" % (what, got, exc.__name__))
        elif got != value:
            fails.append("%s: returned %r, expected %r" % (what, got, value))

    mk = lambda e, z, n: Species(e, z, Maxwellian(n, 10.0, Vector3D(0, 0, 0), e.atomic_weight * impl.AMU))
    p = Plasma()
    comp = p.composition
    expect("empty plasma: ion_density", lambda: p.ion_density(0, 0, 0), value=0.0)
    expect("empty plasma: z_effective", lambda: p.z_effective(0, 0, 0), exc=ValueError)
    expect("empty plasma: len(composition)", lambda: len(comp), value=0)
    expect("composition.get of a missing species", lambda: comp.get(el.carbon, 6), exc=ValueError)
    expect("composition[...] with a malformed key", lambda: comp[(el.carbon,)], exc=ValueError)
    expect("composition.set with a non-Species entry", lambda: comp.set([1.0]), exc=TypeError)
    expect("composition.add(None)", lambda: comp.add(None), exc=ValueError)
    a, b, c = mk(el.carbon, 6, 1e18), mk(el.carbon, 6, 2e18), mk(el.deuterium, 1, 3e19)
    comp.add(a)
    comp.add(c)
    comp.add(b)
    expect("add of an existing key replaces", lambda: (len(comp), comp.get(el.carbon, 6) is b, comp[(el.deuterium, 1)] is c,
                                                       [s.charge for s in comp]), value=(2, True, True, [6, 1]))
    expect("after the replacement: ion_density", lambda: p.ion_density(0, 0, 0), value=2e18 + 3e19)
    expect("neutral species only: z_effective", lambda: (comp.set([mk(el.deuterium, 0, 1e19)]), p.z_effective(0, 0, 0))[1], exc=ValueError)
    comp.clear()
    expect("composition.clear", lambda: (len(comp), list(comp)), value=(0, []))
    # models that are not connected / wrongly configured
    cvi = Line(el.carbon, 5, (8, 7))
    pt, v, sp = Point3D(0, 0, 0.5), Vector3D(0, 0, 1), Spectrum(400, 700, 8)
    expect("BeamCXLine with a line shape that is no LineShapeModel", lambda: BeamCXLine(cvi, lineshape=int), exc=TypeError)
    expect("BeamCXLine(None)", lambda: BeamCXLine(None), exc=TypeError)
    expect("BeamCXLine.line = None", lambda: setattr(BeamCXLine(cvi), "line", None), exc=TypeError)
    expect("BeamCXLine without a beam", lambda: BeamCXLine(cvi).emission(pt, pt, v, v, sp), exc=RuntimeError)
    expect("BeamEmissionLine without a beam", lambda: BeamEmissionLine(Line(el.deuterium, 0, (3, 2))).emission(pt, pt, v, v, sp),
           exc=RuntimeError)
    expect("BeamEmissionLine for a carbon line", lambda: BeamEmissionLine(cvi), exc=ValueError)
    expect("BeamEmissionLine for Balmer-beta", lambda: BeamEmissionLine(Line(el.hydrogen, 0, (4, 2))), exc=ValueError)
    for iso in (el.hydrogen, el.deuterium, el.tritium):
        expect("BeamEmissionLine accepts Balmer-alpha of %s" % iso.name,
               lambda iso=iso: BeamEmissionLine(Line(iso, 0, (3, 2))).line.element is iso, value=True)
    expect("BeamEmissionLine.line = carbon line", lambda: setattr(BeamEmissionLine(Line(el.deuterium, 0, (3, 2))), "line", cvi),
           exc=ValueError)
    # beam element different from the line's isotope: TypeError when the cache is populated
    case = {"kind": "bes", "species": [{"el": 1, "charge": 1, "n0": 1e19, "t0": 100.0, "v0": [0.0, 0.0, 0.0]}], "b0": [0.0, 1.0, 0.0],
            "plasma_point": [0.5, 0.5, 0.5], "beam_point": [0.0, 0.0, 0.5],
            "beam": {"energy": 5e4, "length": 1.0, "att0": 1e15, "dir": [0.0, 0.0, 1.0], "element": 1}, "pecs": [[1e-35, 0, 0, 0]]}
    log = []
    plasma = impl.build_plasma(case, log)
    beam = impl.build_beam(case, plasma, impl.StubData(case, log), log)
    wrong = BeamEmissionLine(Line(el.hydrogen, 0, (3, 2)))
    beam.models = [wrong]
    expect("BeamEmissionLine of hydrogen on a deuterium beam", lambda: wrong.emission(pt, pt, v, v, sp), exc=TypeError)
    expect("Beam.density without an attenuator", lambda: Beam().density(0, 0, 0.5), exc=ValueError)
    return fails


# ---------------------------------------------------------------------------------------------
def run(ctx):
    ctx.trusted += [
        "Coq 8.16.1 kernel, vm_compute (no native_compute)",
        "harness/c05.py + c05_impl.py: case generator, stub attenuator / atomic data / line shape, Q literal printer, "
        "comparator in Model/C05_Check.v (relative 2^-40 on radiance and on every logged argument)",
        "libm sqrt and IEEE double rounding: the model takes sqrt as an oracle; the correspondence instantiates it with "
        "floor(sqrt(x 4^64))/2^64 computed in Coq (error bound proved in Proofs/C05_Check.v)",
        "Stark multiplet: the positions of the components (Doppler shift, Stark splitting, thermal width) are not modelled; the harness "
        "places its read-back windows between the components with the splitting factor 2.77e-8 copied from mse.pyx; erf saturation to 1.0",
        "default Stark ratios SIGMA_TO_PI .. PI4_TO_PI3 are re-read from beam_emission.pyx on every run (fail-closed regex)",
        "raysect Vector3D / Function3D autowrap / Spectrum, Maxwellian as a pass-through of its three functions, "
        "BeamEmissionMultiplet + erf (beam-emission total is read back as the wavelength integral of the spectrum)",
    ]
    ctx.assumptions += [
        "point-wise statement: a species is represented by the density, temperature and bulk velocity its distribution returns at the point",
        "rate objects are arbitrary functions of their arguments in the theorems; the correspondence uses affine non-negative rate functions",
        "'total ion density' is Plasma.ion_density as documented (sum over every species of the composition, neutrals included)",
        "the bound min <= q <= max needs non-negative relative populations, which follow from non-negative population coefficients, "
        "non-negative densities, charges >= 0 and a positive total charge density (stated as hypotheses of the theorem)",
    ]
    ctx.rebuild()
    ctx.proofs("Properties.C05", THEOREMS, extra_modules=("Model.C05_Check", "Proofs.C05_Check", "Model.C05_History",
                                                          "Proofs.C05_History", "Model.C05_Mse", "Proofs.C05_Mse"))

    import cherab
    from common import REPO
    assert list(cherab.__path__) == [REPO + "/cherab"], cherab.__path__
    import c05_impl as impl

    # ---- (T) constants ------------------------------------------------------------------------
    MSE_DEFAULTS[:] = read_mse_defaults(REPO)
    K = read_constants(REPO)
    k4pi, e_charge, amu = K["RECIP_4_PI"], K["ELEMENTARY_CHARGE"], K["ATOMIC_MASS"]
    ok_k = abs(k4pi * 4 * math.pi - 1) <= 4e-16 and e_charge > 0 and amu > 0
    ctx.obligation("constants.pyx: RECIP_4_PI = 1/(4 pi) to 2 ulp, ELEMENTARY_CHARGE > 0, ATOMIC_MASS > 0", "tie", ok_k,
                   json.dumps(K))
    if not ok_k:
        ctx.violation("c05:constants", "RECIP_4_PI in constants.pyx is %r (%s), not 1/(4 pi)" % (k4pi, K["RECIP_4_PI_expr"]),
                      K, found=True)
    header = ("Require Import Cherab.Common.Qx Cherab.Model.C05_BeamModels Cherab.Model.C05_Check.\n"
              "Open Scope Q_scope.\n"
              "Definition K : consts := mkConsts %s %s %s.\n" % (qlit(e_charge), qlit(amu), qlit(k4pi)))

    # ---- (T) kernel-checked tie: constants and the probed notification table (coq/Gen/C05/Tie.v) ----------
    probed, probe_detail = impl.probe_notifications()
    from fractions import Fraction
    pi_lo, pi_hi = Fraction(3141592653589793, 10 ** 15), Fraction(3141592653589794, 10 ** 15)
    tie = ("Require Import Cherab.Common.Qx Cherab.Model.C05_BeamModels Cherab.Model.C05_History Cherab.Model.C05_Check.\n"
           "Open Scope Q_scope.\n"
           "(* regenerated on every run: constants.pyx as read by the translator, and which public mutator clears the\n"
           "   caches of live BeamCXLine / BeamEmissionLine objects, obtained by probing the running implementation *)\n"
           "Definition K : consts := mkConsts %s %s %s.\n"
           "Lemma constants_ok : (Qle_bool (1 / (4 * %s) * (1 - pow2 (-51))) (c_k4pi K) && Qle_bool (c_k4pi K) (1 / (4 * %s) * (1 + pow2 (-51)))\n"
           "                      && negb (Qle_bool (c_e K) 0) && negb (Qle_bool (c_amu K) 0)) = true.\n"
           "Proof. vm_compute. reflexivity. Qed.\n"
           "Definition probed : list (Z * (bool * bool)) := [%s].\n"
           "Lemma table_ok_probed : table_ok (table_of probed) = true.\nProof. vm_compute. reflexivity. Qed.\n"
           % (qlit(e_charge), qlit(amu), qlit(k4pi), qlit(pi_hi), qlit(pi_lo),
              "; ".join("(%d%%Z, (%s, %s))" % (k, str(a).lower(), str(b).lower()) for k, (a, b) in sorted(probed.items()))))
    from common import coqc
    ok_tie, out_tie = coqc(ctx.write_gen("Tie.v", tie), timeout=300)
    ctx.obligation("Gen/C05/Tie.v: constants_ok (RECIP_4_PI within 2^-51 of 1/(4 pi), e > 0, amu > 0) and table_ok_probed "
                   "(every cache-relevant mutator kind clears the caches of both live models; table probed from the "
                   "implementation: %s)" % {impl.PROBE_KINDS[k]: v for k, v in sorted(probed.items())}, "tie", ok_tie, out_tie)
    if not ok_tie:
        bad_kinds = [k for k in range(6) if not all(probed[k])]
        ctx.log("Tie.v FAILED: mutator kinds that leave a cache uncleared: %s" % [impl.PROBE_KINDS[k] for k in bad_kinds])

    # ---- cases: corpus first, then generated ----------------------------------------------------
    rng = ctx.rng
    nel = len(impl.ELEMENTS)
    n_cx, n_bes, n_pl = (60, 24, 16) if ctx.quick else (4000, 1400, 600)
    n_hist, n_steps = (8, 6) if ctx.quick else (150, 9)
    n_mse = 6 if ctx.quick else 200
    cases = []
    for p in sorted(glob.glob(os.path.join(VERIF, "corpus", "C05", "*.json"))):
        if not os.path.basename(p).startswith("history_"):
            cases.append(json.load(open(p))["case"])
    n_corpus = len(cases)
    if ctx.replay:
        # bin/check C05 quick --replay replays/C05-xxxx.json : the corpus and the recorded case only
        rp = json.load(open(ctx.replay))
        rc = (rp.get("replay") or {}).get("case") or (rp.get("replay") or {}).get("last_case_started")
        n_cx = n_bes = n_pl = 0
        if rc:
            cases.append(rc)
            n_cx, n_bes, n_pl = [int(rc["kind"] == k) for k in ("cx", "bes", "plasma")]
    histories = []
    if ctx.replay and (rp.get("replay") or {}).get("history"):
        histories.append(rp["replay"]["history"])
    for p in sorted(glob.glob(os.path.join(VERIF, "corpus", "C05", "history_*.json"))):
        histories.append(json.load(open(p))["history"])
    cases += [gen_case(rng, "cx", nel) for _ in range(n_cx if not ctx.replay else 0)]
    if not ctx.replay:
        cases += [gen_case(rng, "bes", nel) for _ in range(n_bes)]
        cases += [gen_case(rng, "plasma", nel) for _ in range(n_pl)]
        cases += [gen_mse_case(rng, nel) for _ in range(n_mse)]
        histories += [gen_history(rng, nel, n_steps) for _ in range(n_hist)]

    outs, texts, search_fails, log_fails, fresh_fails, hist_views, hist_evals = [], [], [], [], [], [], []

    ambiguous = []

    def record(i, case, out):
        outs.append(out)
        if impl.threshold_margin(out.get("log", [])) < 2.0 ** -30:
            # an evaluation energy within 2^-30 of a table's threshold: which side it falls on is a rounding matter;
            # counted, excluded from the comparison with the model and from the search
            ambiguous.append(i)
            texts.append("true")
            return
        texts.append(coq_case(impl, case, out))
        for f in impl.property_failures(case, out, 1 / (4 * math.pi), e_charge, amu):
            search_fails.append((i, f))
        for f in log_consistency(case, out):
            log_fails.append((i, f))

    for i, case in enumerate(cases):
        ctx.crumb(case)
        record(i, case, impl.run_case(case))
    n_single = len(cases)
    # ---- histories on one scene with live models ----------------------------------------------------
    for hi, hist in enumerate(histories):
        ctx.crumb({"history": hist})
        views = []
        hist_views.append(views)
        hist_evals.append([])
        for case, out, k in impl.run_history(hist, views):
            case["_history"], case["_step"], case["_op"] = hi, k, hist["steps"][k]["op"]
            if case["kind"] in ("cx", "bes"):
                hist_evals[-1].append((case, out))
            cases.append(case)
            record(len(cases) - 1, case, out)
            # the same configuration on a freshly built scene must give bitwise the same result
            fresh = impl.run_case({k: v for k, v in case.items() if not k.startswith("_")})
            same = (fresh["code"] == out["code"] and fresh["radiance"] == out["radiance"]
                    and fresh.get("zeff") == out.get("zeff") and fresh.get("nion") == out.get("nion")
                    and [l[2] for l in fresh["log"] if l[0] == "cx"][:1] == [l[2] for l in out["log"] if l[0] == "cx"][:1])
            if not same:
                fresh_fails.append((len(cases) - 1, "live objects after step %d (%s) give code %r radiance %r, a freshly built scene "
                                    "with the same configuration gives code %r radiance %r"
                                    % (k, hist["steps"][k]["op"], out["code"], out["radiance"], fresh["code"], fresh["radiance"])))
    ctx.log("implementation ran on %d single-evaluation cases (%d from the corpus) and %d histories (%d evaluations)"
            % (n_single, n_corpus, len(histories), len(cases) - n_single))

    # ---- run the model in Coq -------------------------------------------------------------------
    files = []
    per = 10 if ctx.quick else 25
    for si in range(0, len(cases), per):
        chunk = texts[si:si + per]
        txt = (header + "Definition results : list bool := [\n  " + ";\n  ".join(chunk)
               + "].\nEval vm_compute in (failing results).\n")
        files.append((ctx.write_gen("cases_%03d.v" % (si // per), txt), list(range(si, si + len(chunk)))))
    # the composition mutations of every history, run through comp_add / comp_set of Model/C05_History.v
    def entry(s):
        return "(%s%%Z, %s%%Z, %s)" % (zlit(s["el"]), zlit(s["charge"]), qlit(impl.species_values(s, 0.0, 0.0, 0.0)[0]))

    def cop(o):
        if o[0] == "add":
            s = o[1]
            return "CAdd %s %s %s" % (zlit(s["el"]), zlit(s["charge"]), qlit(impl.species_values(s, 0.0, 0.0, 0.0)[0]))
        if o[0] == "set":
            return "CSet [%s]" % "; ".join(entry(s) for s in o[1])
        return "CClear"

    hist_lines = []
    for views in hist_views:
        steps = []
        for ops, view in views:
            seen = "[%s]" % "; ".join("(%s%%Z, %s%%Z, %s)" % (zlit(k[0]), zlit(k[1]), qlit(n))
                                      for k, n in zip(view["keys"], view["density_at_origin"]))
            steps.append("([%s], %s)" % ("; ".join(cop(o) for o in ops), seen))
        hist_lines.append("check_comp_history [] [%s]" % ";\n    ".join(steps))
    # the cached state machine run by Coq with the PROBED notification table on whole histories
    probed_txt = "[%s]" % "; ".join("(%d%%Z, (%s, %s))" % (k, str(a).lower(), str(b).lower()) for k, (a, b) in sorted(probed.items()))
    n_machine = len(histories)
    mach_hist = [hi for hi in range(len(histories))
                 if all(impl.threshold_margin(o.get("log", [])) >= 2.0 ** -30 for _, o in hist_evals[hi])][:n_machine]
    mach_files = []
    for j in range(0, len(mach_hist), 2):
        chunk = mach_hist[j:j + 2]
        txt = (header.replace("Cherab.Model.C05_Check.", "Cherab.Model.C05_Check Cherab.Model.C05_History.")
               + "Definition results : list bool := [\n  "
               + ";\n  ".join(machine_text(impl, histories[hi], hist_evals[hi], probed_txt) for hi in chunk)
               + "].\nEval vm_compute in (failing results).\n")
        mach_files.append((ctx.write_gen("machine_%03d.v" % (j // 2), txt), chunk))
    setter, cx_none, cache = impl.line_policy_cases()
    bl = lambda v: "true" if v else "false"
    pol_file = ctx.write_gen("line_policy.v", header.replace("Cherab.Model.C05_Check.", "Cherab.Model.C05_Check Cherab.Model.C05_Mse.")
                             + "Definition results : list bool := [\n  "
                             + ";\n  ".join(["check_bes_line (%s, %s, %s%%Z, %s%%Z, %s%%Z, %s%%Z)" % (bl(n), bl(f), zlit(ch), zlit(u), zlit(lo), zlit(c))
                                              for n, f, ch, u, lo, c in setter]
                                             + ["(setter_code (cx_line_setter %s) =? %s)%%Z" % (bl(n), zlit(c)) for n, c in cx_none]
                                             + ["check_bes_cache (%s%%Z, %s%%Z, %s%%Z, %s%%Z)" % (zlit(b), zlit(l), zlit(ch), zlit(c)) for b, l, ch, c in cache])
                             + "].\nEval vm_compute in (failing results).\n")
    hist_file = None
    if hist_lines:
        hist_file = ctx.write_gen("composition_histories.v", header + "Definition results : list bool := [\n  "
                                  + ";\n  ".join(hist_lines) + "].\nEval vm_compute in (failing results).\n")
    res = coqc_many([f for f, _ in files] + ([hist_file] if hist_file else []) + [pol_file] + [f for f, _ in mach_files], timeout=900)
    # a coqc process that was killed from outside (out-of-memory killer on a loaded machine: no output at all) or timed
    # out is run again, alone; a file that compiles and reports DIFF is never re-run
    retried = [f for f, (ok, outp) in res.items() if not ok and (not outp.strip() or outp.startswith("TIMEOUT"))]
    for f in retried:
        res[f] = coqc(f, timeout=1800)
    if retried:
        ctx.log("re-ran %d generated files whose coqc process was killed / timed out" % len(retried))
    mach_bad = []
    for f, chunk in mach_files:
        ok, outp = res[f]
        vals = parse_evals(outp) if ok else []
        good = ok and len(vals) == 1
        failing = parse_zlist(vals[0]) if good else []
        ctx.obligation("state machine %s: run_live with the probed notification table, run by Coq on %d whole histories (%d evaluations) == "
                       "outcome kind exactly and radiance at 2^-40 of every evaluation of the live objects, in order"
                       % (os.path.basename(f), len(chunk), sum(len(hist_evals[hi]) for hi in chunk)), "correspondence",
                       good and not failing, outp if not good else "DIFF in histories %s" % [chunk[i] for i in failing])
        if not good:
            ctx.broken.append("coqc failed on %s: %s" % (f, outp[-500:]))
        mach_bad += [chunk[i] for i in failing]
    for hi in mach_bad:
        log_fails.append((n_single, "the live objects of history %d do not follow the cached state machine with the probed table" % hi))
    ok, outp = res[pol_file]
    vals = parse_evals(outp) if ok else []
    good = ok and len(vals) == 1
    failing = parse_zlist(vals[0]) if good else []
    ctx.obligation("line setters and BeamEmissionLine._populate_cache: outcome kind (accepted / ValueError / TypeError) == the policy of "
                   "Model/C05_Mse.v run by Coq, exactly (%d calls on every element, several charges and transitions, None)"
                   % (len(setter) + len(cx_none) + len(cache)), "correspondence", good and not failing,
                   outp if not good else "DIFF at %s" % failing)
    if not good:
        ctx.broken.append("coqc failed on %s: %s" % (pol_file, outp[-500:]))
    for j in failing:
        log_fails.append((0, "line setter / cache check outcome differs from the policy model: entry %d of %r"
                          % (j, (setter + cx_none + cache)[j])))
    if hist_file:
        ok, outp = res[hist_file]
        vals = parse_evals(outp) if ok else []
        good = ok and len(vals) == 1
        failing = parse_zlist(vals[0]) if good else []
        ctx.obligation("composition histories: comp_add / comp_set / clear of the model run by Coq == keys, order and members the "
                       "real container reports after every step, exactly (%d histories, %d steps)"
                       % (len(hist_views), sum(len(v) for v in hist_views)), "correspondence", good and not failing,
                       outp if not good else "DIFF in histories %s" % failing)
        if not good:
            ctx.broken.append("coqc failed on %s: %s" % (hist_file, outp[-500:]))
        for h in failing:
            log_fails.append((n_single, "composition container of history %d does not follow the dictionary model" % h))
    diff = []
    for f, ids in files:
        ok, outp = res[f]
        vals = parse_evals(outp) if ok else []
        good = ok and len(vals) == 1
        failing = parse_zlist(vals[0]) if good else []
        ctx.obligation("correspondence %s (%d cases)" % (os.path.basename(f), len(ids)), "correspondence",
                       good and not failing, outp if not good else "DIFF at local indices %s" % failing)
        if not good:
            ctx.broken.append("coqc failed on %s: %s" % (f, outp[-500:]))
        diff += [ids[j] for j in failing]
    ctx.obligation("call log: one argument tuple per evaluation, every metastable and every ion evaluated, attenuator "
                   "sampled at the beam point (%d cases)" % len(cases), "correspondence", not log_fails, str(log_fails[:3]))
    ctx.obligation("history evaluations: live objects == freshly built scene with the current configuration, bitwise (%d evaluations)"
                   % (len(cases) - n_single), "correspondence", not fresh_fails, str(fresh_fails[:3]))
    api_fails = api_checks(impl)
    ctx.obligation("second-order call sites of the anchored files: argument validation, unconnected models, container lookups "
                   "(%d expectations, Python level, not modelled in Coq)" % API_COUNT[0], "correspondence", not api_fails, str(api_fails[:5]))
    log_fails += fresh_fails + [(0, f) for f in api_fails]
    ctx.log("correspondence: %d cases, %d disagree with the model, %d call-log / fresh-scene / API faults" % (len(cases), len(diff), len(log_fails)))

    # ---- failing-input search (the property itself on the implementation) ---------------------------
    ctx.obligation("executable property on the implementation (%d cases)" % len(cases), "search", not search_fails,
                   str(search_fails[:3]))

    def slim(i):
        o = dict(outs[i])
        o["log"] = [list(l) for l in o["log"][:40]]
        r = {"case": cases[i], "implementation": o,
             "how": "harness/c05_impl.py: run_case(case) then property_failures(case, out, 1/(4 pi), e, amu)"}
        if "_history" in cases[i]:
            r["history"] = histories[cases[i]["_history"]]
            r["how"] = ("harness/c05_impl.py: run_history(history); the failing evaluation is the one after step %d (%s); "
                        "`case` is the configuration at that moment, against which the formulas are checked"
                        % (cases[i]["_step"], cases[i]["_op"]))
        return r

    reported = set()
    for i, f in search_fails:
        # stable key: the claim that fails, without the numbers
        key = "c05:" + cases[i]["kind"] + ":" + re.sub(r"[^a-z]+", "-", re.sub(r"[-+]?\d[\d.]*(e[-+]?\d+)?", "", f.lower()))[:60].strip("-")
        if key in reported:
            continue
        reported.add(key)
        ctx.violation(key, f, slim(i), found=True)
        if len(reported) >= 5:
            break
    if (diff or log_fails) and not search_fails:
        for i in (diff + [j for j, _ in log_fails])[:3]:
            why = [f for j, f in log_fails if j == i]
            ctx.violation("c05-diff:%s" % cases[i]["kind"],
                          "model and implementation differ for a %s case (%s); the executable property found no failing input"
                          % (cases[i]["kind"], why[0] if why else "radiance / outcome / argument tuple"),
                          dict(slim(i), correspondence="coq/Gen/C05/cases_%03d.v local index %d" % (i // per, i % per)),
                          found=False)

    # ---- coverage --------------------------------------------------------------------------------
    def nontrivial(c, o):
        if c["kind"] == "cx":
            return o["code"] == 1 and len(c["rates"]) >= 2
        if c["kind"] == "bes":
            return o["code"] == 1 and sum(1 for s in c["species"] if s["charge"] >= 1) >= 2
        return o["code"] == 1 and len(c["species"]) >= 2

    dist = {"cx": n_cx, "bes": n_bes, "plasma": n_pl, "corpus": n_corpus, "histories": len(histories),
            "history_evaluations": len(cases) - n_single}
    hcases = cases[n_single:]
    hist = lambda xs: {str(k): xs.count(k) for k in sorted(set(xs))}
    gen = cases[n_corpus:]
    gouts = outs[n_corpus:]
    ctx.coverage.update({
        "evaluations": len(cases),
        "distinct_nontrivial": len({json.dumps(c, sort_keys=True) for c, o in zip(cases, outs) if nontrivial(c, o)}),
        "rule": "one case = one call of BeamCXLine.emission / BeamEmissionLine.emission / Plasma.z_effective+ion_density, either on a "
                "freshly built Beam + Plasma or as one evaluation of a history (one scene with live BeamCXLine and BeamEmissionLine, "
                "mutated through composition.add of a new / an existing key, composition assignment, .set, .clear + re-add, "
                "b_field, electron_distribution, beam.energy / element / temperature / length / attenuator, beam.atomic_data, "
                "model.line; every evaluation is compared with the model fed the configuration current at that moment); non-trivial = a line was emitted and (cx) at least one excited beam state / "
                "(bes, plasma) at least two species take part; distinct = distinct input dictionaries",
        "distribution": {
            "kinds": dist,
            "history_evaluations_after_op": hist([c["_op"] for c in hcases]),
            "history_evaluation_kinds": hist([c["kind"] for c in hcases]),
            "history_steps_per_history": hist([len(h["steps"]) for h in histories]),
            "species_per_case": hist([len(c["species"]) for c in gen]),
            "cases_with_neutral_species": sum(1 for c in gen if any(s["charge"] == 0 for s in c["species"])),
            "cases_with_flow": sum(1 for c in gen if any(any(s["v0"]) for s in c["species"])),
            "metastables(cx)": hist([len(c["rates"]) for c in gen if c["kind"] == "cx"]),
            "ground_rate_position(cx)": hist([[r["m"] for r in c["rates"]].index(1) for c in gen if c["kind"] == "cx"]),
            "beam_class": hist([c["beam_class"] for c in gen if "beam_class" in c]),
            "receiver_class(cx)": hist([c["receiver_class"] for c in gen if c["kind"] == "cx"]),
            "outcome_codes(0 untouched,1 line,2 RuntimeError,3 ValueError)": hist([o["code"] for o in gouts]),
            "dyadic_inputs": sum(1 for c in gen if c["exact"]),
            "scaled_by_powers_of_two": sum(1 for c in gen if c.get("scaled")) + sum(1 for h in histories if h["cfg"].get("scaled")),
            "species_argument_forms": hist([s.get("form", "fn") for c in gen for s in c["species"]]),
            "numpy_integer_charges": sum(1 for c in gen for s in c["species"] if s.get("charge_np")),
            "constant_vector_b_field": sum(1 for c in gen if c.get("b_form") == "const"),
            "composition_given_with_duplicate_keys": sum(1 for c in cases[:n_single] if c.get("species_raw")) +
                sum(1 for h in histories for st in [h["cfg"]] + h["steps"] if st.get("species_raw")),
            "composition_iterable_form": hist([c.get("comp_form", "list") for c in cases[:n_single]]),
            "no_ion_or_empty_composition": sum(1 for c in gen if not any(s["charge"] >= 1 for s in c["species"])),
            "models_configured_through": hist([c.get("attach", "models") for c in gen if c["kind"] != "plasma"]),
            "cx_line_shape": hist([c.get("lineshape", "recorder") for c in gen if c["kind"] == "cx"]),
            "bes_explicit_ratio_arguments": sum(1 for c in gen if c["kind"] == "bes" and c.get("bes_ratios")),
            "non_contiguous_metastable_labels(cx)": sum(1 for c in gen if c["kind"] == "cx" and
                                                        sorted(r["m"] for r in c["rates"]) != list(range(1, len(c["rates"]) + 1))),
            "zero_beam_energy": sum(1 for c in gen if c.get("beam", {}).get("energy") == 0.0),
            "history_guard_crossings": hist([st["guard"] for h in histories for st in h["steps"] if "guard" in st][::2]),
            "history_reassign_same": hist([st["what"] for h in histories for st in h["steps"] if st["op"] == "reassign_same"]),
            "history_ops": hist([st["op"] for h in histories for st in h["steps"]]),
            "api_expectations": API_COUNT[0],
            "histories_run_through_the_state_machine_in_coq": len(mach_hist),
            "stark_multiplet_cases": n_mse if not ctx.replay else 0,
            "cases_with_an_exactly_zero_cx_table": sum(1 for c in gen if c["kind"] == "cx" and any(is_zero_table(r["c"], 6) for r in c["rates"])),
            "...ground_state_table_zero": sum(1 for c in gen if c["kind"] == "cx" and any(r["m"] == 1 and is_zero_table(r["c"], 6) for r in c["rates"])),
            "...some_but_not_all_excited_tables_zero": sum(1 for c in gen if c["kind"] == "cx" and 0 < sum(1 for r in c["rates"] if r["m"] != 1 and is_zero_table(r["c"], 6))
                                                           < sum(1 for r in c["rates"] if r["m"] != 1)),
            "...all_excited_tables_zero": sum(1 for c in gen if c["kind"] == "cx" and len(c["rates"]) > 1 and
                                              all(is_zero_table(r["c"], 6) for r in c["rates"] if r["m"] != 1)),
            "cases_with_an_exactly_zero_population_table_of_an_ion": sum(1 for c in gen if c["kind"] == "cx" and any(
                is_zero_table(pc, 4) for r in c["rates"] if r["m"] != 1 for pc, sp in zip(r["pop"], c["species"]) if sp["charge"] >= 1)),
            "cases_with_an_exactly_zero_beam_emission_table_of_an_ion": sum(1 for c in gen if c["kind"] == "bes" and any(
                is_zero_table(pc, 4) for pc, sp in zip(c["pecs"], c["species"]) if sp["charge"] >= 1)),
            "cases_with_null_rate_objects_for_ions": sum(1 for c in gen if any(impl.is_null(r["c"], 6) or any(impl.is_null(pc, 4) for pc in r["pop"])
                                                                                for r in c.get("rates", [])) or any(impl.is_null(pc, 4) for pc in c.get("pecs", []))),
            "cases_with_energy_threshold_tables": sum(1 for c in gen if any((len(r["c"]) > 6 and 0 < r["c"][6] < 2.0 ** 60) or
                                                                             any(len(pc) > 4 and 0 < pc[4] < 2.0 ** 60 for pc in r["pop"])
                                                                             for r in c.get("rates", [])) or
                                                      any(len(pc) > 4 and 0 < pc[4] < 2.0 ** 60 for pc in c.get("pecs", []))),
            "evaluations_in_which_a_rate_object_returned_exactly_0": sum(1 for o in gouts if any(l[0] in ("cx", "pop", "pec") and l[3] == 0.0 for l in o.get("log", []))),
            "evaluations_in_which_a_cx_coefficient_was_0_and_another_was_not": sum(
                1 for o in gouts if {l[3] == 0.0 for l in o.get("log", []) if l[0] == "cx"} == {True, False}),
            "threshold_ambiguous_excluded": len(ambiguous),
            "species_with_zero_density": sum(1 for c in gen for sp in c["species"] if sp["n0"] == 0),
        },
        "tolerance": {"outcome kind, call counts, sampled points": "exact",
                      "radiance, BeamCXPEC arguments, population / emission coefficient arguments, Z_eff, ion density": "relative 2^-40",
                      "history evaluation on live objects vs freshly built scene (code, radiance, Z_eff, ion density, BeamCXPEC arguments)": "bitwise",
                      "composition container after every history step (keys, order, member densities) vs comp_add/comp_set run by Coq": "exact",
                      "RECIP_4_PI vs 1/(4 pi) (Gen/C05/Tie.v, kernel-checked)": "relative 2^-51",
                      "notification table (Gen/C05/Tie.v, kernel-checked)": "exact booleans, probed from the implementation",
                      "beam-emission / default-line-shape totals read back from the spectrum": "relative 2^-40",
                      "whole histories through run_live (cached state machine, probed table) run by Coq: outcome kind per evaluation": "exact",
                      "... radiance per evaluation": "relative 2^-40",
                      "Stark multiplet: integrals of the real spectrum over five nested windows vs cumulative component intensities of the model": "relative 2^-40",
                      "line setters / BeamEmissionLine cache check: outcome kind vs policy model run by Coq": "exact",
                      "executable property (search)": "relative 1e-9"},
        "probed_notification_table": {impl.PROBE_KINDS[k]: list(v) for k, v in sorted(probed.items())},
        "partial": ["the wavelength integral is taken as the radiance handed to the line shape (CX: recording LineShapeModel; "
                    "beam emission: read back from the spectrum through the real BeamEmissionMultiplet); normalisation of the "
                    "line shapes themselves is property C02",
                    "Beam.density is modelled only as the 0 <= z <= length clamp around the attenuator (attenuation is C04)"],
    })
    small = lambda c: {k: v for k, v in c.items() if k != "rates"} if c["kind"] == "cx" else c
    picks = [n_corpus, min(n_corpus + n_cx, len(cases) - 1)] if len(cases) > n_corpus else [0]
    ctx.coverage["samples"] = [{"case": small(cases[i]), "code": outs[i]["code"], "radiance": outs[i]["radiance"]}
                               for i in sorted(set(picks))]
    ctx.grep_gate()
