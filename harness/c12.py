"""C12 -- Equilibrium maps flux functions onto flux surfaces with an orthonormal basis
(cherab/tools/equilibrium/efit.pyx, cherab/core/math/{mappers,mask,clamp}.pyx).

Theorems: coq/Properties/C12.v (all points, profiles, outside values, interpolated functions, both signs).
Tie: correspondence -- the real EFITEquilibrium (bundled example + Generomak + synthetic Solov'ev-type
grids of both signs) is evaluated at random 3-D points; every output (psi_n, inside_lcfs, map2d, map3d,
b_field, the three basis vectors, map_vector2d, map_vector3d) is compared inside Coq with the model
(vm_compute) fed with the running system's interpolated psi / d psi / polygon mask / profile values
and libm's sqrt, cos, sin; the np.gradient grids behind d psi are compared at grid nodes.
Search: the executable statement of the property on the implementation (harness/c12_eq.py).
"""
import math
import os

import numpy as np

from common import qlit, qlist, zlist, coqc, coqc_many, parse_evals, parse_zlist

import c12_eq as H

THEOREMS = ["C12_psin_nonneg", "C12_psin_is_normalised_flux_partial", "C12_map2d_spec", "C12_map3d_axisymmetric",
            "C12_basis_orthogonal", "C12_basis_unit_partial", "C12_field_in_flux_surface",
            "C12_vector2d_components_partial", "C12_vector3d_rotated_partial", "C12_gradient_exact_on_quadratics",
            "C12_psin_code_order", "C12_zero_speed_components", "C12_unit_speeds_give_basis", "C12_blends_are_selections",
            "C12_components_with_approximate_sqrt", "C12_real_basis_orthonormal", "C12_real_velocity_components",
            "C12_profile_array_policy", "C12_lcfs_mask_with_polygon", "C12_fast_evaluators_equal_model",
            "C12_source_patterns_cover_all_vectors", "C12_model_real_bridge", "C12_model_rotation_is_real_rotation",
            "C12_array_profile_through_knots", "C12_cubic_profile_affine"]

CODE_OF = {"accepted": 0, "IndexError": 1, "ValueError": 2}

STAGES = {93: "sqrt argument (harness)", 94: "libm sqrt not correctly rounded", 1: "psi_normalised", 2: "inside_lcfs", 3: "map2d", 4: "map3d", 5: "b_field", 6: "toroidal_vector",
          7: "poloidal_vector", 8: "surface_normal", 9: "map_vector2d", 10: "map_vector3d",
          90: "oracle table inconsistent (harness)", 91: "sqrt(x*x+y*y) differs from the harness's (harness)"}


def vlit(v):
    return "(V %s %s %s)" % (qlit(v[0]), qlit(v[1]), qlit(v[2]))


def case_text(E, PS, o):
    b = o["b"]
    from fractions import Fraction
    # exact x^2 + y^2 -> the radius the implementation's mapper used (validated inside Coq: oracles_ok)
    sq = [(Fraction(o["x"]) ** 2 + Fraction(o["y"]) ** 2, o["r"])]
    t = b[0] * b[0] + 0.0 * 0.0 + b[2] * b[2]
    if t != 0.0:
        sq.append((t, math.sqrt(t)))
    sq_txt = "[" + "; ".join("(%s, %s)" % (qlit(k), qlit(v)) for k, v in sq) + "]"
    parts = [qlit(E.psi_axis), qlit(E.psi_lcfs), qlit(E.bvac_r), qlit(E.bvac_m),
             qlit(o["x"]), qlit(o["y"]), qlit(o["z"]), sq_txt, qlit(o["r"]),
             qlit(o["psi"]), qlit(o["poly"]), qlit(o["dr"]), qlit(o["dz"]),
             qlit(o["psin"]), qlit(o["f"]), qlit(o["prof"]), qlit(o["vt"]), qlit(o["vp"]), qlit(o["vn"]),
             "(%s, %s)" % (qlit(o["cs"][0]), qlit(o["cs"][1])),
             qlit(PS.outside), vlit(PS.outv_t),
             qlit(o["psin"]), qlit(o["inside"]), qlit(o["map2d"]), qlit(o["map3d"]),
             vlit(o["b"]), vlit(o["tor"]), vlit(o["pol"]), vlit(o["nor"]), vlit(o["v2"]), vlit(o["v3"]),
             "%d%%Z" % o["skip"]]
    return "(C12case " + " ".join(parts) + ")"


def finite(o):
    for k, v in o.items():
        vals = v if isinstance(v, tuple) else (v,)
        for t in vals:
            if isinstance(t, float) and not math.isfinite(t):
                return False
    return True


def run(ctx):
    ctx.trusted += [
        "Coq 8.16.1 kernel, vm_compute (no native_compute)",
        "axioms of Coq.Reals (ClassicalDedekindReals.sig_forall_dec, sig_not_dec, functional_extensionality_dep) under the two "
        "C12_real_* theorems and the two bridge theorems (C12_model_real_bridge, C12_model_rotation_is_real_rotation) only; every other "
        "theorem is closed under the global context",
        "read-only imports from other properties: Model/C07_Cubic.v + Proofs/C07_Cubic.v (raysect 1-D cubic and its knot theorem), "
        "Model/C07_Rates.v (increasingq), Model/C11_Round.v (binary64 round-to-nearest-even on rationals, used by the exact replay)",
        "harness/c12_translate.py (regular expressions over efit.pyx, fail-closed) and the classifier coq_parg of profile arguments",
        "harness/c12.py, harness/c12_eq.py: equilibrium and point generators, one-entry function tables, Q literal printer, "
        "comparator Model/C12_Check.v (tolerances below), reference point-in-polygon test of the search",
        "raysect: Interpolator2DArray / Interpolator1DArray (cubic), triangulate2d + Discrete2DMesh behind PolygonMask2D, "
        "Vector3D arithmetic; libm sqrt, atan2, cos, sin; NumPy gradient / array arithmetic; IEEE double rounding "
        "(compared under relative 2^-40; discrete outputs and profile values exactly)",
    ]
    ctx.assumptions += [
        "the interpolated psi, d psi/dr, d psi/dz, the polygon mask and the 1-D profile interpolants are functions given to "
        "the model (fields of `env`); theorems hold for all such functions; that the cubic interpolator commutes with the "
        "affine normalisation of the grid is measured on every case (psin tolerance), not proved",
        "sqrt is a function Q -> Q: unit length and exact components are proved where it is exact, and as an enclosure "
        "[1/(1+e), 1/(1-e)] for a sqrt of relative accuracy e; orthogonality and normal = poloidal x toroidal need no assumption",
        "inside the LCFS = inside the LCFS polygon and psi_n <= 1 (the definition used by EFITLCFSMask)",
    ]
    ctx.rebuild()
    ctx.proofs("Properties.C12", THEOREMS, extra_modules=("Model.C12_Check", "Model.C12_Interp", "Model.C12_Profile", "Model.C12_Polygon", "Model.C12_Source", "Model.C12_Exact", "Model.C12_Cubic"))

    import cherab
    from common import REPO
    assert list(cherab.__path__) == [REPO + "/cherab"], cherab.__path__

    rng = ctx.rng
    quick = ctx.quick
    ctx.log("proofs checked")
    # ---- source tie: constants / component patterns of efit.pyx regenerated and re-checked by the kernel ----
    import c12_translate
    try:
        tie_text, source_facts = c12_translate.translate(REPO)
        ok_t, out_t = coqc(ctx.write_gen("Tie.v", tie_text), timeout=600)
        ctx.obligation("source tie lemma Gen/C12/Tie.v (source_ok src = true)", "tie", ok_t, out_t)
    except c12_translate.TranslateError as e:
        source_facts = {"error": str(e)}
        ctx.obligation("source translator (efit.pyx -> Gen/C12/Tie.v)", "tie", False, str(e))
    ctx.log("source tie checked")
    # ---- equilibria -----------------------------------------------------------------------------
    eqs = []
    for name in ("example", "generomak"):
        ctx.crumb({"building": name})
        eq, inputs = H.bundled(name)
        E = H.Eq(name, eq, inputs)
        E.rebuild = (lambda name=name: H.Eq(name, *H.bundled(name)))
        eqs.append(E)
    n_syn = 8 if quick else 30
    for k in range(n_syn):
        p = H.solovev_params(rng, 1 if k % 2 == 0 else -1, k)
        if k < 6:      # make sure the quick tier has both signs of every special feature
            p["u0"] = 0.12 if k in (0, 1) else 0.0
            p["axis_shift"] = 0.04 if k in (2, 3) else p["axis_shift"]
            p["plateau"] = k in (4, 5)
            p["z_symmetric"] = k in (1, 2, 5)
            p["nr"], p["nz"] = max(p["nr"], 9), max(p["nz"], 9)     # the special features need a few nodes
            if k in (2, 5):
                # low aspect ratio, tall: the diagonal r == z runs through the inside of the LCFS
                p.update(R0=1.5, a=0.625, kappa=1.75, length_scale_exp=0)
        elif k in (6, 7):
            # smallest grids / polygons and the ends of the scale ranges, in every run
            p.update(nr=3 if k == 6 else 5, nz=4 if k == 6 else 3, poly_n=3 if k == 6 else 4, u0=0.0, plateau=False,
                     psi_scale_exp=-100 if k == 6 else 100, length_scale_exp=-3 if k == 6 else 3)
        ctx.crumb({"building": "solovev", "params": p})
        eq, inputs = H.build_solovev(p)
        E = H.Eq("solovev%+d#%d" % (p["sign"], k), eq, inputs, p)
        E.rebuild = (lambda p=p, nm=E.name: H.Eq(nm, *H.build_solovev(p, scribble_inputs=True), p))
        eqs.append(E)

    n_pts_bundled = 52 if quick else 500
    n_pts_syn = 22 if quick else 80
    cases, meta, fails = [], [], []
    classes, stage_inputs = {}, {"inside": 0, "outside_polygon": 0, "polygon_but_psin_gt_1": 0, "clamped_psin_0": 0,
                                 "zero_inplane_field": 0, "one_inplane_component_zero": 0, "psin_exactly_1_inside_polygon": 0}
    profile_kinds = {}
    n_search = n_errors = n_radius_split = set_index = 0
    array_shapes, rejection_outcomes, edge_outcomes, zero_combos, zero_forms = {}, {}, {}, {}, {}
    zero_points = {"toroidal": 0, "poloidal": 0, "normal": 0}
    audit_counts = {"history_re_evaluations": 0, "direct_helper_class_comparisons": 0, "attribute_comparisons": 0,
                    "calls_in_sequences_on_one_long_lived_object_vs_fresh_objects": 0,
                    "unit_basis_vector_comparisons": 0}
    pip_cases, interp_cases, interp_meta, policy_observed = {}, [], [], {}
    cubic_cases, cubic_meta = [], []
    cubic_every = 2 if quick else 3
    n_pip_skipped = 0
    interp_every = 14 if quick else 5
    for ei, E in enumerate(eqs):
        n_pts = n_pts_bundled if E.params is None else n_pts_syn
        pts = H.sample_points(E, rng, n_pts)
        n_sets = 3 if quick else 6
        sets, built = [], []
        for _ in range(n_sets):
            ps = H.ProfileSet(rng, set_index)
            set_index += 1
            info = {"equilibrium": E.describe(), "profiles": ps.describe()}
            ctx.crumb(info)
            try:
                fns = ps.build(E.eq)
            except Exception as e:      # every generated profile is valid: a rejection is a failing input
                fails.append(dict(info, clause="a valid profile was rejected: map2d/map3d/map_vector2d/map_vector3d raised %s"
                                               % type(e).__name__, error=str(e)[:300]))
                continue
            sets.append(ps)
            built.append(fns)
            zk = "toroidal %(toroidal)s / poloidal %(poloidal)s / normal %(normal)s" % ps.zero_modes
            zero_combos[zk] = zero_combos.get(zk, 0) + 1
            for pr in (ps.vt, ps.vp, ps.vn):
                if pr.zero_mode == "zero":
                    zero_forms[pr.desc["kind"] if pr.kind != "array" else "2xN array of zeros"] = zero_forms.get(
                        pr.desc["kind"] if pr.kind != "array" else "2xN array of zeros", 0) + 1
            for role, pr in (("map2d/map3d", ps.scalar), ("map_vector", ps.vt), ("map_vector", ps.vp), ("map_vector", ps.vn)):
                profile_kinds[pr.kind] = profile_kinds.get(pr.kind, 0) + 1
                if pr.kind == "array":
                    key = "%s N=%d %s %s" % (role, pr.desc["N"], pr.desc["container"], pr.desc["flavour"])
                    array_shapes[key] = array_shapes.get(key, 0) + 1
        # arrays that are not a 2xN profile with N >= 2 increasing knots: the documented conversion's own
        # rejection is the expected outcome of every profile-taking entry point
        for form, (expected_rej, seen_rej) in H.rejected_profile_outcomes(E.eq).items():
            slot = rejection_outcomes.setdefault(form, {"expected": expected_rej, "observed": {}})
            for nm, got in seen_rej.items():
                slot["observed"].setdefault(nm, {}).setdefault(got, 0)
                slot["observed"][nm][got] += 1
                policy_observed.setdefault(form, []).append(CODE_OF.get(got, 9))
                if got != expected_rej:
                    fails.append({"equilibrium": E.describe(), "profile": str(H.INVALID_PROFILES.get(form, form)), "entry_point": nm, "observed": got,
                                  "expected": expected_rej,
                                  "clause": "an array that is not a valid 2xN profile (%s) is not rejected like the documented interpolant" % form})
        if not sets:
            continue
        n_sets = len(sets)
        angles, evaluated = [], []
        for pi, (x, y, z, cls) in enumerate(pts):
            k = pi % n_sets
            PS, fns = sets[k], built[k]
            info = {"equilibrium": E.describe(), "point": {"x": x.hex(), "y": y.hex(), "z": z.hex(), "xyz": [x, y, z]},
                    "class": cls, "profiles": PS.describe()}
            ctx.crumb(info)
            o = H.evaluate_point(E, PS, fns, x, y, z)
            if o["errors"]:
                if "mapper_radius" in o["errors"]:
                    fails.append(dict(info, clause="3-D mapper does not evaluate the 2-D function at (sqrt(x^2+y^2), z)",
                                      error=o["errors"]["mapper_radius"], radius_scalar_mapper=o["r_scalar_mapper"],
                                      radius_vector_mapper=o["r_vector_mapper"]))
                for nm, err in [kv for kv in o["errors"].items() if kv[0] != "mapper_radius"][:1]:
                    fails.append(dict(info, clause="%s raised %s at a point of the (r, z) grid domain" % (nm, err.split(":")[0]),
                                      error=err, r=o["r"], psi_n=o["psin"], inside_lcfs=o["inside"]))
                if o["psin"] is not None and not o["psin"] >= 0.0:
                    fails.append(dict(info, clause="normalised flux is negative", psi_n=o["psin"]))
                n_errors += 1
                continue
            if not finite(o):
                fails.append(dict(info, clause="a mapped quantity is not finite", outputs={k2: str(v) for k2, v in o.items()}))
                continue
            classes[cls] = classes.get(cls, 0) + 1
            if o["inside"]:
                stage_inputs["inside"] += 1
            elif o["poly"] <= 0:
                stage_inputs["outside_polygon"] += 1
            else:
                stage_inputs["polygon_but_psin_gt_1"] += 1
            if o["psin"] == 0.0:
                stage_inputs["clamped_psin_0"] += 1
            if o["b"][0] == 0.0 and o["b"][2] == 0.0:
                stage_inputs["zero_inplane_field"] += 1
            elif o["b"][0] == 0.0 or o["b"][2] == 0.0:
                stage_inputs["one_inplane_component_zero"] += 1
            if o["psin"] == 1.0 and o["poly"] > 0:
                stage_inputs["psin_exactly_1_inside_polygon"] += 1
            cases.append(case_text(E, PS, o))
            meta.append(dict(info, outputs=o))
            evaluated.append((x, y, z, k, o))
            inpoly_ref, dist_ref = H.point_in_polygon(E.poly, o["r"], z)
            if dist_ref > 1e-7:
                pip_cases.setdefault(ei, []).append("check_pip poly %s %s %s" % (qlit(o["r"]), qlit(z), qlit(o["poly"])))
            else:
                n_pip_skipped += 1
            if pi % interp_every == 0:
                wn = H.interpolation_weights(E, o["r"], z)
                if wn is None:
                    fails.append(dict(info, clause="the 2-D interpolant takes weight from nodes outside the 6x6 window (harness assumption)"))
                else:
                    nodes, ws = wn
                    tolp = 2.0 ** -40 + 2.0 ** -38 * (abs(o["psi"]) + abs(E.psi_axis) + abs(E.psi_lcfs)) / abs(E.psi_lcfs - E.psi_axis)
                    gpsi = [float(E.psi_grid[a, b]) for a, b in nodes]
                    gdr = [float(E.dpsidr(float(E.r[a]), float(E.z[b]))) for a, b in nodes]
                    gdz = [float(E.dpsidz(float(E.r[a]), float(E.z[b]))) for a, b in nodes]
                    interp_cases.append("check_interp3 %s %s %s %s %s %s %s %s %s %s %s" % (
                        qlit(E.psi_axis), qlit(E.psi_lcfs), qlist(ws), qlist(gpsi), qlist(gdr), qlist(gdz), qlit(o["psi"]), qlit(o["psin"]),
                        qlit(tolp), qlit(o["dr"]), qlit(o["dz"])))
                    interp_meta.append(dict(info, nodes=nodes, weights=ws))
            if o["inside"] and pi % cubic_every == 0:
                for pr, val in ((PS.scalar, o["prof"]), (PS.vt, o["vt"]), (PS.vp, o["vp"]), (PS.vn, o["vn"])):
                    if pr.kind == "array" and pr.xmin <= o["psin"] <= pr.xmax:
                        cubic_cases.append("check_cubic %s %s %s %s" % (qlist([float(v) for v in pr.desc["x"]]),
                                                                     qlist([float(v) for v in pr.desc["y"]]), qlit(o["psin"]), qlit(val)))
                        cubic_meta.append({"equilibrium": E.name, "profile": pr.desc, "psi_n": o["psin"], "implementation": val})
            if o["inside"]:
                for nm, val in (("toroidal", o["vt"]), ("poloidal", o["vp"]), ("normal", o["vn"])):
                    zero_points[nm] += (val == 0.0)
            if o["skip"]:
                # the two mappers chose different radii: second case through the vector mapper's radius
                n_radius_split += 1
                o2 = H.evaluate_point(E, PS, fns, x, y, z, which="vector")
                if not o2["errors"] and finite(o2):
                    cases.append(case_text(E, PS, o2))
                    meta.append(dict(info, outputs=o2))
            # the executable statement of the property on the implementation
            n_search += 1
            ff = H.property_failures(E, PS, fns, o)
            angles.append(H.flux_surface_angles(E, o))
            if pi % 4 == 0:
                ff += H.axisymmetry_failures(E, PS, fns, o, rng)
            for f in ff:
                fails.append(dict(info, **f))

        if min(len(E.r), len(E.z)) >= 8:      # on coarser grids the grid differences say little about the interpolant
            for f in H.flux_surface_failures(E, angles):
                fails.append(dict({"equilibrium": E.describe()}, **f))
        # the same live objects again (other order, numpy coordinates), objects built afresh, helper classes used
        # directly, readable attributes, one ulp outside the domain
        ctx.crumb({"equilibrium": E.describe(), "stage": "history / fresh object / direct classes / attributes"})
        hf, hn = H.history_failures(E, sets, built, evaluated, rng, E.rebuild, n=10 if quick else 20)
        sf, sn_ = H.sequence_failures(E, sets[0], built[0], rng, max_calls=(40 if E.params is None else 70) if quick else 200)
        audit_counts["calls_in_sequences_on_one_long_lived_object_vs_fresh_objects"] += sn_
        for f in sf:
            fails.append(f)
        df, dn = H.direct_class_failures(E, sets, built, evaluated, rng, n=6 if quick else 20)
        af, an = H.attribute_failures(E, rng)
        uf, un = H.unit_basis_failures(E, evaluated, rng, n=4 if quick else 12)
        audit_counts["unit_basis_vector_comparisons"] += un
        for f in uf:
            fails.append(f)
        audit_counts["history_re_evaluations"] += hn
        audit_counts["direct_helper_class_comparisons"] += dn
        audit_counts["attribute_comparisons"] += an
        for f in hf + df + af:
            fails.append(dict({"equilibrium": E.describe()}, **f))
        for nm, (want, got) in H.domain_edge_outcomes(E, sets[0], built[0]).items():
            edge_outcomes.setdefault(nm, {}).setdefault("%s (expected %s)" % (got, want), 0)
            edge_outcomes[nm]["%s (expected %s)" % (got, want)] += 1
            if got != want:
                fails.append({"equilibrium": E.describe(), "call": nm, "observed": got, "expected": want,
                              "clause": "one ulp outside the (r, z) grid domain: %s is not %s" % (nm, want)})

    ctor = H.constructor_rejections()
    for nm, got in ctor.items():
        want_ok = nm.startswith("valid")
        if got.startswith("accepted") != want_ok or (not want_ok and got != "TypeError"):
            fails.append({"clause": "x_points / strike_points validation: %s -> %s" % (nm, got), "observed": got})
    # flux maps of extreme magnitude (2^520, 2^-540): reported under a stable key (see known_findings.txt)
    extreme = H.extreme_scale_failures()

    # ---- derivative grids at nodes -----------------------------------------------------------------
    grad_cases, grad_meta = [], []
    n_nodes = 5 if quick else 30
    for E in eqs:
        nr, nz = len(E.r), len(E.z)
        picks = [(0, 0), (nr - 1, nz - 1), (0, rng.randrange(nz)), (rng.randrange(nr), nz - 1)]
        picks += [(rng.randrange(nr), rng.randrange(nz)) for _ in range(n_nodes - len(picks))]
        for (i, j) in picks:
            ri, zj = float(E.r[i]), float(E.z[j])
            ctx.crumb({"equilibrium": E.describe(), "node": [i, j]})
            vr, vz = float(E.dpsidr(ri, zj)), float(E.dpsidz(ri, zj))
            grad_cases.append("check_grad axis_r_%d %s %d%%nat %s" % (eqs.index(E), qlist(E.psi_grid[:, j]), i, qlit(vr)))
            grad_meta.append({"equilibrium": E.name, "axis": "r", "node": [i, j], "implementation": vr})
            grad_cases.append("check_grad axis_z_%d %s %d%%nat %s" % (eqs.index(E), qlist(E.psi_grid[i, :]), j, qlit(vz)))
            grad_meta.append({"equilibrium": E.name, "axis": "z", "node": [i, j], "implementation": vz})

    ctx.log("implementation evaluated: %d point cases, %d gradient node values" % (len(cases), len(grad_cases)))
    # ---- Coq: run the model on every case ----------------------------------------------------------
    files = []
    per = 32 if quick else 50
    for si in range(0, len(cases), per):
        sh = cases[si:si + per]
        txt = ("Require Import Cherab.Common.Qx Cherab.Model.C12_Equilibrium Cherab.Model.C12_Check Cherab.Model.C12_Exact.\n"
               "Open Scope Q_scope.\nDefinition cases : list case := [\n  " + ";\n  ".join(sh) +
               "].\nEval vm_compute in (map check_case cases).\nEval vm_compute in (map check_exact cases).\n")
        files.append((ctx.write_gen("cases_%03d.v" % (si // per), txt), list(range(si, si + len(sh))), "case"))
    gper = 40 if quick else 24
    for si in range(0, len(grad_cases), gper):
        sh = grad_cases[si:si + gper]
        used = sorted({int(t.split()[1].split("_")[2]) for t in sh})
        axes = "".join("Definition axis_r_%d : list Q := %s.\nDefinition axis_z_%d : list Q := %s.\n" % (
            k_, qlist(eqs[k_].r), k_, qlist(eqs[k_].z)) for k_ in used)
        txt = ("Require Import Cherab.Common.Qx Cherab.Model.C12_Gradient Cherab.Model.C12_Check.\n"
               "Open Scope Q_scope.\n" + axes + "Definition results : list bool := [\n  " + ";\n  ".join(sh) +
               "].\nEval vm_compute in (failing results).\n")
        files.append((ctx.write_gen("grad_%03d.v" % (si // gper), txt), list(range(si, si + len(sh))), "grad"))
    # interpolation weights: sum to one, reproduce psi and both d psi values, code order of psi_n = model
    iper = 6 if quick else 20
    for si in range(0, len(interp_cases), iper):
        sh = interp_cases[si:si + iper]
        txt = ("Require Import Cherab.Common.Qx Cherab.Model.C12_Equilibrium Cherab.Model.C12_Interp.\n"
               "Open Scope Q_scope.\nDefinition results : list bool := [\n  " + ";\n  ".join(sh) +
               "].\nEval vm_compute in (failing results).\n")
        files.append((ctx.write_gen("interp_%03d.v" % (si // iper), txt), list(range(si, si + len(sh))), "interp"))
    # 2xN array profiles: the running Interpolator1DArray against the model's cubic evaluated by Coq
    cper = 120 if quick else 150
    for si in range(0, len(cubic_cases), cper):
        sh = cubic_cases[si:si + cper]
        txt = ("Require Import Cherab.Common.Qx Cherab.Model.C12_Cubic.\nOpen Scope Q_scope.\n"
               "Definition results : list bool := [\n  " + ";\n  ".join(sh) + "].\nEval vm_compute in (failing results).\n")
        files.append((ctx.write_gen("cubic_%03d.v" % (si // cper), txt), list(range(si, si + len(sh))), "cubic"))
    # polygon part of the LCFS mask against the even-odd test evaluated by Coq, one file (or more) per equilibrium
    groups = 4 if quick else 10
    for gi_ in range(groups):
        defs, lines, ids = [], [], []
        for ei in sorted(pip_cases):
            if ei % groups != gi_:
                continue
            defs.append("Definition poly_%d : list (Q * Q) := [%s]." % (
                ei, "; ".join("(%s, %s)" % (qlit(float(a)), qlit(float(b))) for a, b in eqs[ei].poly)))
            for t, line in enumerate(pip_cases[ei]):
                lines.append(line.replace("check_pip poly ", "check_pip poly_%d " % ei))
                ids.append((ei, t))
        if lines:
            txt = ("Require Import Cherab.Common.Qx Cherab.Model.C12_Polygon.\nOpen Scope Q_scope.\n" + "\n".join(defs) +
                   "\nDefinition results : list bool := [\n  " + ";\n  ".join(lines) + "].\nEval vm_compute in (failing results).\n")
            files.append((ctx.write_gen("pip_%02d.v" % gi_, txt), ids, "pip"))
    # argument policy: the model's outcome (accepted / IndexError / ValueError) against every observed outcome
    pol_forms = sorted(policy_observed)
    all_probes = dict(H.INVALID_PROFILES, **H.VALID_PROBES)
    pol_lines = ["check_policy %s (%s)%%Z" % (H.coq_parg(all_probes[f]), zlist(policy_observed[f])) for f in pol_forms]
    txt = ("Require Import Cherab.Common.Qx Cherab.Model.C12_Profile.\nOpen Scope Q_scope.\n"
           "Definition results : list bool := [\n  " + ";\n  ".join(pol_lines) + "].\nEval vm_compute in (failing results).\n")
    files.append((ctx.write_gen("policy_000.v", txt), pol_forms, "policy"))
    res = coqc_many([f for f, _, _ in files], timeout=1800, jobs=16 if quick else 10)
    # a coqc process that was killed from outside (no Coq error message, e.g. the kernel's OOM killer on a
    # loaded machine) says nothing about the case file: run it again, alone
    for f, _, _ in files:
        for attempt in range(3):
            ok, out = res[f]
            if ok or "Error" in out or "TIMEOUT" in out:
                break
            ctx.log("coqc on %s ended without a result (killed?); retrying" % os.path.basename(f))
            res[f] = coqc(f, timeout=1800)
    diffs, n_amb = [], 0
    exact_diffs, exact_hist, n_exact_ok = [], {}, 0
    other_diffs = {"grad": [], "interp": [], "pip": [], "policy": [], "cubic": []}
    stage_hist = {}
    for f, ids, kind in files:
        ok, out = res[f]
        vals = parse_evals(out) if ok else []
        good = ok and len(vals) == (2 if kind == "case" else 1)
        codes = parse_zlist(vals[0]) if good else []
        if kind == "case":
            good = good and len(codes) == len(ids)
            xcodes = parse_zlist(vals[1]) if good else []
            xbad = [(ids[i], c) for i, c in enumerate(xcodes) if c != 0 and codes[i] == 0]
            for _, c in xbad:
                exact_hist[str(c)] = exact_hist.get(str(c), 0) + 1
            n_exact_ok += sum(1 for i, c in enumerate(xcodes) if c == 0)
            ctx.obligation("exact binary64 replay %s (%d cases)" % (os.path.basename(f), len(ids)), "correspondence",
                           good and not xbad, out if not good else "DIFF (case, first stage not bitwise equal): %s" % xbad[:20])
            exact_diffs += xbad
            bad = [(ids[i], c) for i, c in enumerate(codes) if c not in (0, -1)] if good else []
            n_amb += sum(1 for c in codes if c == -1)
            for _, c in bad:
                stage_hist[STAGES.get(c, str(c))] = stage_hist.get(STAGES.get(c, str(c)), 0) + 1
            ctx.obligation("correspondence %s (%d cases)" % (os.path.basename(f), len(ids)), "correspondence",
                           good and not bad, out if not good else "DIFF (case, first differing stage): %s" % bad[:20])
            diffs += bad
        else:
            bad = [ids[i] for i in codes] if good else []
            label = {"grad": "gradient grids %s (%d node values)", "interp": "interpolation weights %s (%d points)",
                     "pip": "polygon mask vs even-odd test %s (%d points)",
                     "cubic": "2xN profile arrays vs the model's 1-D cubic %s (%d values)", "policy": "profile argument policy %s (%d forms)"}[kind]
            ctx.obligation(label % (os.path.basename(f), len(ids)), "correspondence",
                           good and not bad, out if not good else "DIFF at %s" % bad[:20])
            other_diffs[kind] += bad
        if not good:
            ctx.broken.append("coqc failed on %s: %s" % (f, out[-600:]))
    harness_faults = [d for d in diffs if d[1] in (90, 91)]
    grad_diffs = other_diffs["grad"]
    ctx.log("correspondence: %d point cases (%d ambiguous, %d disagree), %d gradient node values (%d disagree), %d weight probes (%d), "
            "%d polygon points (%d), %d policy forms (%d)" % (len(cases), n_amb, len(diffs), len(grad_cases), len(grad_diffs), len(interp_cases),
            len(other_diffs["interp"]), sum(len(v) for v in pip_cases.values()), len(other_diffs["pip"]), len(pol_forms), len(other_diffs["policy"])))

    # ---- failing-input search results --------------------------------------------------------------
    ctx.obligation("executable property on the implementation (%d points, %d equilibria)" % (n_search, len(eqs)), "search",
                   not fails, str(fails[:2])[:1500])
    if extreme:
        ctx.violation("c12:extreme-psi-scale", "basis vectors are zero / raise for a flux map of extreme magnitude (2^520, 2^-540): "
                      "b_r^2 + b_z^2 over/underflows", {"failures": extreme}, found=True)
    seen = set()
    for f in fails:
        key = "c12:" + f["clause"][:60]
        if key in seen:
            continue
        seen.add(key)
        ctx.violation(key, f["clause"], f, found=True)
        if len(seen) >= 6:
            break
    any_other = other_diffs["interp"] or other_diffs["pip"] or other_diffs["policy"] or other_diffs["cubic"] or exact_diffs
    if any_other and not fails:
        for gi in other_diffs["interp"][:2]:
            ctx.violation("c12-diff:interpolation-weights", "interpolation weights do not sum to one / do not reproduce psi, d psi or the "
                          "code-order psi_n; the executable property found no failing input", {"case": interp_meta[gi]}, found=False)
        for (ei, t) in other_diffs["pip"][:2]:
            ctx.violation("c12-diff:polygon", "polygon mask differs from the even-odd test evaluated by Coq; the executable property found no "
                          "failing input", {"equilibrium": eqs[ei].describe(), "case": pip_cases[ei][t]}, found=False)
        for gi in other_diffs["cubic"][:2]:
            ctx.violation("c12-diff:cubic-profile", "value of a 2xN array profile differs from the model's 1-D cubic interpolant; the "
                          "executable property found no failing input", {"case": cubic_meta[gi]}, found=False)
        for ci, code in exact_diffs[:2]:
            ctx.violation("c12-diff:exact-replay", "binary64 replay of the vector arithmetic is not bitwise equal at stage '%s'; the "
                          "executable property found no failing input" % STAGES.get(code, code), {"case": meta[ci]}, found=False)
        for f_ in other_diffs["policy"][:2]:
            ctx.violation("c12-diff:policy", "outcome for a profile argument (%s) differs from the model's policy" % f_,
                          {"form": f_, "observed_codes": policy_observed[f_]}, found=False)
    if (diffs or grad_diffs) and not fails:
        for ci, code in diffs[:3]:
            ctx.violation("c12-diff:%s" % STAGES.get(code, code),
                          "model and implementation differ at stage '%s'; the executable property found no failing input"
                          % STAGES.get(code, code), {"case": meta[ci], "correspondence": "coq/Gen/C12/cases_%03d.v" % (ci // per)},
                          found=False)
        for gi in grad_diffs[:2]:
            ctx.violation("c12-diff:gradient",
                          "d psi grid value at a node differs from np.gradient(edge_order=2)/gradient(axis); the executable "
                          "property found no failing input", {"case": grad_meta[gi]}, found=False)

    sign_hist = {}
    for E in eqs:
        sgn = "psi_lcfs>psi_axis" if E.psi_lcfs > E.psi_axis else "psi_lcfs<psi_axis"
        sign_hist[sgn] = sign_hist.get(sgn, 0) + 1
    ctx.coverage.update({
        "evaluations": len(cases) + len(grad_cases),
        "distinct_nontrivial": len({(m["equilibrium"]["name"], m["point"]["x"], m["point"]["y"], m["point"]["z"]) for m in meta
                                    if m["outputs"]["inside"] or m["class"] != "uniform"}),
        "rule": "one point case = one 3-D point of one equilibrium with one profile set, all ten outputs compared stage by stage; "
                "non-trivial = inside the LCFS or drawn from a boundary class (near LCFS, near axis, grid node, near polygon edge); "
                "one gradient case = one node value of a d psi interpolator against the model's np.gradient line",
        "distribution": {"equilibria": [E.describe()["name"] for E in eqs], "sign_of_psi_lcfs_minus_psi_axis": sign_hist,
                         "point_classes": classes, "lcfs_classes": stage_inputs, "profile_kinds": profile_kinds, "array_profile_shapes(entry point, N, container, flavour)": array_shapes,
                         "invalid_profile_arrays(expected outcome and observed per entry point)": rejection_outcomes,
                         "one_ulp_outside_domain(outcomes)": edge_outcomes, "x_points_strike_points_validation": ctor,
                         "audit_counts": audit_counts, "source_facts_extracted_from_efit.pyx": source_facts, "velocity_zero_mode_combinations(profile sets)": zero_combos,
                         "identically_zero_velocity_profile_forms": zero_forms,
                         "inside_points_with_prescribed_speed_exactly_0": zero_points, "extreme_psi_scale_failures": len(extreme),
                         "grid_sizes": sorted({(len(E.r), len(E.z)) for E in eqs}), "polygon_sizes": sorted({int(E.poly.shape[0]) for E in eqs}),
                         "psi_scale_exponents": sorted({E.params.get("psi_scale_exp", 0) for E in eqs if E.params}),
                         "length_scale_exponents": sorted({E.params.get("length_scale_exp", 0) for E in eqs if E.params}),
                         "constructor_argument_forms": sorted({f for E in eqs if E.params for f in E.params.get("forms", {}).values()}),
                         "ambiguous_psin_within_tolerance_of_1": n_amb, "gradient_node_values": len(grad_cases),
                         "search_points": n_search, "interpolation_weight_probes": len(interp_cases),
                         "polygon_points_compared_in_coq": sum(len(v) for v in pip_cases.values()), "polygon_points_skipped_near_edge": n_pip_skipped,
                         "policy_forms": pol_forms, "array_profile_values_compared_with_the_cubic_model": len(cubic_cases),
                         "cases_bitwise_equal_in_the_binary64_replay": n_exact_ok, "binary64_replay_mismatch_histogram": exact_hist, "points_where_scalar_and_vector_mapper_radius_differ": n_radius_split, "points_where_the_implementation_raised": n_errors, "disagreeing_stage_histogram": stage_hist},
        "tolerance": {"psi_n": "2^-40 + 2^-38 (|psi|+|psi_axis|+|psi_lcfs|)/|psi_lcfs-psi_axis| (absolute)",
                      "inside_lcfs, toroidal_vector, map2d, map3d": "exact",
                      "b_field, poloidal_vector, surface_normal": "2^-40 relative to the largest component",
                      "map_vector2d/3d": "2^-40 (|vt|+|vp|+|vn| (+ |outside|)) absolute",
                      "oracle keys": "sqrt argument 2^-36 relative, profile argument within the psi_n tolerance",
                      "mapper radius": "the radius the implementation's AxisymmetricMapper / VectorAxisymmetricMapper really hand to the "
                                       "2-D function (read through a recording function) must satisfy |r^2 - (x^2+y^2)| <= 2^-49 (x^2+y^2) "
                                       "with x^2+y^2 exact (i.e. r within 2^-50 of the exact square root), checked inside Coq; map3d and "
                                       "map_vector3d are then compared, exactly / to 2^-40, with the model evaluated at that r",
                      "gradient grids": "2^-38 max|psi line| / |d axis| + 2^-40 |value|",
                      "interpolation weights (impulse-grid probe of the running Interpolator2DArray, 6x6 window, rest of the grid must "
                      "contribute exactly 0)": "sum of weights = 1 to 2^-40; sum w_i psi_i = psi(r,z) and sum w_i dpsi_i = dpsi(r,z) to "
                      "2^-38 max|node value|; code-order psi_n (normalise nodes, weighted sum, clamp) = psi_normalised to the psi_n tolerance",
                      "polygon mask vs even-odd test evaluated by Coq": "exact (points closer than 1e-7 to an edge skipped and counted)",
                      "profile argument policy (model outcome vs every observed outcome of 7 entry points)": "exact (accepted / IndexError / ValueError)",
                      "binary64 replay (b_field, poloidal_vector, surface_normal, map_vector2d, map_vector3d given the upstream doubles and "
                      "libm's sqrt/cos/sin; sqrt checked to be correctly rounded)": "exact, bit for bit (every case that passes the staged comparison)",
                      "2xN array profile values vs Model/C07_Cubic cubic1 evaluated by Coq": "2^-40 max|values|",
                      "source tie": "exact (kernel-checked lemma source_ok src = true on the regenerated record)",
                      "search": "1e-9 on dot products / lengths / components; inside_lcfs and outside values exact; points closer "
                                "than 1e-7 to a polygon edge or with |psi_n - 1| < 1e-9 undecided; normal vs grad(psi): 0.15 rad"},
        "partial": ["cubic interpolation of psi, d psi, profiles and the polygon triangulation are raysect's: functions given to the model",
                    "unit length / exact components: proved where sqrt is exact, and as an enclosure for an approximate sqrt",
                    "that normalising the grid commutes with interpolating it is measured on every case, not proved"],
    })
    ctx.coverage["samples"] = [meta[0], meta[len(meta) // 2]] if meta else []
    if harness_faults:
        ctx.broken.append("oracle tables inconsistent for cases %s" % harness_faults[:5])
    ctx.grep_gate()
