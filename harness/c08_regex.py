"""Translator (fail-closed) from the regular expressions in cherab/openadas/parse/adf11.py and adf15.py
to the regex AST of coq/Model/C08_Text.v.  Run on every invocation of the C08 check: the Coq models of the
parsers are parameterised by these expressions, so a change of a pattern in the source changes the model.

The pattern text is taken from the source with `ast` (string constants that are the first argument of a
re.match/re.search call or are assigned to a *_match variable, per function, in source order) and parsed
with CPython's own regex parser (re._parser); only the constructs the Coq matcher implements are accepted.
"""
import ast
import re
import re._parser as sre
import re._constants as C


class Unsupported(Exception):
    pass


def _ascii(n):
    if not (0 <= n < 128):
        raise Unsupported("non-ASCII literal %r" % n)
    return '(ascii_of_nat %d)' % n


def _items(items):
    neg = False
    out = []
    for op, arg in items:
        if op is C.NEGATE:
            neg = True
        elif op is C.LITERAL:
            out.append("CLit %s" % _ascii(arg))
        elif op is C.RANGE:
            out.append("CRange %s %s" % (_ascii(arg[0]), _ascii(arg[1])))
        elif op is C.CATEGORY and arg is C.CATEGORY_SPACE:
            out.append("CSpace")
        elif op is C.CATEGORY and arg is C.CATEGORY_DIGIT:
            out.append("CDigit")
        else:
            raise Unsupported("class item %s %s" % (op, arg))
    return neg, out


def _seq(nodes):
    return "RSeq [" + "; ".join(_node(op, arg) for op, arg in nodes) + "]"


def _node(op, arg):
    if op is C.LITERAL:
        return "RLit %s" % _ascii(arg)
    if op is C.ANY:
        return "RAny"
    if op is C.IN:
        neg, items = _items(arg)
        return "RSet %s [%s]" % ("true" if neg else "false", "; ".join(items))
    if op is C.MAX_REPEAT:
        mn, mx, sub = arg
        mxs = "None" if mx is C.MAXREPEAT else "(Some %d%%nat)" % mx
        if mn > 1000 or (mx is not C.MAXREPEAT and mx > 1000):
            raise Unsupported("repeat bound too large")
        return "RRep %d%%nat %s (%s)" % (mn, mxs, _seq(list(sub)))
    if op is C.SUBPATTERN:
        group, add_flags, del_flags, sub = arg
        if add_flags or del_flags:
            raise Unsupported("inline flags")
        if group is None:
            return _seq(list(sub))
        return "RGroup %d%%nat (%s)" % (group, _seq(list(sub)))
    if op is C.AT and arg is C.AT_BEGINNING:
        return "RBol"
    if op is C.AT and arg is C.AT_END:
        return "REol"
    raise Unsupported("regex construct %s %s" % (op, arg))


def to_coq(pattern):
    parsed = sre.parse(pattern)
    return "(" + _seq(list(parsed)) + ")"


# ---------------------------------------------------------------------------------------------------
def patterns_by_function(path):
    """{function name: [(kind, pattern text)]} in source order.  kind: 'match' | 'search' | 'split' | 'sub' | 'assign'"""
    tree = ast.parse(open(path).read())
    out = {}
    for fn in [n for n in ast.walk(tree) if isinstance(n, ast.FunctionDef)]:
        found = []
        for node in ast.walk(fn):
            if isinstance(node, ast.Call) and isinstance(node.func, ast.Attribute) and isinstance(node.func.value, ast.Name) \
                    and node.func.value.id == "re" and node.args and isinstance(node.args[0], ast.Constant) \
                    and isinstance(node.args[0].value, str):
                flags = any(isinstance(a, ast.Attribute) and a.attr == "IGNORECASE" for a in list(node.args) + [k.value for k in node.keywords])
                found.append((node.args[0].lineno, node.args[0].col_offset, node.func.attr + ("+I" if flags else ""), node.args[0].value))
            if isinstance(node, ast.Assign) and len(node.targets) == 1 and isinstance(node.targets[0], ast.Name) \
                    and node.targets[0].id.endswith("_match") and isinstance(node.value, ast.Constant) and isinstance(node.value.value, str):
                found.append((node.value.lineno, node.value.col_offset, "assign:" + node.targets[0].id, node.value.value))
        found.sort()
        out[fn.name] = [(k, p) for _, _, k, p in found]
    return out


def ignorecase_uses(path):
    """number of re.match calls whose pattern is a variable and that pass re.IGNORECASE / that do not"""
    tree = ast.parse(open(path).read())
    with_i = without_i = 0
    for node in ast.walk(tree):
        if isinstance(node, ast.Call) and isinstance(node.func, ast.Attribute) and isinstance(node.func.value, ast.Name) \
                and node.func.value.id == "re" and node.args and isinstance(node.args[0], ast.Name):
            if any(isinstance(a, ast.Attribute) and a.attr == "IGNORECASE" for a in node.args):
                with_i += 1
            else:
                without_i += 1
    return with_i, without_i


HAND_MODELLED = {          # pattern text the hand-written token-level models in Model/C08_Adf.v stand for
    "split_2ws": r"\s{2,}",
    "fromstring": r"\n*\s+",
    "sub_z1": r"Z1[\s*=]",
}


def translate(repo):
    """Returns (coq_text, problems).  problems non-empty => the source no longer has the shape the model mirrors."""
    problems = []
    p11 = patterns_by_function(repo + "/cherab/openadas/parse/adf11.py").get("parse_adf11", [])
    p15 = patterns_by_function(repo + "/cherab/openadas/parse/adf15.py")
    kinds11 = [k for k, _ in p11]
    want11 = ["split", "match", "match", "sub", "match", "sub", "match", "match", "match", "search", "sub"]
    if kinds11[:len(want11)] != want11:
        problems.append("adf11.py: re calls in parse_adf11 are %s, the model mirrors %s" % (kinds11, want11))
        return "", problems, {}
    pat11 = [p for _, p in p11]
    for slot, idx in (("split_2ws", 0), ("fromstring", 3), ("fromstring", 5), ("sub_z1", 10)):
        if pat11[idx] != HAND_MODELLED[slot]:
            problems.append("adf11.py: pattern %r replaced %r, which Model/C08_Adf.v:%s models by hand" % (pat11[idx], HAND_MODELLED[slot], slot))
    # the remaining re.search calls (IGRD / IPRT) have no effect on the result
    rx11 = {"r11_resolved": pat11[1], "r11_first_sep": pat11[2], "r11_sep": pat11[4], "r11_end_c": pat11[6],
            "r11_end_dash": pat11[7], "r11_c_line": pat11[8], "r11_z1": pat11[9]}

    def assigns(fn):
        return {k.split(":", 1)[1]: p for k, p in p15.get(fn, []) if k.startswith("assign:")}

    hyd, hl, full, ext = (assigns("_scrape_metadata_hydrogen"), assigns("_scrape_metadata_hydrogen_like"),
                          assigns("_scrape_metadata_full"), assigns("_extract_rate"))
    head = [p for k, p in p15.get("parse_adf15", []) if k.startswith("match")]
    try:
        rx15 = {"r15_header": head[0], "r15_index_header": hyd["pec_index_header_match"], "r15_hyd": hyd["pec_hydrogen_transition_match"],
                "r15_hlike": hl["pec_full_transition_match"], "r15_cfg_header": full["configuration_header_match"],
                "r15_cfg": full["configuration_string_match"], "r15_full": full["pec_full_transition_match"],
                "r15_wl": ext["wavelength_match"], "r15_block": ext["block_id_match"]}
    except (KeyError, IndexError) as e:
        problems.append("adf15.py: pattern variable %s not found where the model expects it" % e)
        return "", problems, {}
    if not (hyd["pec_index_header_match"] == hl.get("pec_index_header_match") == full.get("pec_index_header_match")):
        problems.append("adf15.py: the three copies of pec_index_header_match differ; the model has one")
    if any(k.endswith("+I") for k, _ in p15.get("parse_adf15", [])):
        problems.append("adf15.py: the header check now passes IGNORECASE; the model matches it case-sensitively")
    wi, wo = ignorecase_uses(repo + "/cherab/openadas/parse/adf15.py")
    if wo != 0 or wi != 10:
        problems.append("adf15.py: %d re.match calls on pattern variables with IGNORECASE and %d without; the model assumes 10 / 0" % (wi, wo))
    lines = ["(* generated by harness/c08_regex.py from the current source -- do not edit *)",
             "Require Import Cherab.Common.Qx Cherab.Model.C08_Text Cherab.Model.C08_Adf.",
             "From Coq Require Import Ascii."]
    try:
        lines.append("Definition rx11_src : rx11 := {|")
        lines.append(";\n".join("  %s := %s" % (k, to_coq(v)) for k, v in rx11.items()))
        lines.append("|}.")
        lines.append("Definition rx15_src : rx15 := {|")
        lines.append(";\n".join("  %s := %s" % (k, to_coq(v)) for k, v in rx15.items()))
        lines.append("|}.")
    except (Unsupported, re.error) as e:
        problems.append("a pattern uses a construct the Coq matcher does not implement: %s" % e)
        return "", problems, {}
    return "\n".join(lines) + "\n", problems, dict(rx11, **rx15)
