"""Input presentations for C11: the same mathematical input handed over as different Python / NumPy objects.

'For any geometry matrix and measurement vector' includes every array type the functions accept.  Every
array argument (W, b, L, initial guess) independently gets a FORM (dtype, nested list, memory layout,
read-only); every scalar argument a scalar form (Python int/float, NumPy scalar, 0-d array).  The values
the model is fed are always the exact values of the object that was passed (cast first, read back).
Which forms an entry point rejects (and with which exception) is the policy table in
coq/Model/C11_Forms.v; the observed outcome is compared with it inside Coq.
"""
import numpy as np

ARRAY_FORMS = ["F64", "I32", "I64", "U8", "FBool", "F32", "FList", "FFortran", "FStrided", "FReadonly"]
LAYOUT_FORMS = ["F64", "FFortran", "FStrided"]
DTYPES = {"I32": np.int32, "I64": np.int64, "U8": np.uint8, "FBool": np.bool_, "F32": np.float32}
SCALAR_FORMS = ["SPyFloat", "SPyInt", "SNpFloat64", "SNpFloat32", "SNpInt64", "S0d"]
OUTCOME = {"ValueError": "ErrValueE", "TypeError": "ErrTypeE", "AttributeError": "ErrAttributeE"}


def cast_values(values, form):
    """float64 array of the values an object of this form can hold (what is really passed)"""
    v = np.asarray(values, dtype=float)
    if form in ("I32", "I64"):
        v = np.clip(np.rint(v), -2.0 ** 31, 2.0 ** 31 - 1)
        return v.astype(DTYPES[form]).astype(float)
    if form == "U8":
        return np.clip(np.rint(np.abs(v)), 0, 255).astype(np.uint8).astype(float)
    if form == "FBool":
        return (v != 0).astype(float)
    if form == "F32":
        with np.errstate(over="ignore"):
            return v.astype(np.float32).astype(float)
    return v.copy()


def present(values, form, variant=0):
    """a fresh object of the given form holding exactly `values`"""
    v = np.asarray(values, dtype=float)
    if form in DTYPES:
        out = v.astype(DTYPES[form])
        assert np.array_equal(out.astype(float), v), "values not representable in %s" % form
        return out
    if form == "FList":
        return v.tolist()
    if form == "FFortran":
        return np.asfortranarray(v.copy()) if v.ndim == 2 else v.copy()
    if form == "FStrided":
        if variant % 3 == 0:            # every second / third element of a larger buffer
            steps = (2, 3)[:v.ndim]
            big = np.full(tuple(s * k + 1 for s, k in zip(v.shape, steps)), 7.25)
            view = big[tuple(slice(1, 1 + s * k, k) for s, k in zip(v.shape, steps))]
            view[...] = v
            return view
        if variant % 3 == 1:            # negative strides
            rev = v[tuple(slice(None, None, -1) for _ in v.shape)].copy()
            return rev[tuple(slice(None, None, -1) for _ in v.shape)]
        return np.ascontiguousarray(v.T).T if v.ndim == 2 else np.stack([v, v + 1.0], axis=1)[:, 0]   # transposed / column view
    if form == "FReadonly":
        out = v.copy()
        out.setflags(write=False)
        return out
    return v.copy()


def cast_scalar(x, form):
    if form == "SNpFloat32":
        return float(np.float32(x))
    if form in ("SPyInt", "SNpInt64"):
        return float(int(round(x)))
    return float(x)


def present_scalar(x, form):
    if form == "SPyInt":
        return int(x)
    if form == "SPyBool":
        return bool(x)
    if form == "SNpFloat64":
        return np.float64(x)
    if form == "SNpFloat32":
        return np.float32(x)
    if form == "SNpInt64":
        return np.int64(x)
    if form == "S0d":
        return np.array(float(x))
    return float(x)


def choose_array_form(rng, p_plain, pool):
    return "F64" if rng.random() < p_plain else rng.choice(pool)


def choose_scalar_form(rng, x, p_plain=0.5):
    if rng.random() < p_plain:
        return "SPyFloat"
    pool = ["SNpFloat64", "S0d"] + (["SNpFloat32"] if (x == 0 or 1e-30 < abs(x) < 1e30) else [])
    if float(x) == int(x) and abs(x) < 2 ** 31:
        pool += ["SPyInt", "SPyInt", "SNpInt64"]
    return rng.choice(pool)


def assign_forms(rng, case, preserve=False):
    """choose a form for every argument of the case and replace the case's values by the exact values of the
    objects that will be passed.  preserve=True: only forms that keep the values (exact-solution cases)."""
    kind = case["kind"]
    forms = {}
    sart = kind in ("sart", "csart")
    # SART accepts float64 in any layout only: keep most cases on the accepted side so that the deep ties run
    pool = ARRAY_FORMS[1:]
    accepted_pool = ["FFortran", "FStrided"]
    for arg in ("W", "b", "L", "guess"):
        a = case.get(arg)
        if not isinstance(a, np.ndarray):
            continue
        if sart and arg != "L":
            r = rng.random()
            f = "F64" if r < 0.45 else (rng.choice(accepted_pool) if r < 0.8 else rng.choice(pool))
        else:
            f = choose_array_form(rng, 0.25, pool)
            if kind == "svd" and arg == "W" and f in ("F32", "U8", "FBool") and "near_dup_col" in case["tags"]:
                f = "F64"    # invert_svd works in single precision on such a matrix: systems that are ill-conditioned relative to
                             # float32 are not asked of it (scaled ones are: a solution outside the float32 range is a known finding)
        if f == "F32" and arg == "L" and "alpha" in case:
            al = np.abs(case["alpha"] * a)
            if not np.all((al == 0) | ((al > 1e-30) & (al < 1e30))):
                f = "F64"            # alpha * L is formed in float32 for a float32 L: outside its range it under/overflows
        if f == "F32" and a.size and not np.all((a == 0) | ((np.abs(a) > 1e-30) & (np.abs(a) < 1e30))):
            f = "F64"                # outside the comfortable float32 range single-precision arithmetic under/overflows
        if a.size == 0 and f == "FList":
            f = "F64"                                # a nested list cannot express an empty 2-D shape
        newv = cast_values(a, f)
        if not np.all(np.isfinite(newv)):        # e.g. 2^200 as float32: not representable, keep float64
            f, newv = "F64", a.copy()
        if preserve and not np.array_equal(newv, a):
            f, newv = "F64", a.copy()
        if not np.array_equal(newv, a):
            case["tags"].discard("consistent")
        forms[arg] = f
        case[arg] = newv
    if sart:
        g = case.get("guess")
        if g is None:
            forms["guess"] = "GNone"
        elif isinstance(g, float):
            pool_g = ["GPyFloat", "GPyFloat", "GNpFloat64", "GNpFloat32", "G0d"]
            if g == int(g) and abs(g) < 2 ** 31:
                pool_g += ["GPyInt", "GPyInt", "GNpInt64"]
            if g in (0.0, 1.0):
                pool_g += ["GPyBool", "GPyBool"]
            f = rng.choice(pool_g)
            with np.errstate(over="ignore"):
                g32 = float(np.float32(g))
            if f == "GNpFloat32" and not np.isfinite(g32):
                f = "GPyFloat"
            case["guess"] = cast_scalar(g, {"GNpFloat32": "SNpFloat32"}.get(f, "SPyFloat"))
            forms["guess"] = f
        for name in ("relax", "tol") + (("beta",) if kind == "csart" else ()):
            f = choose_scalar_form(rng, case[name])
            case[name] = cast_scalar(case[name], f)
            forms[name] = f
        forms["maxit"] = rng.choice(["SPyInt", "SPyInt", "SNpInt64"])
    elif kind in ("nnls", "lstsq"):
        f = choose_scalar_form(rng, case["alpha"])
        case["alpha"] = cast_scalar(case["alpha"], f)
        forms["alpha"] = f
    # how the call is written: positional / keyword arguments, optional arguments left to their documented defaults,
    # through the package re-export or the defining module
    case["variant"] = rng.randrange(3)         # which strided / negative-stride / transposed layout FStrided means for this case
    case["call"] = rng.choice(["mixed", "mixed", "positional", "keywords", "defaults", "defaults"])
    case["via_module"] = rng.random() < 0.3
    case["tags"].add("call_" + case["call"])
    if case["call"] == "defaults" and forms.get("alpha") and float(case["alpha"]) == 0.01:
        forms["alpha"] = "SPyFloat"          # left out of the call: the function's own Python float default is used
    case["forms"] = forms
    for arg, f in forms.items():
        case["tags"].add("form_%s_%s" % (arg, f))
    return case


GUESS_SCALAR = {"GPyFloat": "SPyFloat", "GPyInt": "SPyInt", "GPyBool": "SPyBool", "GNpFloat64": "SNpFloat64", "GNpFloat32": "SNpFloat32",
                "GNpInt64": "SNpInt64", "G0d": "S0d"}


def presented_args(case, variant=0):
    """fresh objects for one call of the implementation"""
    forms = case.get("forms", {})
    out = {}
    for arg in ("W", "b", "L"):
        a = case.get(arg)
        if isinstance(a, np.ndarray):
            out[arg] = present(a, forms.get(arg, "F64"), variant)
        else:
            out[arg] = None
    g = case.get("guess")
    if isinstance(g, np.ndarray):
        out["guess"] = present(g, forms.get("guess", "F64"), variant)
    elif isinstance(g, float):
        out["guess"] = present_scalar(g, GUESS_SCALAR[forms.get("guess", "GPyFloat")])
    else:
        out["guess"] = None
    for name in ("relax", "tol", "beta", "alpha"):
        if name in case:
            out[name] = present_scalar(case[name], forms.get(name, "SPyFloat"))
    return out


def coq_array_form(case, arg):
    return case.get("forms", {}).get(arg, "F64")


def coq_guess_form(case):
    f = case.get("forms", {}).get("guess")
    g = case.get("guess")
    if g is None:
        return "GNone"
    if isinstance(g, float):
        return f or "GPyFloat"
    return "(GArr %s)" % (f or "F64")


def coq_alpha_form(case):
    return case.get("forms", {}).get("alpha", "SPyFloat")


def outcome_of_exception(ex):
    return OUTCOME.get(type(ex).__name__, "ErrOtherE")


SART_DEFAULTS = {"initial_guess": None, "max_iterations": 250, "relaxation": 1.0, "beta_laplace": 0.01, "conv_tol": 1.0E-4}
LSQ_DEFAULTS = {"alpha": 0.01, "tikhonov_matrix": None}


def call_with_style(fn, style, names, values, required, defaults, case_values):
    """names: parameter names in signature order; values: objects to pass; case_values: the plain values (to decide
    whether an optional argument equals its documented default and may be left out)"""
    if style == "positional":
        return fn(*[values[k] for k in names])
    if style == "keywords":
        return fn(**{k: values[k] for k in names})
    kw = {k: values[k] for k in names[required:]}
    if style == "defaults":
        for k in list(kw):
            cv, dv = case_values[k], defaults[k]
            if (cv is None and dv is None) or (cv is not None and dv is not None and not isinstance(cv, np.ndarray)
                                               and float(cv) == float(dv)):
                del kw[k]
    return fn(*[values[k] for k in names[:required]], **kw)


def omitted_args(case):
    """optional arguments that the 'defaults' call style leaves out (their value equals the documented default)"""
    if case.get("call") != "defaults":
        return set()
    out = set()
    for name, key, dv in (("relaxation", "relax", 1.0), ("conv_tol", "tol", 1.0E-4), ("beta_laplace", "beta", 0.01),
                          ("max_iterations", "maxit", 250), ("alpha", "alpha", 0.01)):
        if key in case and case[key] is not None and float(case[key]) == dv:
            out.add(name)
    return out
