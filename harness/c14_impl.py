"""Child process of harness/c14.py: runs the real Caching1D/2D/3D on the generated cases.

usage: python c14_impl.py <cases.json> <out.json>      (environment: VERIF_REPO)

For every case it records, from the running implementation only:
  * whether the constructor accepted the arguments, and the node arrays it built,
  * per evaluation point of the history: returned value or exception kind, and the arguments
    with which the wrapped function was called during that evaluation,
  * the same point evaluated on a FRESH caching object (history independence, bit for bit),
  * the same point on a fresh object built WITHOUT function_boundaries,
  * the final sets of calculated cells and sampled nodes (readonly attributes of the object),
  * values at sampling nodes.
No comparison is made here; harness/c14.py and the Coq model do that.
"""
import json
import math
import os
import sys

REPO = os.environ.get("VERIF_REPO", "/repo")
_m = sys.modules.get("cherab")
if _m is None:
    import cherab as _m
_m.__path__ = [os.path.join(REPO, "cherab")]

import numpy as np  # noqa: E402
from cherab.core.math import Caching1D, Caching2D, Caching3D  # noqa: E402

assert os.path.realpath(sys.modules["cherab.core.math.caching.caching1d"].__file__).startswith(os.path.realpath(REPO))

CLS = {1: Caching1D, 2: Caching2D, 3: Caching3D}


def horner(cs, x):
    acc = 0.0
    for c in reversed(cs):
        acc = c + x * acc
    return acc


def make_function(spec, dim):
    """the wrapped function as a plain Python callable of `dim` floats; spec["origin"] moves it: f(p - origin)"""
    g = make_function0(spec, dim)
    org = spec.get("origin")
    if not org:
        return g
    return lambda *p: g(*[pi - oi for pi, oi in zip(p, org)])


def make_function0(spec, dim):
    kind = spec["kind"]
    if kind == "poly":
        cs = spec["coeffs"]
        if dim == 1:
            return lambda x: horner(cs, x)
        if dim == 2:
            return lambda x, y: horner([horner(r, y) for r in cs], x)
        return lambda x, y, z: horner([horner([horner(r, z) for r in rr], y) for rr in cs], x)
    if kind == "trig":
        A, k, ph, C = spec["A"], spec["k"], spec["phase"], spec["C"]
        return lambda *p: A * math.sin(sum(ki * pi for ki, pi in zip(k, p)) + ph) + C
    if kind == "expo":
        A, k, C = spec["A"], spec["k"], spec["C"]
        return lambda *p: A * math.exp(max(-60.0, min(60.0, sum(ki * pi for ki, pi in zip(k, p))))) + C   # exponent clamped far outside
    raise ValueError(kind)


class Recorder:
    def __init__(self, fn):
        self.fn = fn
        self.calls = []

    def __call__(self, *p):
        self.calls.append(tuple(float(v) for v in p))
        return self.fn(*p)


def _num(v, form):
    """one scalar in the requested (valid) argument form; the generator only asks for forms that
    represent the value exactly"""
    if form == "int":
        return int(v)
    if form == "np64":
        return np.float64(v)
    if form == "np32":
        return np.float32(v)
    if form == "bool":
        return bool(v)
    return float(v)


def wrap_function(fn, form, dim):
    """the wrapped function in one of the forms the constructor accepts (autowrap_functionNd)"""
    if form == "partial":
        import functools
        return functools.partial(fn)
    if form == "lambda":
        return (lambda *p: fn(*p))
    if form == "pyfunc":
        if dim == 1:
            from raysect.core.math.function.float.function1d.autowrap import PythonFunction1D as W
        elif dim == 2:
            from raysect.core.math.function.float.function2d.autowrap import PythonFunction2D as W
        else:
            from raysect.core.math.function.float.function3d.autowrap import PythonFunction3D as W
        return W(fn)
    return fn


def build(case, fn, with_fb=True):
    dim = case["dim"]
    forms = case.get("forms", {})
    af, rf = forms.get("area", "float"), forms.get("res", "float")
    area = tuple(_num(v, af) for v in case["area"])
    res = _num(case["res"][0], rf) if dim == 1 else tuple(_num(v, rf) for v in case["res"])
    if forms.get("bad") == "list_area":
        area = list(area)
    if forms.get("bad") == "list_res" and dim > 1:
        res = list(res)
    fb = None
    if with_fb and case["fb"] is not None:
        ff = forms.get("fb", "tuple")
        vals = [_num(v, "int" if ff == "int" else "float") for v in case["fb"]]
        fb = {"tuple": tuple, "int": tuple, "list": list, "nparray": np.array}[ff](vals)
    nbe = int(bool(case["nbe"])) if forms.get("nbe") == "int" else bool(case["nbe"])
    fn = wrap_function(fn, forms.get("fn", "plain"), dim)
    style = forms.get("style", "keyword")
    if style == "positional":
        return CLS[dim](fn, area, res, nbe, fb)
    if style == "defaults":
        kw = {}
        if nbe:
            kw["no_boundary_error"] = nbe
        if fb is not None:
            kw["function_boundaries"] = fb
        return CLS[dim](fn, area, res, **kw)
    return CLS[dim](fn, area, res, no_boundary_error=nbe, function_boundaries=fb)


def call(obj, p, form="float", route="call"):
    """-> (kind, value): kind 0 returned, 2 ValueError, 3 any other exception.
    form: how the coordinates are passed; route: obj(p) or through raysect function arithmetic
    ((obj * 1.0)(p), which reaches the cdef evaluate() instead of __call__)"""
    try:
        if form == "np0d":
            args = [np.array(v) for v in p]
        else:
            args = [_num(v, form) for v in p]
        target = (obj * 1.0) if route == "mul1" else obj
        return 0, float(target(*args))
    except ValueError:
        return 2, 0.0
    except Exception as e:  # noqa: BLE001  (reported, not swallowed: kind 3 is always a disagreement)
        return 3, repr(e)[:200]


def axes_of(obj, dim):
    names = ["x_domain_view", "y_domain_view", "z_domain_view"][:dim]
    return [[float(v) for v in np.asarray(getattr(obj, n))] for n in names]


def run_case(case):
    dim = case["dim"]
    fn = make_function(case["fn"], dim)
    rec = Recorder(fn)
    out = {"id": case["id"]}
    if case["fn"]["kind"] == "poly" and case.get("forms", {}).get("fn") == "const":
        rec = float(case["fn"]["const_value"])          # a number is accepted as a constant wrapped function
        fn = (lambda *p, _v=rec: _v)
    try:
        obj = build(case, rec)
        out["ctor"] = "ok"
    except ValueError:
        out["ctor"] = "ValueError"
        return out
    except TypeError as e:
        out["ctor"] = "TypeError"
        out["ctor_msg"] = repr(e)[:200]
        return out
    except Exception as e:  # noqa: BLE001  (reported: any other exception from the constructor is a disagreement)
        out["ctor"] = "error: " + repr(e)[:200]
        return out
    axes = axes_of(obj, dim)
    out["axes"] = axes
    recording = isinstance(rec, Recorder)
    out["ctor_calls"] = len(rec.calls) if recording else 0
    forms = case.get("forms", {})
    cform, route = forms.get("call", "float"), forms.get("route", "call")
    # a second live object, same history, built WITHOUT function_boundaries
    twin = build(case, fn, with_fb=False) if case["fb"] is not None else None
    steps = []
    for p in case["pts"]:
        if recording:
            rec.calls = []
        kind, val = call(obj, p, cform, route)
        st = {"kind": kind, "value": val, "calls": [list(c) for c in rec.calls] if recording else []}
        # the same point on a fresh object (plain float arguments, plain call)
        fresh = build(case, fn)
        fk, fv = call(fresh, p)
        st["fresh"] = [fk, fv]
        if twin is not None:
            nk, nv = call(twin, p)
            st["nofb"] = [nk, nv]
        st["f"] = call(fn, p)[1]
        steps.append(st)
    # a third live object driven through the REVERSED history: per point the value must be the same bits
    other = build(case, fn)
    rev = [None] * len(case["pts"])
    for i in range(len(case["pts"]) - 1, -1, -1):
        rev[i] = list(call(other, case["pts"][i]))
    out["rev"] = rev
    out["steps"] = steps
    calc = np.asarray(obj.calculated_view)
    data = np.asarray(obj.data_view)
    out["cells"] = [[int(v) + 1 for v in idx] for idx in np.argwhere(calc != 0)]     # cell key = polynomial index + 1
    out["nodes"] = [[int(v) for v in idx] for idx in np.argwhere(~np.isnan(data))]
    out["node_values"] = [float(data[tuple(idx)]) for idx in out["nodes"]]      # normalised samples as stored
    # values at sampling nodes, continuing the same history (more history for the same object)
    nodevals = []
    for pick in case.get("node_picks", []):
        # a sampling node inside the permitted cells: index 1 .. top-2 on every axis
        key = [1 + int(pick[a] * (len(axes[a]) - 3)) for a in range(dim)]
        p = [axes[a][key[a]] for a in range(dim)]
        k, v = call(obj, p)
        nodevals.append({"key": key, "p": p, "kind": k, "value": v, "f": call(fn, p)[1]})
    out["nodevals"] = nodevals
    return out


def run_find_case(case):
    """utility.find_index with padding, observed through Interpolate1DLinear (see Model/C14_Check.v: check_find)"""
    from cherab.core.math import Interpolate1DLinear
    x = np.array(case["x"], dtype=float)
    it = Interpolate1DLinear(x, np.arange(len(x), dtype=float), extrapolate=True, extrapolation_type="nearest",
                             extrapolation_range=float(case["pad"]))
    return {"id": case["id"], "find": [list(call(it, [v])) for v in case["vs"]]}


def main():
    cases = json.load(open(sys.argv[1]))
    res = []
    for n, c in enumerate(cases):
        with open(sys.argv[2] + ".progress", "w") as fh:
            fh.write(str(n))
        res.append(run_find_case(c) if c.get("kind") == "find" else run_case(c))
        if len(res) % 20 == 0:
            json.dump(res, open(sys.argv[2] + ".part", "w"))
    json.dump(res, open(sys.argv[2], "w"))


if __name__ == "__main__":
    main()
