"""Child process of harness/c14.py: runs the real Caching1D/2D/3D on the generated cases.

usage: python c14_impl.py <cases.json> <out.json>      (environment: VERIF_REPO)

For every case it records, from the running implementation only:
  * whether the constructor accepted the arguments, and the node arrays it built,
  * per evaluation point of the history: returned value or exception kind, and the arguments
    with which the wrapped function was called during that evaluation,
  * the same point evaluated on a FRESH caching object (history independence, bit for bit),
  * the same point on a fresh object built WITHOUT function_boundaries,
  * the final sets of calculated cells and sampled nodes (readonly attributes of the object),
  * values at sampling nodes.
No comparison is made here; harness/c14.py and the Coq model do that.
"""
import json
import math
import os
import sys

REPO = os.environ.get("VERIF_REPO", "/repo")
_m = sys.modules.get("cherab")
if _m is None:
    import cherab as _m
_m.__path__ = [os.path.join(REPO, "cherab")]

import numpy as np  # noqa: E402
from cherab.core.math import Caching1D, Caching2D, Caching3D  # noqa: E402

assert os.path.realpath(sys.modules["cherab.core.math.caching.caching1d"].__file__).startswith(os.path.realpath(REPO))

CLS = {1: Caching1D, 2: Caching2D, 3: Caching3D}


def horner(cs, x):
    acc = 0.0
    for c in reversed(cs):
        acc = c + x * acc
    return acc


def make_function(spec, dim):
    """the wrapped function as a plain Python callable of `dim` floats"""
    kind = spec["kind"]
    if kind == "poly":
        cs = spec["coeffs"]
        if dim == 1:
            return lambda x: horner(cs, x)
        if dim == 2:
            return lambda x, y: horner([horner(r, y) for r in cs], x)
        return lambda x, y, z: horner([horner([horner(r, z) for r in rr], y) for rr in cs], x)
    if kind == "trig":
        A, k, ph, C = spec["A"], spec["k"], spec["phase"], spec["C"]
        return lambda *p: A * math.sin(sum(ki * pi for ki, pi in zip(k, p)) + ph) + C
    if kind == "expo":
        A, k, C = spec["A"], spec["k"], spec["C"]
        return lambda *p: A * math.exp(sum(ki * pi for ki, pi in zip(k, p))) + C
    raise ValueError(kind)


class Recorder:
    def __init__(self, fn):
        self.fn = fn
        self.calls = []

    def __call__(self, *p):
        self.calls.append(tuple(float(v) for v in p))
        return self.fn(*p)


def build(case, fn, with_fb=True):
    dim = case["dim"]
    area = tuple(case["area"])
    res = case["res"][0] if dim == 1 else tuple(case["res"])
    fb = tuple(case["fb"]) if (with_fb and case["fb"] is not None) else None
    return CLS[dim](fn, area, res, no_boundary_error=bool(case["nbe"]), function_boundaries=fb)


def call(obj, p):
    """-> (kind, value): kind 0 returned, 2 ValueError, 3 any other exception"""
    try:
        return 0, float(obj(*p))
    except ValueError:
        return 2, 0.0
    except Exception as e:  # noqa: BLE001  (reported, not swallowed: kind 3 is always a disagreement)
        return 3, repr(e)[:200]


def axes_of(obj, dim):
    names = ["x_domain_view", "y_domain_view", "z_domain_view"][:dim]
    return [[float(v) for v in np.asarray(getattr(obj, n))] for n in names]


def run_case(case):
    dim = case["dim"]
    fn = make_function(case["fn"], dim)
    rec = Recorder(fn)
    out = {"id": case["id"]}
    try:
        obj = build(case, rec)
        out["ctor"] = "ok"
    except ValueError:
        out["ctor"] = "ValueError"
        return out
    except Exception as e:  # noqa: BLE001  (reported: any other exception from the constructor is a disagreement)
        out["ctor"] = "error: " + repr(e)[:200]
        return out
    axes = axes_of(obj, dim)
    out["axes"] = axes
    out["ctor_calls"] = len(rec.calls)
    steps = []
    for p in case["pts"]:
        rec.calls = []
        kind, val = call(obj, p)
        st = {"kind": kind, "value": val, "calls": [list(c) for c in rec.calls]}
        # the same point on a fresh object
        fresh = build(case, fn)
        fk, fv = call(fresh, p)
        st["fresh"] = [fk, fv]
        if case["fb"] is not None:
            nofb = build(case, fn, with_fb=False)
            nk, nv = call(nofb, p)
            st["nofb"] = [nk, nv]
        st["f"] = call(fn, p)[1]
        steps.append(st)
    out["steps"] = steps
    calc = np.asarray(obj.calculated_view)
    data = np.asarray(obj.data_view)
    out["cells"] = [[int(v) + 1 for v in idx] for idx in np.argwhere(calc != 0)]     # cell key = polynomial index + 1
    out["nodes"] = [[int(v) for v in idx] for idx in np.argwhere(~np.isnan(data))]
    # values at sampling nodes, continuing the same history (more history for the same object)
    nodevals = []
    for pick in case.get("node_picks", []):
        # a sampling node inside the permitted cells: index 1 .. top-2 on every axis
        key = [1 + int(pick[a] * (len(axes[a]) - 3)) for a in range(dim)]
        p = [axes[a][key[a]] for a in range(dim)]
        k, v = call(obj, p)
        nodevals.append({"key": key, "p": p, "kind": k, "value": v, "f": call(fn, p)[1]})
    out["nodevals"] = nodevals
    return out


def main():
    cases = json.load(open(sys.argv[1]))
    res = []
    for n, c in enumerate(cases):
        with open(sys.argv[2] + ".progress", "w") as fh:
            fh.write(str(n))
        res.append(run_case(c))
        if len(res) % 20 == 0:
            json.dump(res, open(sys.argv[2] + ".part", "w"))
    json.dump(res, open(sys.argv[2], "w"))


if __name__ == "__main__":
    main()
