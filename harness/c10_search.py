"""Failing-input search for C10: the executable statement of the property itself, evaluated on the real
implementation (never on the Coq model).

For a ray segment inside a ray-transfer grid:
  P1  with every cell active the entries sum to the length of the segment;
  P2  each cell's entry (one-source-per-cell map) differs from the exact chord length in that cell by at
      most two integration steps (2 dt);
  P3  with an arbitrary voxel map every source's entry is the sum of the entries of its cells under the
      one-source-per-cell map; cells mapped to -1 / outside the mask contribute to nothing; the spectrum is
      incremented (+=), bins = max + 1;
  P4  the entries sum to the chord inside the active cells (within 2 dt per maximal active run);
  P5  a cylindrical grid gives the same entries for the ray rotated by a multiple of the period;
  P6  a periodic grid equals the 360-degree grid whose voxel map is the periodic tiling.
Exact chord lengths: Cartesian in Fractions (exact), cylindrical in double precision.
"""
import math
from fractions import Fraction

import numpy as np

EPS = 1e-9


def guard(fails, what, info, fn, *args, **kw):
    """runs one unit of work (one grid / history / ray); an exception raised by the implementation - or by the harness
    while digesting the implementation's answer - on a valid input becomes a recorded failing input and the run goes on"""
    try:
        return fn(*args, **kw)
    except Exception as exc:      # noqa: BLE001 - every kind is an outcome here, none is swallowed silently
        import traceback
        tb = traceback.format_exc().strip().splitlines()
        fails.append({"claim": "%s: no exception on a valid input (got %s)" % (what, type(exc).__name__),
                      "key": "c10:exception:%s:%s" % (what[:40], type(exc).__name__),
                      "error": "%s: %s" % (type(exc).__name__, exc), "where": tb[-3:], "input": info})
        return None
IN_GRID_CLASSES_SKIP = ("below-zero", "leaves-grid", "short")


def dist_axis(p0, p1):
    """distance of the segment p0-p1 from the z axis"""
    dx, dy = p1[0] - p0[0], p1[1] - p0[1]
    a = dx * dx + dy * dy
    if a == 0:
        return math.hypot(p0[0], p0[1])
    t = max(0.0, min(1.0, -(p0[0] * dx + p0[1] * dy) / a))
    return math.hypot(p0[0] + t * dx, p0[1] + t * dy)


# ---------------------------------------------------------------------------------------------
# exact chords
# ---------------------------------------------------------------------------------------------
def chords_cart(g, s, e):
    """{cell: fraction of the segment inside the cell} exactly, plus the ordered list of (cell, fraction)"""
    s = [Fraction(v) for v in s]
    e = [Fraction(v) for v in e]
    st = [Fraction(v) for v in g["steps"]]
    d = [e[i] - s[i] for i in range(3)]
    cuts = {Fraction(0), Fraction(1)}
    for a in range(3):
        if d[a] == 0:
            continue
        lo, hi = min(s[a], e[a]), max(s[a], e[a])
        m = math.floor(lo / st[a])
        while m * st[a] <= hi:
            lam = (m * st[a] - s[a]) / d[a]
            if 0 < lam < 1:
                cuts.add(lam)
            m += 1
    cuts = sorted(cuts)
    seq = []
    for l0, l1 in zip(cuts, cuts[1:]):
        mid = (l0 + l1) / 2
        cell = tuple(math.floor((s[a] + d[a] * mid) / st[a]) for a in range(3))
        seq.append((cell, l1 - l0))
    return seq


def cyl_cell_py(g, x, y, z):
    r = math.hypot(x, y)
    ir = math.floor((r - g["rmin"]) / g["dr"])
    if g["shape"][1] == 1:
        iphi = 0
    else:
        # the stated fold: the angle in (-180, 180] plus 360, taken modulo the period (a period that divides 360 only
        # up to the accepted tolerance is folded the same way)
        phi = (math.degrees(math.atan2(y, x)) + 360.0) % g["period"]
        iphi = int(phi // g["dphi"])
        if off_period(g):
            return (ir, iphi, math.floor(z / g["dz"]))      # may be == nphi just below a full period: reported, not clamped
        iphi = min(iphi, g["shape"][1] - 1)
    return (ir, iphi, math.floor(z / g["dz"]))


def off_period(g):
    """True when 360 / period is not an integer (only accepted within the 1e-3 tolerance of the emitter)"""
    q = 360.0 / g["period"]
    return abs(q - round(q)) > 1e-12


def chords_cyl(g, s, e):
    d = [e[i] - s[i] for i in range(3)]
    cuts = {0.0, 1.0}
    a = d[0] * d[0] + d[1] * d[1]
    b = 2 * (s[0] * d[0] + s[1] * d[1])
    if a > 0:
        # the point of closest approach to the axis: where a line tangent to a ring border touches it (a midpoint must
        # never sit exactly there: its ring index would be decided by rounding)
        if 0 < -b / (2 * a) < 1:
            cuts.add(-b / (2 * a))
        for i in range(g["shape"][0] + 1):
            R = g["rmin"] + i * g["dr"]
            c = s[0] * s[0] + s[1] * s[1] - R * R
            disc = b * b - 4 * a * c
            if disc > 0:
                sq = math.sqrt(disc)
                cuts.update(l for l in ((-b - sq) / (2 * a), (-b + sq) / (2 * a)) if 0 < l < 1)
    if g["shape"][1] > 1:
        if off_period(g):
            # borders of the folded sectors: angle + 360 = m * period + j * dphi, and the branch cut of atan2 at 180
            angles = {180.0}
            for m in range(int(540.0 / g["period"]) + 2):
                for j in range(g["shape"][1]):
                    a = m * g["period"] + j * g["dphi"] - 360.0
                    if -180.0 <= a <= 180.0:
                        angles.add(a)
            angles = sorted(angles)
        else:
            angles = [j * g["dphi"] for j in range(int(round(360.0 / g["dphi"])))]
        for ang in angles:
            th = math.radians(ang)
            ux, uy = math.cos(th), math.sin(th)
            den = ux * d[1] - uy * d[0]
            if den != 0:
                lam = -(ux * s[1] - uy * s[0]) / den
                if 0 < lam < 1:
                    cuts.add(lam)
    if d[2] != 0:
        for k in range(g["shape"][2] + 1):
            lam = (k * g["dz"] - s[2]) / d[2]
            if 0 < lam < 1:
                cuts.add(lam)
    cuts = sorted(cuts)
    seq = []
    for l0, l1 in zip(cuts, cuts[1:]):
        if l1 - l0 < 1e-15:
            continue
        mid = (l0 + l1) / 2
        seq.append((cyl_cell_py(g, s[0] + d[0] * mid, s[1] + d[1] * mid, s[2] + d[2] * mid), l1 - l0))
    return seq


def in_shape(g, cell):
    return all(0 <= cell[a] < g["shape"][a] for a in range(3))


def flat(g, cell):
    return (cell[0] * g["shape"][1] + cell[1]) * g["shape"][2] + cell[2]


def identity_material(impl, g):
    if "_mat_id" not in g:
        g["_mat_id"] = impl.material(g)
    return g["_mat_id"]


# ---------------------------------------------------------------------------------------------
def check_segment(impl, g, c, stats, rng=None, periodic=True):
    """P1-P5 for one call c on grid g (g['vm'] is the flattened voxel map).  Returns a list of failures."""
    fails = []
    kind = g["kind"]
    s, e = impl.local(c["m12"], c["p0"]), impl.local(c["m12"], c["p1"])
    L, n = c["length"], c["n"]
    dt = L / n
    ncells = g["shape"][0] * g["shape"][1] * g["shape"][2]
    info = {"grid": {k: v for k, v in g.items() if k not in ("cases", "traces", "_mat_id", "_mat_vm", "_g360", "trace_errors")},
            "call": {k: c[k] for k in ("step", "min_samples", "m12", "p0", "p1", "class") if k in c},
            "start_local": s, "end_local": e, "length": L, "n": n, "dt": dt}
    # "cell" = geometric cell.  A grid with period < 360 is, per the property, the 360-degree grid whose voxel map
    # is the periodic tiling: chords and the one-source-per-cell run are taken on that 360-degree grid.
    geom, vm_geom = g, g["vm"]
    offp = kind == "cyl" and off_period(g)
    if kind == "cyl" and g["period"] < 360 and not offp:
        if "_g360" not in g:
            ns = int(round(360.0 / g["period"]))
            nr, nphi, nz = g["shape"]
            vm3 = np.array(g["vm"], dtype=np.int32).reshape(nr, nphi, nz)
            g["_g360"] = {"kind": "cyl", "shape": [nr, nphi * ns, nz], "dr": g["dr"], "dz": g["dz"], "rmin": g["rmin"],
                          "dphi": g["dphi"], "nphi": nphi * ns, "period": 360.0, "rmax": g["rmax"], "zmax": g["zmax"],
                          "vm": [int(v) for v in np.tile(vm3, (1, ns, 1)).ravel()]}
        geom = g["_g360"]
        vm_geom = geom["vm"]
    g_real = g
    g = geom
    ncells = g["shape"][0] * g["shape"][1] * g["shape"][2]
    seq = chords_cart(g, s, e) if kind == "cart" else chords_cyl(g, s, e)
    if any(not in_shape(g, cell) for cell, _ in seq):
        return fails          # not a ray inside the grid: outside the property's domain
    e_id, err = impl.call(kind, identity_material(impl, g), c["step"], c["min_samples"], c["m12"], c["p0"], c["p1"], [0.0] * ncells)
    if err:
        fails.append(dict(info, claim="a ray inside the grid is integrated without error", observed="IndexError"))
        return fails
    stats["rays"] += 1
    tot = sum(e_id)
    if abs(tot - L) > EPS * L:
        fails.append(dict(info, claim="with every cell active the entries sum to the length of the chord", sum=tot, expected=L))
    # A path that runs inside a cell face up to rounding (constant coordinate within 1e-9 of a border without being
    # exactly on it, e.g. fl(3 * dz) for a non-dyadic dz) belongs to either neighbour: the per-cell comparison is
    # skipped for it (sums, merged maps and periodicity are still checked).
    degenerate = False
    dloc = [e[a] - s[a] for a in range(3)]
    sizes = g["steps"] if kind == "cart" else [None, None, g["dz"]]
    for a in range(3):
        if sizes[a] is not None and dloc[a] == 0:
            q = Fraction(s[a]) / Fraction(sizes[a])
            if q.denominator != 1 and abs(float(q) - round(float(q))) < 1e-9:
                degenerate = True
    if kind == "cyl" and dloc[0] == 0 and dloc[1] == 0:
        q = (math.hypot(s[0], s[1]) - g["rmin"]) / g["dr"]
        if abs(q - round(q)) < 1e-9:
            degenerate = True
    if degenerate:
        stats["degenerate_in_face"] = stats.get("degenerate_in_face", 0) + 1
    chord = {}
    for cell, fr in seq:
        chord[flat(g, cell)] = chord.get(flat(g, cell), 0) + fr
    worst = None
    # a folded cell of a grid whose period divides 360 only within the tolerance is the union of its periodic images: one
    # integration step per interval in which the line meets it (at least the two of the property)
    runs_of, prev_cell = {}, None
    for cell, fr in seq:
        if cell != prev_cell:
            runs_of[flat(g, cell)] = runs_of.get(flat(g, cell), 0) + 1
        prev_cell = cell
    for k in range(ncells if not degenerate else 0):
        ex = float(chord.get(k, 0) * Fraction(L)) if kind == "cart" else chord.get(k, 0.0) * L
        dev = abs(e_id[k] - ex)
        stats["cells_compared"] += 1
        allowed = 2 * dt if not offp else max(2, runs_of.get(k, 0)) * dt
        if dev > allowed + EPS * L and (worst is None or dev > worst[0]):
            worst = (dev, k, e_id[k], ex)
    if worst:
        fails.append(dict(info, claim="each cell's entry differs from the exact chord length in that cell by at most two integration steps",
                          cell_flat_index=worst[1], entry=worst[2], exact_chord=worst[3], deviation=worst[0], two_dt=2 * dt))
    # P3 / P4 with the grid's voxel map
    vm = vm_geom
    g = g_real
    bins = max(vm) + 1
    if g.get("bins", bins) != bins:
        fails.append(dict(info, claim="bins = largest source index + 1", bins=g.get("bins"), expected=bins))
    if "_mat_vm" not in g:
        g["_mat_vm"] = impl.material(g, vm=g["vm"])
    e_vm, err = impl.call(kind, g["_mat_vm"], c["step"], c["min_samples"], c["m12"], c["p0"], c["p1"], [0.0] * bins)
    want = [0.0] * bins
    for k in range(ncells):
        if vm[k] >= 0:
            want[vm[k]] += e_id[k]
    stats["merged"] += 1
    for sidx in range(bins):
        if abs(e_vm[sidx] - want[sidx]) > EPS * L:
            fails.append(dict(info, claim="each source's entry equals the sum of the entries of its cells under the one-source-per-cell "
                                          "map (cells mapped to -1 / outside the mask receive nothing"
                                          + ("; periodic grid = 360-degree grid with the tiled map)" if geom is not g else ")"),
                              source=sidx, entry=e_vm[sidx], sum_of_cells=want[sidx]))
            break
    if "out" in c and "init" in c and len(c["init"]) == bins and not c.get("err"):
        for sidx in range(bins):
            if abs(c["out"][sidx] - c["init"][sidx] - e_vm[sidx]) > EPS * max(L, abs(c["init"][sidx])):
                fails.append(dict(info, claim="the entries are added to the spectrum that was passed in", source=sidx,
                                  before=c["init"][sidx], after=c["out"][sidx], entry=e_vm[sidx]))
                break
    # P4: sum over the active cells against the chord inside the active cells
    runs, prev = 0, False
    act = 0
    for cell, fr in seq:
        a = vm[flat(geom, cell)] >= 0
        if a:
            act += fr
            if not prev:
                runs += 1
        prev = a
    act = float(act * Fraction(L)) if kind == "cart" else act * L
    if not degenerate and abs(sum(e_vm) - act) > 2 * dt * runs + EPS * L:
        fails.append(dict(info, claim="the entries sum to the length of the chord inside the active cells", sum=sum(e_vm),
                          chord_in_active_cells=act, active_runs=runs, dt=dt))
    # P5: periodic image
    if kind == "cyl" and periodic and g["period"] < 360 and not offp and c.get("class", "") in ("generic", "outside-hole", "traced", "other-period"):
        from raysect.optical import rotate_z
        ns = int(round(360.0 / g["period"]))
        k = 1 + (rng.randrange(ns - 1) if (rng is not None and ns > 2) else 0)
        M = rotate_z(k * g["period"]) * impl.affine(c["m12"])
        m12 = [float(M[i, j]) for i in range(3) for j in range(4)]
        e_rot, err = impl.call(kind, g["_mat_vm"], c["step"], c["min_samples"], m12, c["p0"], c["p1"], [0.0] * bins)
        stats["periodic"] += 1
        if err or max(abs(a - b) for a, b in zip(e_rot, e_vm)) > 1e-7 * L:
            fails.append(dict(info, claim="a cylindrical grid repeats with its angular period: the ray rotated by a multiple of the "
                                          "period gives the same entries", rotation_deg=k * g["period"], entries=e_vm, rotated=e_rot))
    return fails


def search_call(impl, g, c, rng, stats):
    if c["class"] in IN_GRID_CLASSES_SKIP:
        return []
    if g["kind"] == "cyl":
        s, e = impl.local(c["m12"], c["p0"]), impl.local(c["m12"], c["p1"])
        if g["rmin"] > 0 and dist_axis(s, e) < g["rmin"] * (1 + 1e-9):
            return []      # passes through the inner hole: not a path inside the ray-transfer cylinder
    return check_segment(impl, g, c, stats, rng)


# ---------------------------------------------------------------------------------------------
def search_traced(impl, g, stats):
    """rays traced through RayTransferBox / RayTransferCylinder: the spectrum returned by Ray.trace against the
    chord of the ray inside the active cells computed from the geometry alone"""
    fails = []
    info = {"grid": {k: v for k, v in g.items() if k not in ("cases", "traces", "_mat_id", "_mat_vm")}}
    vm = g["vm"]
    for tr in g.get("traces", []):
        stats["traced_rays"] += 1
        if tr["result"] != tr["last_out"]:
            fails.append(dict(info, claim="Ray.trace returns the spectrum the integrator wrote", trace=tr))
            continue
        o, d = tr["origin_local"], tr["dir_local"]
        # clip the ray (t >= 0) to the bounding volume of the grid
        if g["kind"] == "cart":
            lo, hi = [0.0, 0.0, 0.0], g["ext"]
            cell = min(g["steps"])
        else:
            lo, hi = [-g["rmax"], -g["rmax"], 0.0], [g["rmax"], g["rmax"], g["zmax"]]
            cell = min(g["dr"], g["dz"])
        t0, t1 = 0.0, float("inf")
        for a in range(3):
            if d[a] == 0:
                if not (lo[a] <= o[a] <= hi[a]):
                    t0, t1 = 1.0, 0.0
                continue
            ta, tb = (lo[a] - o[a]) / d[a], (hi[a] - o[a]) / d[a]
            t0, t1 = max(t0, min(ta, tb)), min(t1, max(ta, tb))
        total = sum(tr["result"])
        if t1 <= t0:
            if total > 1e-4 * cell:
                fails.append(dict(info, claim="a ray that misses the object contributes nothing", trace=tr))
            continue
        s = [o[a] + d[a] * t0 for a in range(3)]
        e = [o[a] + d[a] * t1 for a in range(3)]
        L = t1 - t0
        # shrink by a hair so that mid points on the outer faces classify inside
        seq = chords_cart(g, s, e) if g["kind"] == "cart" else chords_cyl(g, s, e)
        act, runs, prev = 0.0, 0, False
        for c, fr in seq:
            a = in_shape(g, c) and vm[flat(g, c)] >= 0
            if a:
                act += float(fr) * L
                if not prev:
                    runs += 1
            prev = a
        n_est = max(2, int(L / tr["step"]))
        dt = 2 * tr["step"]
        tol = 2 * dt * max(runs, 1) + 1e-3 * cell + EPS
        if abs(total - act) > tol:
            fails.append(dict(info, claim="for a ray crossing a ray-transfer object the entries sum to the length of the chord inside "
                                          "the active cells", sum=total, chord_in_active_cells=act, tolerance=tol, trace=tr))
    return fails


# ---------------------------------------------------------------------------------------------
def search_other_periods(impl, rng, count, stats):
    """cylindrical grids whose sector size is not in the model's table (search on the implementation only)"""
    fails = []
    table = [(7.2, 5), (7.2, 50), (10.0, 3), (10.0, 36), (36.0, 2), (36.0, 10), (20.0, 6), (72.0, 5), (22.5, 4), (1.0, 10),
             (15.0, 8), (40.0, 3), (5.0, 9), (2.5, 4)]
    for _ in range(count):
        dphi, nphi = rng.choice(table)
        nr, nz = rng.randint(1, 3), rng.randint(1, 3)
        g = {"kind": "cyl", "shape": [nr, nphi, nz], "dr": rng.uniform(0.3, 1.0), "dz": rng.uniform(0.3, 1.0),
             "rmin": rng.choice([0.0, rng.uniform(0.2, 1.5)]), "dphi": dphi, "nphi": nphi, "period": dphi * nphi}
        g["rmax"], g["zmax"] = g["rmin"] + nr * g["dr"], nz * g["dz"]
        ncells = nr * nphi * nz
        B = rng.randint(1, max(1, ncells // 2))
        vm = [rng.randint(-1, B - 1) for _ in range(ncells)]
        vm[rng.randrange(ncells)] = B - 1
        g["vm"] = vm
        g["bins"] = int(impl.material(g, vm=vm).bins)

        def pt():
            rr = rng.uniform(g["rmin"] + 1e-3, g["rmax"] - 1e-3)
            ph = rng.uniform(-math.pi, math.pi)
            return [rr * math.cos(ph), rr * math.sin(ph), rng.uniform(0, g["zmax"] * 0.999)]
        for _ in range(40):
            p0, p1 = pt(), pt()
            if dist_axis(p0, p1) > g["rmin"] + 1e-3:
                break
        else:
            continue
        step = rng.uniform(0.05, 0.5) * min(g["dr"], g["dz"])
        m12 = [1.0, 0, 0, 0, 0, 1.0, 0, 0, 0, 0, 1.0, 0]
        L = impl.length(m12, p0, p1)
        c = {"class": "other-period", "step": step, "min_samples": 2, "m12": m12, "p0": p0, "p1": p1, "length": L,
             "n": max(2, int(L / step))}
        if L < step:
            continue
        fails += check_segment(impl, g, c, stats, rng)
        # P6: the periodic grid against the 360-degree grid with the tiled voxel map
        ns = int(round(360.0 / g["period"]))
        if ns > 1:
            g360 = dict(g, shape=[nr, nphi * ns, nz], nphi=nphi * ns, period=360.0)
            vm3 = np.array(vm, dtype=np.int32).reshape(nr, nphi, nz)
            g360["vm"] = [int(v) for v in np.tile(vm3, (1, ns, 1)).ravel()]
            mat360 = impl.material(g360, vm=g360["vm"])
            e360, _ = impl.call("cyl", mat360, step, 2, m12, p0, p1, [0.0] * (max(vm) + 1))
            eP, _ = impl.call("cyl", impl.material(g, vm=vm), step, 2, m12, p0, p1, [0.0] * (max(vm) + 1))
            stats["periodic"] += 1
            if max(abs(a - b) for a, b in zip(e360, eP)) > 1e-7 * L:
                fails.append({"claim": "a periodic cylindrical grid equals the 360-degree grid whose voxel map is the periodic tiling",
                              "grid": {k: v for k, v in g.items() if not k.startswith("_")}, "p0": p0, "p1": p1, "step": step,
                              "periodic": eP, "tiled": e360})
        if len(fails) > 5:
            break
    return fails


# ---------------------------------------------------------------------------------------------
# pipelines.py
# ---------------------------------------------------------------------------------------------
PIPE_KINDS = ("power", "radiance")


def drive_pipeline_api(dim, hist):
    """Drives a real RayTransferPipeline{0,1,2}D object through a history of observations by calling the methods a raysect
    observer calls (initialise / pixel_processor / add_sample / pack_results / update / finalise), the SAME object for the
    whole history.  hist = list of observations:
       0D: {"kind", "bins", "tasks": [[(samples, sensitivity), ...], ...]}
       1D/2D: {"kind", "bins", "pixels": n | (nx, ny), "pixel_samples", "tasks": [(pixel, [(samples, sensitivity), ...]), ...]}
    Returns the matrix after every observation (numpy arrays)."""
    from raysect.optical import Spectrum
    from cherab.tools.raytransfer import RayTransferPipeline0D, RayTransferPipeline1D, RayTransferPipeline2D
    pipe = {0: RayTransferPipeline0D, 1: RayTransferPipeline1D, 2: RayTransferPipeline2D}[dim](kind=hist[0]["kind"])
    outs = []

    def spec(vals, bins):
        sp = Spectrum(500., 501., bins)
        sp.samples[:] = vals
        return sp
    for ob in hist:
        pipe.kind = ob["kind"]
        bins = ob["bins"]
        if dim == 0:
            pipe.initialise(500., 501., bins, [None], True)
            for task in ob["tasks"]:
                pp = pipe.pixel_processor(0)
                for vals, sens in task:
                    pp.add_sample(spec(vals, bins), sens)
                pipe.update(0, pp.pack_results(), len(task))
            pipe.finalise()
        else:
            pipe.initialise(ob["pixels"], ob["pixel_samples"], 500., 501., bins, [None], True)
            for pix, task in ob["tasks"]:
                pp = pipe.pixel_processor(pix, 0) if dim == 1 else pipe.pixel_processor(pix[0], pix[1], 0)
                for vals, sens in task:
                    pp.add_sample(spec(vals, bins), sens)
                if dim == 1:
                    pipe.update(pix, 0, pp.pack_results())
                else:
                    pipe.update(pix[0], pix[1], 0, pp.pack_results())
            pipe.finalise()
        outs.append(np.array(pipe.matrix, dtype=float).copy())
    return outs


def gen_pipeline_history(rng, dim):
    hist = []
    for _ in range(rng.randint(2, 4)):
        bins = rng.randint(1, 5)
        kind = rng.choice(PIPE_KINDS)

        def smp():
            return ([rng.randint(0, 64) / 16.0 if rng.random() < 0.7 else 0.0 for _ in range(bins)],
                    rng.choice([1.0, 1.0, 0.5, 2.5, 3.0]))
        if dim == 0:
            tasks = [[smp() for _ in range(rng.randint(1, 3))] for _ in range(rng.randint(1, 3))]
            hist.append({"kind": kind, "bins": bins, "tasks": tasks})
        else:
            ps = rng.randint(1, 3)
            if dim == 1:
                pixels = rng.randint(1, 3)
                keys = list(range(pixels))
            else:
                pixels = (rng.randint(1, 2), rng.randint(1, 3))
                keys = [(x, y) for x in range(pixels[0]) for y in range(pixels[1])]
            rng.shuffle(keys)
            if len(keys) > 1 and rng.random() < 0.3:
                keys = keys[:-1]          # a pixel the observer did not render keeps its zeros
            hist.append({"kind": kind, "bins": bins, "pixels": pixels, "pixel_samples": ps,
                         "tasks": [(k, [smp() for _ in range(ps)]) for k in keys]})
    return hist


def expected_pipeline_matrix(dim, ob):
    """the documented content: mean over the observation's samples of samples [* sensitivity for 'power'] (exact)"""
    bins = ob["bins"]

    def mean(task, n):
        tot = [Fraction(0)] * bins
        for vals, sens in task:
            w = Fraction(sens) if ob["kind"] == "power" else Fraction(1)
            for j in range(bins):
                tot[j] += Fraction(vals[j]) * w
        return [float(t / n) for t in tot]
    if dim == 0:
        allsm = [sm for task in ob["tasks"] for sm in task]
        return np.array(mean(allsm, len(allsm)))
    shape = (ob["pixels"], bins) if dim == 1 else (ob["pixels"][0], ob["pixels"][1], bins)
    m = np.zeros(shape)
    for pix, task in ob["tasks"]:
        m[pix] = mean(task, ob["pixel_samples"])
    return m


def search_pipeline_api(histories, stats):
    """executable statement on the implementation: every observation's matrix is the mean of ITS samples"""
    fails = []
    for dim, hist, outs in histories:
        for oi, (ob, out) in enumerate(zip(hist, outs)):
            want = expected_pipeline_matrix(dim, ob)
            stats["pipeline_api_observations"] = stats.get("pipeline_api_observations", 0) + 1
            if out.shape != want.shape or not np.allclose(out, want, rtol=1e-12, atol=0):
                fails.append({"claim": "RayTransferPipeline%dD: the matrix of every observation is the mean of that observation's samples "
                                       "(times the sensitivity for kind='power'), whatever the pipeline object was used for before" % dim,
                              "observation_index": oi, "history": hist, "matrix": out.tolist(), "expected": want.tolist()})
                break
    return fails


def _grid_of(obj, kind, g):
    """grid description (as used by search_traced) of a live RayTransferBox / RayTransferCylinder"""
    g = dict(g)
    g["vm"] = [int(v) for v in np.asarray(obj.voxel_map).ravel()]
    g["bins"] = int(obj.bins)
    if kind == "cyl":
        g["dr"], g["dz"] = obj.material.dr, obj.material.dz
    return {k: v for k, v in g.items() if not k.startswith("_") and k not in ("cases", "traces")}


def search_pipeline_histories(impl, rng, count, stats, gen_grid):
    """Real observers (SightLine -> 0D, MeshCamera -> 1D, PinholeCamera -> 2D) observe a ray-transfer object several times with
    the SAME pipeline objects while the scene and the observer change between the calls (sight line moved, mask / voxel map /
    step changed, pixel_samples, sensitivity and kind changed).  Every observation is compared with (a) a fresh pipeline
    object that sees the same rays in the same observe() call (must be identical), (b) for the sight line: the spectrum of
    the single ray it fires (times the sensitivity for 'power') and the exact chord in the active cells."""
    from raysect.core import SerialEngine
    from raysect.optical import World, Ray, Point3D, Vector3D, translate, rotate_basis
    from raysect.optical.observer import SightLine, MeshCamera, PinholeCamera
    from raysect.primitive.mesh import Mesh
    from cherab.tools.raytransfer import (RayTransferBox, RayTransferCylinder, RayTransferPipeline0D, RayTransferPipeline1D,
                                          RayTransferPipeline2D)
    fails = []
    for hi in range(count):
        kind = "cart" if hi % 2 == 0 else "cyl"
        g = gen_grid(rng, kind, True, False)
        world = World()
        if kind == "cart":
            size = max(g["ext"])
            obj = RayTransferBox(g["ext"][0], g["ext"][1], g["ext"][2], g["shape"][0], g["shape"][1], g["shape"][2], parent=world)
            centre = [e / 2 for e in g["ext"]]
        else:
            size = 2 * g["rmax"] + g["zmax"]
            obj = RayTransferCylinder(g["rmax"], g["zmax"], g["shape"][0], g["shape"][2], radius_inner=g["rmin"],
                                      n_polar=g["nphi"], period=float(g["period"]), parent=world)
            centre = [0.0, 0.0, g["zmax"] / 2]
        cellmin = min(g["steps"]) if kind == "cart" else min(g["dr"], g["dz"])
        obj.step = max(0.15 * cellmin, size / 150.0)
        ncells = g["shape"][0] * g["shape"][1] * g["shape"][2]
        reused = {0: RayTransferPipeline0D(kind="radiance"), 1: RayTransferPipeline1D(kind="radiance"),
                  2: RayTransferPipeline2D(kind="radiance")}
        fresh_cls = {0: RayTransferPipeline0D, 1: RayTransferPipeline1D, 2: RayTransferPipeline2D}
        # observers: a sight line, a two-triangle mesh camera and a 3x2 pinhole camera, all outside the object
        off = size * 1.5
        v = [[centre[0] - off, centre[1] - 0.2 * size, centre[2] - 0.2 * size], [centre[0] - off, centre[1] + 0.2 * size, centre[2] - 0.2 * size],
             [centre[0] - off, centre[1], centre[2] + 0.2 * size], [centre[0] - off, centre[1] + 0.3 * size, centre[2] + 0.25 * size]]
        mesh = Mesh(vertices=v, triangles=[[0, 1, 2], [1, 3, 2]], smoothing=False)
        state = {"pixel_samples": 1, "sens": 1.0, "kind": "radiance"}
        log = []
        org = Point3D(centre[0] - off, centre[1] + 0.1 * size, centre[2] + 0.05 * size)
        tgt = Point3D(*centre)
        for oi in range(rng.randint(3, 4)):
            # ---- change something between the observations ----
            if oi > 0:
                for what in rng.sample(["move", "mask", "voxel_map", "step", "pixel_samples", "kind", "sensitivity"], rng.randint(1, 3)):
                    if what == "move":
                        d = [rng.gauss(0, 1) for _ in range(3)]
                        nd = math.sqrt(sum(x * x for x in d))
                        org = Point3D(*[centre[i] + d[i] / nd * off for i in range(3)])
                        tgt = Point3D(*[centre[i] + rng.uniform(-0.2, 0.2) * size * 0.5 for i in range(3)])
                    elif what == "mask":
                        m = [rng.random() < 0.7 for _ in range(ncells)]
                        m[rng.randrange(ncells)] = True
                        obj.mask = np.array(m, dtype=bool).reshape(g["shape"])
                    elif what == "voxel_map":
                        B = rng.randint(1, max(1, ncells // 2))
                        vm = [rng.randint(-1, B - 1) for _ in range(ncells)]
                        vm[rng.randrange(ncells)] = B - 1
                        obj.voxel_map = np.array(vm, dtype=np.int32).reshape(g["shape"])
                    elif what == "step":
                        obj.step = max(rng.uniform(0.1, 0.5) * cellmin, size / 150.0)
                    elif what == "pixel_samples":
                        state["pixel_samples"] = rng.choice([1, 2, 3, 5])
                    elif what == "kind":
                        state["kind"] = rng.choice(PIPE_KINDS)
                    else:
                        state["sens"] = rng.choice([1.0, 0.5, 2.5])
                    log.append((oi, what))
            direction = org.vector_to(tgt).normalise()
            gnow = _grid_of(obj, kind, g)
            for dim in (0, 1, 2):
                reused[dim].kind = state["kind"]
                fresh = fresh_cls[dim](kind=state["kind"])
                if dim == 0:
                    ob = SightLine(pipelines=[reused[dim], fresh], parent=world,
                                   transform=translate(org.x, org.y, org.z) * rotate_basis(direction, direction.orthogonal()))
                    ob.sensitivity = state["sens"]
                elif dim == 1:
                    ob = MeshCamera(mesh, surface_offset=1e-6, pipelines=[reused[dim], fresh], parent=world)
                else:
                    ob = PinholeCamera((3, 2), pipelines=[reused[dim], fresh], parent=world,
                                       transform=translate(org.x, org.y, org.z) * rotate_basis(direction, direction.orthogonal()))
                    ob.fov = 30
                ob.min_wavelength, ob.max_wavelength, ob.spectral_bins = 500., 501., obj.bins
                ob.pixel_samples = state["pixel_samples"]
                ob.quiet = True
                ob.render_engine = SerialEngine()
                ob.observe()
                ob.parent = None
                stats["pipeline_observations"] = stats.get("pipeline_observations", 0) + 1
                a, b = np.array(reused[dim].matrix, dtype=float), np.array(fresh.matrix, dtype=float)
                info = {"grid": gnow, "observer": ["SightLine", "MeshCamera", "PinholeCamera"][dim], "observation_index": oi,
                        "changes_before": [w for k, w in log if k == oi], "all_changes": log, "state": dict(state),
                        "origin": [org.x, org.y, org.z], "target": [tgt.x, tgt.y, tgt.z], "step": obj.step}
                if a.shape != b.shape or not np.array_equal(a, b):
                    fails.append(dict(info, claim="RayTransferPipeline%dD: a pipeline object that was used for earlier observations gives the same "
                                                  "matrix as a fresh pipeline object watching the same rays" % dim,
                                      reused_matrix_sum=float(a.sum()), fresh_matrix_sum=float(b.sum()),
                                      reused_matrix=a.tolist() if a.size <= 64 else None, fresh_matrix=b.tolist() if b.size <= 64 else None))
                    continue
                if dim == 0:
                    ray = Ray(origin=org, direction=direction, min_wavelength=500., max_wavelength=501., bins=obj.bins)
                    single = np.array(ray.trace(world).samples)
                    ref = single * (state["sens"] if state["kind"] == "power" else 1.0)
                    if np.abs(a - ref).max() > 1e-9 * max(1.0, np.abs(ref).max()):
                        fails.append(dict(info, claim="RayTransferPipeline0D on a sight line: the matrix is the spectrum of the ray it fires "
                                                      "(mean over identical samples, times the sensitivity for kind='power')",
                                          matrix=a.tolist(), single_ray=ref.tolist()))
                        continue
                    # the entries against the exact chord in the active cells (geometry only)
                    w = state["sens"] if state["kind"] == "power" else 1.0
                    tr = {"origin_local": [org.x, org.y, org.z], "dir_local": [direction.x, direction.y, direction.z],
                          "result": [float(x) / w for x in a], "last_out": [float(x) / w for x in a], "step": obj.step}
                    gchk = dict(gnow, traces=[tr])
                    if kind == "cart":
                        gchk["ext"] = g["ext"]
                    for f in search_traced(impl, gchk, stats):
                        fails.append(dict(info, claim="pipeline matrix of a sight line: " + f["claim"], detail={k: v for k, v in f.items() if k in ("sum", "chord_in_active_cells", "tolerance")}))
            if len(fails) > 3:
                return fails
    return fails


# ---------------------------------------------------------------------------------------------
# entry points of the anchored files that the main path does not reach
# ---------------------------------------------------------------------------------------------
def search_second_order(impl, rng, count, stats, gen_grid):
    """invert_voxel_map, the mask getter, default integrators / steps (argument omitted vs given explicitly), the wrapper
    properties of RayTransferObject, the pipelines' kind setter, and the emitters' emission_function driven by raysect's
    own NumericalIntegrator (entries = chord in the active cells, to the accuracy of that integrator)."""
    from raysect.optical import World, Ray, Point3D, Vector3D, translate
    from raysect.optical.material import NumericalIntegrator
    from cherab.tools.raytransfer import (RayTransferBox, RayTransferCylinder, RayTransferPipeline0D, RayTransferPipeline1D,
                                          RayTransferPipeline2D, CartesianRayTransferEmitter, CylindricalRayTransferEmitter)
    from cherab.tools.raytransfer.emitters import CartesianRayTransferIntegrator, CylindricalRayTransferIntegrator
    fails = []

    def bad(claim, **kw):
        fails.append(dict(kw, claim=claim))
    for i in range(count):
        kind = "cart" if i % 2 == 0 else "cyl"
        g = gen_grid(rng, kind, True, False)
        shape = tuple(g["shape"])
        ncells = shape[0] * shape[1] * shape[2]
        B = rng.randint(1, max(1, ncells // 2))
        vm = np.array([rng.randint(-1, B - 1) for _ in range(ncells)], dtype=np.int32).reshape(shape)
        vm.flat[rng.randrange(ncells)] = B - 1
        world = World()
        explicit = rng.random() < 0.5
        if kind == "cart":
            dmin = min(g["steps"])
            kw = dict(step=0.1 * dmin) if explicit else {}
            obj = RayTransferBox(g["ext"][0], g["ext"][1], g["ext"][2], shape[0], shape[1], shape[2], voxel_map=vm, parent=world, **kw)
            cell = (obj.material.dx, obj.material.dy, obj.material.dz)
            emitter = CartesianRayTransferEmitter(shape, tuple(g["steps"]))
            want_cls, want_step = CartesianRayTransferIntegrator, 0.1 * min(g["steps"])
            size, centre = max(g["ext"]), [e / 2 for e in g["ext"]]
        else:
            dmin = min((g["rmax"] - g["rmin"]) / shape[0], g["zmax"] / shape[2])
            kw = dict(step=0.1 * dmin) if explicit else {}
            obj = RayTransferCylinder(g["rmax"], g["zmax"], shape[0], shape[2], radius_inner=g["rmin"], n_polar=g["nphi"],
                                      period=float(g["period"]), voxel_map=vm, parent=world, **kw)
            cell = (obj.material.dr, obj.material.dz)
            emitter = CylindricalRayTransferEmitter(shape, (g["dr"], float(g["dphi"]), g["dz"]), rmin=g["rmin"])
            want_cls, want_step = CylindricalRayTransferIntegrator, 0.1 * min(g["dr"], g["dz"])
            size, centre = 2 * g["rmax"] + g["zmax"], [0.0, 0.0, g["zmax"] / 2]
        stats["second_order"] = stats.get("second_order", 0) + 1
        info = {"grid": {k: v for k, v in g.items() if not k.startswith("_")}, "voxel_map": vm.ravel().tolist(), "explicit_step": explicit}
        # defaults
        if obj.step != 0.1 * min(cell):
            bad("default integration step of a ray-transfer object is 0.1 * (smallest cell size), given or omitted", step=obj.step,
                expected=0.1 * min(cell), **info)
        if type(emitter.integrator) is not want_cls or emitter.integrator.step != want_step or emitter.integrator.min_samples != 2:
            bad("an emitter built without an integrator gets its own ray-transfer integrator with step 0.1 * (smallest cell size)",
                got=[type(emitter.integrator).__name__, emitter.integrator.step, emitter.integrator.min_samples], **info)
        # wrapper properties
        if obj.bins != int(vm.max()) + 1 or obj.bins != obj.material.bins or not np.array_equal(obj.voxel_map, vm) \
                or not np.array_equal(obj.mask, vm > -1) or obj.parent is not world:
            bad("RayTransferObject.bins / voxel_map / mask / parent reflect the material", bins=obj.bins, **info)
        inv = obj.invert_voxel_map()
        ok = len(inv) == obj.bins
        for sidx in range(obj.bins if ok else 0):
            got = sorted(zip(*[a.tolist() for a in inv[sidx]]))
            want = sorted(c for c in np.ndindex(*shape) if vm[c] == sidx)
            ok = ok and got == want
        if not ok:
            bad("invert_voxel_map lists, for every source, exactly the cells mapped to it", **info)
        obj.step = 2 * obj.step
        if obj.material.integrator.step != obj.step:
            bad("RayTransferObject.step sets the step of the integrator", **info)
        # emission_function through raysect's NumericalIntegrator
        nstep = 0.02 * dmin
        obj.material.integrator = NumericalIntegrator(step=nstep)
        gchk = dict(g, vm=[int(v) for v in vm.ravel()], traces=[])
        if kind == "cyl":
            gchk["dr"], gchk["dz"] = obj.material.dr, obj.material.dz
        for _ in range(2):
            d = [rng.gauss(0, 1) for _ in range(3)]
            nd = math.sqrt(sum(x * x for x in d))
            d = [x / nd for x in d]
            tgt = [centre[k] + rng.uniform(-0.2, 0.2) * size for k in range(3)]
            org = [tgt[k] - d[k] * 2 * size for k in range(3)]
            sp = Ray(origin=Point3D(*org), direction=Vector3D(*d), min_wavelength=500., max_wavelength=501., bins=obj.bins).trace(world)
            res = [float(x) for x in sp.samples]
            gchk["traces"].append({"origin_local": org, "dir_local": d, "result": res, "last_out": res, "step": nstep})
        for f in search_traced(impl, gchk, stats):
            bad("emission_function integrated by raysect's NumericalIntegrator: " + f["claim"],
                detail={k: v for k, v in f.items() if k in ("sum", "chord_in_active_cells", "tolerance", "trace")}, **info)
    # the kind setter of the pipelines
    for cls in (RayTransferPipeline0D, RayTransferPipeline1D, RayTransferPipeline2D):
        p = cls()
        ok = p.kind == "power"
        p.kind = "RADIANCE"
        ok = ok and p.kind == "radiance"
        try:
            p.kind = "total"
            ok = False
        except ValueError:
            ok = ok and p.kind == "radiance"
        if not ok:
            bad("pipeline kind: default 'power', case-insensitive, anything else rejected and the kind kept", pipeline=cls.__name__)
    return fails
