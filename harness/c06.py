"""C06 -- Rate repository: last write wins per key, other keys untouched, no stray files
(cherab/openadas/repository/*.py, cherab/openadas/install.py).

Theorems: coq/Properties/C06.v (every history of calls, every key universe).
Tie: correspondence -- random histories over the 13 add_*/update_* families and the install_* front
ends are executed on the real functions in a fresh repository; after every call every key of the
history's universe is read back; values are identified bit for bit (array.tobytes()) in Python, and
the id-level result (which value or RuntimeError under each key, the outcome of each call, the set of
files on disk) is compared inside Coq (vm_compute) with the model run on the same history.
Search: the executable statement of the property (a Python dict as the abstract map) on the same
histories, on the real implementation.
"""
import copy
import glob
import json
import os
import random
import shutil

import numpy as np

from common import coqc, coqc_many, parse_evals, parse_zlist, coq_string, VERIF
import c06_translate

THEOREMS = ["C06_key_encoding_injective", "C06_refines", "C06_last_write_wins", "C06_other_keys_untouched",
            "C06_never_written_raises", "C06_rejected_update_keeps_old", "C06_writes_under_root",
            "C06_flatten_injective", "C06_add_routes_to_own_family", "C06_refuted_unfixed",
            "C06_valid_calls_return", "C06_check_seq_sound", "C06_arrow_alias_witness", "C06_file_names_injective",
            "C06_outcome_independent_of_store", "C06_json_roundtrip", "C06_json_print_injective", "C06_check_file_sound"]

# ---------------------------------------------------------------------------------------------
# families: the kinds of the dictionary levels, the Coq constructors, the functions
# ---------------------------------------------------------------------------------------------
ADF11 = {"ion": "FIon", "rec": "FRec", "line": "FLine", "cont": "FCont", "cxp": "FCxp"}
LEVELS = {
    "ion": ["sp", "q"], "rec": ["sp", "q"], "line": ["sp", "q"], "cont": ["sp", "q"], "cxp": ["sp", "q"],
    "tcx": ["sp", "q", "sp", "q"],
    "pec": ["cls", "sp", "q", "tr"],
    "pectcx": ["sp", "q", "sp", "q", "tr"],
    "wvl": ["sp", "q", "tr"],
    "bcx": ["sp", "sp", "q", "tr", "m"],
    "bstop": ["sp", "sp", "q"],
    "bpop": ["sp", "m", "sp", "q"],
    "bem": ["sp", "sp", "q", "tr"],
}
DATAKIND = {"ion": "adf11", "rec": "adf11", "line": "adf11", "cont": "adf11", "cxp": "adf11", "tcx": "adf11",
            "pec": "pec", "pectcx": "pectcx", "wvl": "wvl", "bcx": "bcx", "bstop": "beam", "bpop": "beam", "bem": "beam"}
UPDATE_FN = {"ion": "update_ionisation_rates", "rec": "update_recombination_rates", "line": "update_line_power_rates",
             "cont": "update_continuum_power_rates", "cxp": "update_cx_power_rates", "tcx": "update_thermal_cx_rates",
             "pec": "update_pec_rates", "pectcx": "update_pec_thermal_cx_rates", "wvl": "update_wavelengths",
             "bcx": "update_beam_cx_rates", "bstop": "update_beam_stopping_rates",
             "bpop": "update_beam_population_rates", "bem": "update_beam_emission_rates"}
ADD_FN = {"ion": "add_ionisation_rate", "rec": "add_recombination_rate", "line": "add_line_power_rate",
          "cont": "add_continuum_power_rate", "cxp": "add_cx_power_rate", "tcx": "add_thermal_cx_rate",
          "pec:excitation": "add_pec_excitation_rate", "pec:recombination": "add_pec_recombination_rate",
          "pectcx": "add_pec_thermal_cx_rate", "wvl": "add_wavelength", "bcx": "add_beam_cx_rate",
          "bstop": "add_beam_stopping_rate", "bpop": "add_beam_population_rate", "bem": "add_beam_emission_rate"}
GET_FN = {"ion": "get_ionisation_rate", "rec": "get_recombination_rate", "line": "get_line_radiated_power_rate",
          "cont": "get_continuum_radiated_power_rate", "cxp": "get_cx_radiated_power_rate", "tcx": "get_thermal_cx_rate",
          "pec:excitation": "get_pec_excitation_rate", "pec:recombination": "get_pec_recombination_rate",
          "pectcx": "get_pec_thermal_cx_rate", "wvl": "get_wavelength", "bcx": "get_beam_cx_rates",
          "bstop": "get_beam_stopping_rate", "bpop": "get_beam_population_rate", "bem": "get_beam_emission_rate"}
# install front ends: (function, family the data ends up in, name in install_files configuration)
INSTALL = {"adf11scd": "ion", "adf11acd": "rec", "adf11plt": "line", "adf11prb": "cont", "adf11prc": "cxp",
           "adf11ccd": "tcx", "adf12": "bcx", "adf15": None, "adf21": "bstop", "adf22bmp": "bpop", "adf22bme": "bem"}
ADF11_SHIFT = {"adf11scd": -1, "adf11plt": -1, "adf11acd": 0, "adf11prb": 0, "adf11prc": 0, "adf11ccd": 0}

SPECIES_NAMES = ["hydrogen", "deuterium", "tritium", "helium", "helium3", "carbon", "neon"]
TRANSITIONS = [(3, 2), ("3", "2"), (4, 2), ("2P", "1s"), ("2p", "1S"), ("2s1 2p1 3P4.0", "2s2 1S0.0"),
               ("2S1 2P1 3p4.0", "2s2 1s0.0"), (2, 3), ("4", 2),
               # two- and three-digit levels (text fields: 9/10/11, 99/100/101)
               (10, 9), ("10", "9"), (11, 10), (9, 8), (100, 99), (101, 100)]
_ULP = [np.nextafter(1.0, 2.0), np.nextafter(1.0, 0.0), np.nextafter(0.0, 1.0), 2.2250738585072014e-308,
        np.nextafter(2.2250738585072014e-308, 0.0), 2.0 ** 53, 2.0 ** 53 + 2.0, 1e22, 1e23, 0.1 + 0.2,
        np.nextafter(1.7976931348623157e308, 0.0), -np.nextafter(0.0, 1.0)]
SPECIAL = [0.0, -0.0, 5e-324, 1.7976931348623157e308, -1.7976931348623157e308, float("inf"), float("-inf"), float("nan"),
           1e-300, 1e300, 0.1, 1 / 3] + [float(x) for x in _ULP]
BAD_KINDS = ["shape", "ndim", "colvec", "scalar", "transposed", "emptylist"]


def is_given(repo):
    """does this way of passing repository_path designate the harness's repository (else: the default one)"""
    return repo is True or repo == "kw"


def lower_tr(tr):
    return (str(tr[0]).lower(), str(tr[1]).lower())


# ---------------------------------------------------------------------------------------------
# data of one leaf, regenerated from its seed (the implementation mutates what it is given)
# ---------------------------------------------------------------------------------------------
def _num(rng):
    r = rng.random()
    if r < 0.08:
        return rng.choice(SPECIAL)
    if r < 0.16:
        return float(rng.randint(-5, 50))
    if r < 0.26:
        # a power of two times a short mantissa, over the whole exponent range (scale classes)
        return rng.choice([1.0, 1.5, -1.25, 3.0]) * 2.0 ** rng.randint(-1060, 1020)
    return rng.uniform(0.1, 10.0) * 10.0 ** rng.randint(-300, 300 if r < 0.4 else 25)


def _size(rng, hi=4):
    r = rng.random()
    if r < 0.035:
        return 0
    if r < 0.25:
        return 1
    if r < 0.45:
        return 2
    if r < 0.93:
        return rng.randint(3, hi)
    return rng.randint(hi + 1, hi + 4)      # now and then a long table (re-written later by a short one)


def _arr(rng, shape):
    with np.errstate(all="ignore"):
        a = np.array([_num(rng) for _ in range(int(np.prod(shape)))], dtype=np.float64).reshape(shape)
    return a


def _form(rng, a, table_ndarray=False):
    """one of the accepted array-like forms -> (what is handed over, the float64 array it denotes)"""
    r = rng.random()
    if table_ndarray and a.size == 0 and a.ndim > 1:
        return a.copy(), a            # an empty table is only accepted as an ndarray (a nested list loses its shape)
    if r < 0.25:
        return a.tolist(), a
    if r < 0.33:
        def tup(x):
            return tuple(tup(y) for y in x) if isinstance(x, list) else x
        return tup(a.tolist()), a     # (nested) tuples
    if r < 0.40:
        b = np.repeat(a, 2, axis=0)[::2]          # non-contiguous view
        return b, a
    if r < 0.46 and a.ndim >= 2:
        return np.asfortranarray(a), a
    if r < 0.52:
        b = a.copy()
        b.flags.writeable = False
        return b, a
    if r < 0.58:
        with np.errstate(all="ignore"):
            b = a.astype(np.float32)              # float32 input: the values are its exact widenings
        return b, b.astype(np.float64)
    if r < 0.63:
        b = (np.abs(np.nan_to_num(a, nan=0.0, posinf=7.0, neginf=3.0)) % 1000).astype(rng.choice([np.int64, np.int32, np.int16, np.uint8]))
        return (b if rng.random() < 0.5 else b.tolist()), b.astype(np.float64)
    if r < 0.66:
        b = np.nan_to_num(a, nan=1.0) > 1.0       # bool arrays
        return b, b.astype(np.float64)
    return a.copy(), a


def _scalar_form(rng, v):
    r = rng.random()
    if r < 0.4:
        return float(v), np.float64(v)
    if r < 0.6:
        return np.float64(v), np.float64(v)
    if r < 0.7:
        with np.errstate(all="ignore"):
            f = np.float32(v)
        return f, np.float64(f)
    if r < 0.8:
        k = int(abs(np.nan_to_num(v, nan=0.0, posinf=7.0, neginf=3.0)) % 1000)
        return rng.choice([k, np.int64(k)]), np.float64(k)
    if r < 0.85:
        return bool(v > 1), np.float64(bool(v > 1))
    return np.array(v), np.float64(v)             # 0-d array: float() accepts it


def canon(d):
    """canonical bit-for-bit form of a rate as read back / as written (an array without elements has no shape to keep:
    JSON stores a (0, m) table as [])"""
    def one(v):
        a = np.asarray(v, np.float64)
        return ((0,) if a.size == 0 else a.shape, a.tobytes())
    if not isinstance(d, dict):
        return (("w",) + one(float(d)),)
    return tuple(sorted((k,) + one(v) for k, v in d.items()))


def _spoil(rng, bad, give, exp, vectors, table, dims):
    """make the data of a leaf invalid in the requested way (a class the function's checks must reject)"""
    vec = rng.choice(vectors)
    base = np.asarray(exp[vec], np.float64)
    if bad == "ndim":
        give[vec] = [base.tolist()]                         # shape (1, n)
    elif bad == "colvec":
        give[vec] = base.reshape(-1, 1) if base.size else np.zeros((0, 1))   # shape (n, 1)
    elif bad == "scalar":
        give[vec] = rng.choice([5.0, np.float64(2.5), np.array(3.0)])        # 0-d
    elif bad == "transposed" and table is not None and len(set(dims)) > 1 and 0 not in dims:
        t = np.asarray(exp[table], np.float64)
        perm = list(range(t.ndim))
        while tuple(np.transpose(t, perm).shape) == t.shape:
            rng.shuffle(perm)
        give[table] = np.transpose(t, perm).copy()          # right number of entries, axes in another order
    elif bad == "emptylist" and table is not None:
        give[vectors[0]] = []
        give[table] = []                                    # nested list form of an empty table: shape (0,)
    else:   # "shape"
        if table is not None and rng.random() < 0.6:
            give[table] = np.zeros(tuple(x + 1 for x in dims)).tolist()
        else:
            give[vec] = base.tolist() + [1.0]
            if table is None or len(dims) == 0:
                pass


def gen_leaf(kind, leaf, install=None):
    """-> (data handed to the implementation, canonical expected read or None when the leaf is invalid)"""
    seed, bad = leaf["seed"], leaf.get("bad")
    if "value" in leaf:
        return leaf["value"], canon(float(leaf["value"])), float(leaf["value"])
    rng = random.Random(seed)
    n, m, k = _size(rng), _size(rng), _size(rng, 3)
    if kind == "wvl":
        w0 = rng.choice([rng.uniform(1, 2000), float(rng.randint(1, 2000)), rng.uniform(1e-3, 1e5), np.nextafter(656.279, 1000.0)])
        w, wexp = _scalar_form(rng, w0)
        if rng.random() < 0.1:
            w, wexp = repr(float(w0)), np.float64(w0)        # float() also accepts the text of a number
        return w, canon(float(wexp)), float(wexp)
    if kind in ("adf11", "pec", "pectcx"):
        ne, te = _arr(rng, (n,)), _arr(rng, (m,))
        td = _arr(rng, (k,))
        shape = (n, m, k) if kind == "pectcx" else (n, m)
        if install == "adf15tcx":
            # parsed ADF15 CHEXC block: 2-D; install.py makes it 3-D over td = [0.01, 10000]
            n, m = max(n, 1), max(m, 1)
            ne, te = _arr(rng, (n,)), _arr(rng, (m,))
            rate2 = _arr(rng, (n, m))
            data3 = np.empty((n, m, 2))
            data3[:, :, :] = rate2[:, :, None]
            exp = {"ne": ne, "te": te, "td": np.array([0.01, 10000]), "rate": data3}
            return {"ne": ne.copy(), "te": te.copy(), "rate": rate2}, canon(exp), exp
        rate = _arr(rng, shape)
        if install in ("adf11",):
            # parsed ADF11: log10 values in ADAS units; install.py converts them
            from cherab.core.utility import PerCm3ToPerM3, Cm3ToM3
            n, m = max(n, 1), max(m, 1)
            ne, te, rate = (np.array([rng.uniform(-3, 3) for _ in range(n)]), np.array([rng.uniform(-3, 3) for _ in range(m)]),
                            np.array([rng.uniform(-3, 3) for _ in range(n * m)]).reshape(n, m))
            exp = {"ne": PerCm3ToPerM3.to(10 ** ne), "te": 10 ** te, "rate": Cm3ToM3.to(10 ** rate)}
            if bad == "ndim":
                ne = ne.reshape(1, n)
            elif bad:
                rate = rate[:, :-1] if m > 1 else np.concatenate([rate, rate], axis=1)
            return {"ne": ne, "te": te, "rates": rate}, (None if bad else canon(exp)), exp
        base = {"ne": ne, "te": te, "rate": rate}
        if kind == "pectcx":
            base["td"] = td
        give, exp = {}, {}
        for key, v in base.items():
            if install == "adf15":
                give[key], exp[key] = v.copy(), v            # the parser returns ndarrays
            else:
                give[key], exp[key] = _form(rng, v, table_ndarray=(key == "rate"))
        if bad:
            _spoil(rng, bad, give, exp, ["ne", "te"] + (["td"] if kind == "pectcx" else []), "rate", shape)
        if kind == "adf11":
            give["rates"] = give.pop("rate")
        return give, (None if bad else canon(exp)), exp
    if kind == "bcx":
        give, exp = {}, {}
        for x, y in (("eb", "qeb"), ("ti", "qti"), ("ni", "qni"), ("z", "qz"), ("b", "qb")):
            ln = _size(rng)
            for key in (x, y):
                give[key], exp[key] = _form(rng, _arr(rng, (ln,)))
        give["qref"], exp["qref"] = _scalar_form(rng, _num(rng))
        if install == "adf12":
            give.update({"ebref": 1.0, "tiref": 2.0, "niref": 3.0, "zref": 4.0, "bref": 5.0})   # ignored by the repository
        if bad:
            _spoil(rng, bad if bad in ("ndim", "colvec", "scalar") else "shape", give, exp,
                   [rng.choice(["eb", "ti", "ni", "z", "b", "qeb", "qti", "qni", "qz", "qb"])], None, ())
        return give, (None if bad else canon(exp)), exp
    if kind == "beam":
        base = {"e": _arr(rng, (n,)), "n": _arr(rng, (m,)), "t": _arr(rng, (k,)), "sen": _arr(rng, (n, m)), "st": _arr(rng, (k,))}
        give, exp = {}, {}
        for key, v in base.items():
            give[key], exp[key] = _form(rng, v, table_ndarray=(key == "sen"))
        for r in ("eref", "nref", "tref", "sref"):
            give[r], exp[r] = _scalar_form(rng, _num(rng))
        if leaf.get("extra"):
            give["comment"] = np.array([1.0])            # an entry json.dumps cannot serialise (the whole dictionary is dumped)
        if bad:
            if bad in ("shape", "transposed", "emptylist") and rng.random() < 0.35:
                give["st"] = np.asarray(exp["st"]).tolist() + [2.0]       # t.shape != st.shape
            else:
                _spoil(rng, bad, give, exp, ["e", "n"] if bad in ("shape", "emptylist") else ["e", "n", "t"], "sen", (n, m))
        return give, (None if bad else canon(exp)), exp
    raise ValueError(kind)


# ---------------------------------------------------------------------------------------------
# trees: nested lists [[key, subtree], ...] down to a leaf {"seed":, "bad":}
# ---------------------------------------------------------------------------------------------
def walk(tree, depth, prefix=()):
    """leaves in dictionary iteration order: [(keys, leaf)]"""
    if depth == 0:
        return [(prefix, tree)]
    out = []
    for key, sub in tree:
        out += walk(sub, depth - 1, prefix + (tuple(key) if isinstance(key, list) else key,))
    return out


class World:
    def __init__(self, scratch):
        import cherab.openadas.repository as repository
        import cherab.openadas.install as install
        from cherab.core.atomic import elements
        from cherab.core.utility import RecursiveDict
        self.repository, self.install, self.RecursiveDict = repository, install, RecursiveDict
        from cherab.core.atomic import Element
        self.sp = {}
        for n in dir(elements):
            o = getattr(elements, n)
            if isinstance(o, Element):
                self.sp[n] = o
                ZNUM.setdefault(n, int(o.atomic_number))
                SYM.setdefault(n, o.symbol)
        self.sp[NOEL] = "C"
        self.name_of = {}
        for n, o in self.sp.items():
            self.name_of.setdefault(id(o), n)
        self.npkeys = False
        self.scratch = scratch
        self.repo = os.path.join(scratch, "c06", "repo")
        self.adas = os.path.join(scratch, "c06", "adas")
        self.home = os.environ["HOME"]
        assert repository.DEFAULT_REPOSITORY_PATH == os.path.join(self.home, ".cherab/openadas/repository"), \
            (repository.DEFAULT_REPOSITORY_PATH, self.home)
        assert os.path.realpath(self.home).startswith(os.path.realpath(scratch))
        os.makedirs(self.adas, exist_ok=True)
        # whatever imports left in HOME before the first call (e.g. a matplotlib cache) is not the repository's doing
        self.home_baseline = set(os.listdir(self.home)) - {".cherab"}
        open(os.path.join(self.adas, "f.dat"), "w").write("stub: the parsers are replaced, see harness/c06.py\n")
        self.parsed = None
        # the ADF parsers are property C08's subject: the front ends are fed through stubs
        for name in ("parse_adf11", "parse_adf12", "parse_adf21", "parse_adf22bmp", "parse_adf22bme", "parse_adf15"):
            assert hasattr(install, name), name
            setattr(install, name, (lambda nm: (lambda *a, **k: self._stub(nm, *a, **k)))(name))
        self.auto = False

    def _stub(self, parser, *args, **kw):
        if self.auto:
            # populate(): the data of a file is a function of the parser's arguments (see auto_call)
            return self.auto_parsed(parser, args)
        p, self.parsed = self.parsed, None
        assert p is not None
        return p

    def auto_parsed(self, parser, args):
        nm = lambda o: self.name_of[id(o)]       # noqa: E731
        path = os.path.relpath(args[-1], self.adas)
        if parser == "parse_adf11":
            return self.to_dict(auto_tree("adf11", (nm(args[0]),), path), ["sp", "q"], "adf11", install="adf11", recursive=True)
        if parser == "parse_adf12":
            t = auto_tree("adf12", (nm(args[0]), args[1], nm(args[2]), args[3]), path)
            return self.to_dict(t, LEVELS["bcx"], "bcx", install="adf12", recursive=True)
        if parser == "parse_adf15":
            t = auto_tree("adf15", (nm(args[0]), int(args[1])), path)
            rates = self.RecursiveDict()
            for cls, key, ik in (("excitation", "exc", "adf15"), ("recombination", "rec", "adf15"), ("thermalcx", "tcx", "adf15tcx")):
                if t[key]:
                    rates[cls] = self.to_dict(t[key], ["sp", "q", "tr"], "pec", install=ik, recursive=True)
            return rates, self.to_dict(t["wvl"], ["sp", "q", "tr"], "wvl", recursive=True)
        if parser == "parse_adf21":
            return self.to_dict(auto_tree("adf21", (nm(args[0]), nm(args[1]), args[2]), path), LEVELS["bstop"], "beam", recursive=True)
        if parser == "parse_adf22bmp":
            return self.to_dict(auto_tree("adf22bmp", (nm(args[0]), args[1], nm(args[2]), args[3]), path), LEVELS["bpop"], "beam", recursive=True)
        if parser == "parse_adf22bme":
            return self.to_dict(auto_tree("adf22bme", (nm(args[0]), nm(args[1]), args[2], tuple(args[3])), path), LEVELS["bem"], "beam", recursive=True)
        raise AssertionError(parser)

    def reset(self):
        shutil.rmtree(os.path.join(self.scratch, "c06", "repo"), ignore_errors=True)
        shutil.rmtree(os.path.join(self.home, ".cherab"), ignore_errors=True)

    def root(self, given):
        return self.repo if given else None

    def path_args(self, repo):
        """the ways of passing repository_path: positional, keyword, omitted, explicit None, the default path spelled out"""
        if repo is True:
            return (self.repo,), {}
        if repo == "kw":
            return (), {"repository_path": self.repo}
        if repo == "none_kw":
            return (), {"repository_path": None}
        if repo == "default_explicit":
            return (self.repository.DEFAULT_REPOSITORY_PATH,), {}
        assert repo is False, repo
        return (), {}

    # ---- keys --------------------------------------------------------------------------------
    def real_key(self, kind, key):
        if kind == "sp":
            return self.sp[key]
        if kind == "tr":
            if self.npkeys:
                return tuple((np.int64(x) if i == 0 else np.int32(x)) if isinstance(x, int) else x for i, x in enumerate(key))
            return tuple(key)
        if self.npkeys and isinstance(key, int) and (kind == "q" or (kind == "m" and self.npfam == "bpop")):
            # numpy integers as charges (and as the metastable that only goes into a file name); a numpy-integer
            # metastable of beam CX is the subject of the known-finding probe, not of the histories
            return np.int64(key) if key % 2 == 0 else np.int32(key)
        return key

    def to_dict(self, tree, levels, kind, install=None, recursive=False):
        if not levels:
            return gen_leaf(kind, tree, install)[0]
        d = self.RecursiveDict() if recursive else {}
        for key, sub in tree:
            d[self.real_key(levels[0], key)] = self.to_dict(sub, levels[1:], kind, install, recursive)
        return d

    # ---- one call ----------------------------------------------------------------------------
    def run_call(self, c):
        """-> outcome code: 0 returned, 1 ValueError, 2 anything else (text in self.last_exc)"""
        rep, fam, style = self.repository, c["fam"], c["style"]
        pos, kw = self.path_args(c["repo"])
        self.last_exc = None
        self.npkeys, self.npfam = bool(c.get("npkeys")), fam
        try:
            if style == "update":
                d = self.to_dict(c["tree"], LEVELS[fam], DATAKIND[fam], recursive=c.get("recursive", False))
                getattr(rep, UPDATE_FN[fam])(d, *pos, **kw)
            elif style == "add":
                (keys, leaf), = walk(c["tree"], len(LEVELS[fam]) - (1 if fam == "tcx" else 0))
                args = [self.real_key(k, v) for k, v in zip(LEVELS[fam], keys)]
                if fam == "tcx":
                    # add_thermal_cx_rate(donor, donor_charge, receiver, {receiver_charge: rate})
                    data = self.to_dict(leaf, ["q"], "adf11")
                    fn = ADD_FN[fam]
                else:
                    data = gen_leaf(DATAKIND[fam], leaf)[0]
                    fn = ADD_FN.get(fam)
                if fam == "pec":
                    fn = ADD_FN["pec:" + args[0]]
                    args = args[1:]
                if fam == "bcx":     # (donor, donor_metastable, receiver, receiver_charge, transition, rate)
                    d, r, q, tr, m = args
                    args = [d, m, r, q, tr]
                getattr(rep, fn)(*args, data, *pos, **kw)
            elif style == "install":
                ikw = dict(kw)
                if pos:
                    ikw["repository_path"] = pos[0]
                self._install(c, ikw)
            else:
                raise AssertionError(style)
        except ValueError as e:
            self.last_exc = repr(e)
            return 1
        except TypeError as e:
            self.last_exc = repr(e)
            return 3
        except Exception as e:      # noqa: BLE001 - reported, never swallowed: code 2 is a disagreement
            self.last_exc = repr(e)
            return 2
        finally:
            self.npkeys = False
        return 0

    def _install(self, c, path_kw):
        inst, kind = self.install, c["install"]
        kw = dict(download=False, adas_path=self.adas, **path_kw)
        K = lambda x: self.real_key("q", x)       # noqa: E731
        if kind in ADF11_SHIFT:
            fam = INSTALL[kind]
            if kind == "adf11ccd":
                ((d, dq, r), _), = walk(c["tree"], 3)
                parsed = self.to_dict(c["tree"][0][1][0][1], ["sp", "q"], "adf11", install="adf11", recursive=True)
                args = (self.sp[d], K(dq), self.sp[r], c.get("file", "f.dat"))
            else:
                parsed = self.to_dict(c["parsed"], ["sp", "q"], "adf11", install="adf11", recursive=True)
                args = (self.sp[c["parsed"][0][0]], c.get("file", "f.dat"))
        elif kind == "adf12":
            parsed = self.to_dict(c["tree"], LEVELS["bcx"], "bcx", install="adf12", recursive=True)
            ((d, r, q, tr, m), _) = walk(c["tree"], 5)[0]
            args = (self.sp[d], m, self.sp[r], K(q), c.get("file", "f.dat"))
        elif kind == "adf15":
            rates = self.RecursiveDict()
            for cls, key, inst_kind in (("excitation", "exc", "adf15"), ("recombination", "rec", "adf15"), ("thermalcx", "tcx", "adf15tcx")):
                if c[key]:
                    rates[cls] = self.to_dict(c[key], ["sp", "q", "tr"], "pec", install=inst_kind, recursive=True)
            wl = self.to_dict(c["wvl"], ["sp", "q", "tr"], "wvl", recursive=True)
            parsed = (rates, wl)
            args = (self.sp[c["element"]], K(c["charge"]), c.get("file", "f.dat"))
        elif kind == "adf21":
            parsed = self.to_dict(c["tree"], LEVELS["bstop"], "beam", recursive=True)
            ((b, t, q), _) = walk(c["tree"], 3)[0]
            args = (self.sp[b], self.sp[t], K(q), c.get("file", "f.dat"))
        elif kind == "adf22bmp":
            parsed = self.to_dict(c["tree"], LEVELS["bpop"], "beam", recursive=True)
            ((b, m, t, q), _) = walk(c["tree"], 4)[0]
            args = (self.sp[b], m, self.sp[t], K(q), c.get("file", "f.dat"))
        elif kind == "adf22bme":
            parsed = self.to_dict(c["tree"], LEVELS["bem"], "beam", recursive=True)
            ((b, t, q, tr), _) = walk(c["tree"], 4)[0]
            args = (self.sp[b], self.sp[t], K(q), self.real_key("tr", tr), c.get("file", "f.dat"))
        else:
            raise AssertionError(kind)
        self.parsed = parsed
        import contextlib
        import io
        with contextlib.redirect_stdout(io.StringIO()):
            if c.get("via_files"):
                inst.install_files({kind.upper() if c["via_files"] == "upper" else kind: (args,)}, **kw)
            else:
                getattr(inst, "install_" + kind)(*args, **kw)

    # ---- reads -------------------------------------------------------------------------------
    def read(self, q):
        """q = (given_root, fam, keys) -> canonical value, None for RuntimeError, ('EXC', text) otherwise"""
        given, fam, keys = q
        rep, path = self.repository, self.root(given)
        args = [self.real_key(k, v) for k, v in zip(LEVELS[fam], keys)]
        try:
            if fam == "pec":
                return canon(getattr(rep, GET_FN["pec:" + args[0]])(*args[1:], path))
            if fam == "bcx":
                d, r, rq, tr, m = args
                lst = rep.get_beam_cx_rates(d, r, rq, tr, path)
                hits = [rate for mm, rate in lst if mm == m]
                if len(hits) > 1:
                    return ("EXC", "metastable %r listed %d times" % (m, len(hits)))
                return canon(hits[0]) if hits else None
            return canon(getattr(rep, GET_FN[fam])(*args, path))
        except RuntimeError:
            return None
        except Exception as e:      # noqa: BLE001 - becomes id -2, a disagreement
            return ("EXC", repr(e))

    def listing(self):
        """files below the scratch directory, as component lists in the model's vocabulary"""
        out = []
        top = os.path.join(self.scratch, "c06")
        for base, tag in ((self.repo, ["repo"]), (self.home, ["~"])):
            for root, dirs, files in os.walk(base):
                if base == self.home and root == base:
                    dirs[:] = [d for d in dirs if d not in self.home_baseline]
                    files = [f for f in files if f not in self.home_baseline]
                for f in files:
                    out.append(tag + os.path.relpath(os.path.join(root, f), base).split(os.sep))
        for root, dirs, files in os.walk(top):
            if root.startswith(self.repo) or root.startswith(self.adas) or root.startswith(self.home):
                continue
            for f in files:
                out.append(["?"] + os.path.relpath(os.path.join(root, f), top).split(os.sep))
        return sorted(out)


# ---------------------------------------------------------------------------------------------
# create.populate(): the stock configuration, executed in one go and as the individual installs it stands for
# ---------------------------------------------------------------------------------------------
def _hseed(path, tag):
    import hashlib
    return int(hashlib.sha256((path + "|" + tag).encode()).hexdigest()[:12], 16)


def auto_tree(kind, a, path):
    """the parsed content of the ADAS file `path` as the stub parsers invent it: a function of the parser's arguments"""
    lf = lambda tag: {"seed": _hseed(path, tag), "bad": None}      # noqa: E731
    if kind == "adf11":
        s = a[0]
        return [[s, [[q, lf("q%d" % q)] for q in ([1, 2] if ZNUM[s] >= 2 else [1])]]]
    if kind == "adf12":
        d, m, r, q = a
        return [[d, [[r, [[q, [[list(t), [[m, lf("t%d" % i)]]] for i, t in enumerate([(8, 7), (9, 8)])]]]]]]]
    if kind == "adf15":
        s, q = a
        mk = lambda tag, trs: [[s, [[q, [[list(t), lf(tag + str(i))] for i, t in enumerate(trs)]]]]]     # noqa: E731
        return {"exc": mk("e", [(3, 2), (4, 2)]), "rec": mk("r", [(3, 2)]),
                "tcx": mk("c", [(4, 3)]) if q + 1 <= ZNUM[s] else [], "wvl": mk("w", [(3, 2), (4, 2)])}
    if kind == "adf21":
        b, t, q = a
        return [[b, [[t, [[q, lf("s")]]]]]]
    if kind == "adf22bmp":
        b, m, t, q = a
        return [[b, [[m, [[t, [[q, lf("p")]]]]]]]]
    if kind == "adf22bme":
        b, t, q, tr = a
        return [[b, [[t, [[q, [[list(tr), lf("e")]]]]]]]]
    raise AssertionError(kind)


def auto_call(w, kind, args):
    """the install call one entry of an install_files configuration stands for"""
    nm = lambda o: w.name_of[id(o)]       # noqa: E731
    path = args[-1]
    c = {"style": "install", "install": kind, "fam": INSTALL[kind], "repo": True, "via_files": None, "file": path}
    if kind in ADF11_SHIFT and kind != "adf11ccd":
        c["parsed"] = auto_tree("adf11", (nm(args[0]),), path)
    elif kind == "adf11ccd":
        c["tree"] = [[nm(args[0]), [[int(args[1]), auto_tree("adf11", (nm(args[2]),), path)]]]]
    elif kind == "adf12":
        c["tree"] = auto_tree("adf12", (nm(args[0]), args[1], nm(args[2]), args[3]), path)
    elif kind == "adf15":
        c.update(auto_tree("adf15", (nm(args[0]), int(args[1])), path))
        c["element"], c["charge"] = nm(args[0]), int(args[1])
    elif kind == "adf21":
        c["tree"] = auto_tree("adf21", (nm(args[0]), nm(args[1]), args[2]), path)
    elif kind == "adf22bmp":
        c["tree"] = auto_tree("adf22bmp", (nm(args[0]), args[1], nm(args[2]), args[3]), path)
    elif kind == "adf22bme":
        c["tree"] = auto_tree("adf22bme", (nm(args[0]), nm(args[1]), args[2], tuple(args[3])), path)
    return c


def populate_stage(ctx, w, rng, cap):
    """repository.create.populate is run once with a repository path and once without; the configuration it hands
    to install_files and the wavelength table it writes are captured, turned into the history of individual calls
    they stand for (which goes through the correspondence like any other history), and the two repositories must
    be read identically.  -> (history, queries, check function to call after the history has been executed)"""
    import contextlib
    import io
    import cherab.openadas.repository.create as create
    cap_cfg = {}
    real_files, real_wvl = create.install_files, w.repository.update_wavelengths

    def spy_files(configuration, **kw):
        cap_cfg["config"] = {k: [tuple(a) for a in v] for k, v in configuration.items()}
        for entries in configuration.values():
            for a in entries:
                f = os.path.join(w.adas, a[-1])
                os.makedirs(os.path.dirname(f), exist_ok=True)
                open(f, "w").write("stub\n")
        return real_files(configuration, **kw)

    def spy_wvl(wavelengths, *a, **kw):
        cap_cfg["wvl"] = [[w.name_of[id(el)], [[int(q), [[list(t), {"seed": 0, "bad": None, "value": float(v)}] for t, v in trs.items()]]
                                              for q, trs in qs.items()]] for el, qs in wavelengths.items()]
        return real_wvl(wavelengths, *a, **kw)

    def run_populate(**kw):
        w.reset()
        w.auto = True
        create.install_files, w.repository.update_wavelengths = spy_files, spy_wvl
        try:
            with contextlib.redirect_stdout(io.StringIO()):
                create.populate(download=False, adas_path=w.adas, **kw)
        finally:
            w.auto = False
            create.install_files, w.repository.update_wavelengths = real_files, real_wvl

    run_populate()                                   # no repository_path: everything under the default root
    listing_default = w.listing()
    run_populate(repository_path=w.repo)
    listing_given = w.listing()
    calls = [auto_call(w, kind.lower(), a) for kind, entries in cap_cfg["config"].items() for a in entries]
    calls.append({"style": "update", "fam": "wvl", "repo": "kw", "recursive": True, "tree": cap_cfg["wvl"]})
    names = sorted({k for c in calls for _, _, keys, _, _ in call_leaves(c) for k in keys if isinstance(k, str) and k in ZNUM})
    h = {"universe": {"sp": names[:6], "tr": [[3, 2], [4, 2], [8, 7]], "q": [0, 1], "m": [1, 2]}, "calls": calls,
         "origin": "create.populate"}
    queries = queries_for(h, rng, cap)
    reads_pop = [w.read(q) for q in queries]
    h["queries"] = queries

    def after_individual():
        """called right after the history of individual installs has been executed (its repository is still on disk)"""
        bad = []
        reads_ind = [w.read(q) for q in queries]
        for q, a, b in zip(queries, reads_pop, reads_ind):
            if a != b:
                bad.append({"claim": "populate() and the individual installs it stands for store different data", "query": q})
        if w.listing() != listing_given:
            bad.append({"claim": "populate() and the individual installs it stands for create different files",
                        "only_populate": [f for f in listing_given if f not in w.listing()][:5],
                        "only_individual": [f for f in w.listing() if f not in listing_given][:5]})
        want_default = sorted(["~", ".cherab", "openadas", "repository"] + f[1:] for f in listing_given)
        if listing_default != want_default:
            bad.append({"claim": "file outside the repository path that was passed",
                        "detail": "populate() without repository_path", "unexpected": [f for f in listing_default if f not in want_default][:5],
                        "missing": [f for f in want_default if f not in listing_default][:5]})
        if any(f[0] != "repo" for f in listing_given):
            bad.append({"claim": "file outside the repository path that was passed", "detail": "populate(repository_path=...)",
                        "file": ["/".join(f) for f in listing_given if f[0] != "repo"][:5]})
        return bad
    return h, after_individual, {"entries": len(calls) - 1, "wavelengths": sum(1 for _ in walk(cap_cfg["wvl"], 3)),
                                 "files": len(listing_given), "queries": len(queries)}


def probe_rejected_after_open(w):
    """calls that are rejected only when the content is serialised (after the file has been opened for writing): the
    property demands that the keys stored before stay readable.  -> list of failing scenario descriptions"""
    rep, P = w.repository, w.repo
    D, C = w.sp["deuterium"], w.sp["carbon"]
    out = []

    def scenario(name, first, second, read, what):
        w.reset()
        a = first()
        try:
            second()
            raised = None
        except Exception as e:      # noqa: BLE001 - any rejection; recorded below
            raised = repr(e)
        try:
            got = read()
            ok = got == a
            err = None
        except Exception as e:      # noqa: BLE001 - recorded
            ok, err = False, repr(e)
        if raised is not None and not ok:
            out.append({"scenario": name, "calls": what, "second_call_raised": raised, "read_of_the_key_stored_before": err or "different data"})

    lA, lB = {"seed": 7001, "bad": None}, {"seed": 7002, "bad": None}
    def bcx_first():
        rep.add_beam_cx_rate(D, 0, C, 6, (8, 7), gen_leaf("bcx", lA)[0], P)
        return gen_leaf("bcx", lA)[1]
    def bcx_read():
        return canon([r for m, r in rep.get_beam_cx_rates(D, C, 6, (8, 7), P) if m == 0][0])
    scenario("bcx-numpy-int-metastable", bcx_first,
             lambda: rep.add_beam_cx_rate(D, np.int64(1), C, 6, (8, 7), gen_leaf("bcx", lB)[0], P), bcx_read,
             "add_beam_cx_rate(deuterium, 0, carbon, 6, (8, 7), A); add_beam_cx_rate(deuterium, numpy.int64(1), carbon, 6, (8, 7), B); "
             "get_beam_cx_rates(deuterium, carbon, 6, (8, 7))")
    for name, add, get, args in (("bstop-unserialisable-extra", rep.add_beam_stopping_rate, rep.get_beam_stopping_rate, (D, C, 6)),
                                 ("bpop-unserialisable-extra", rep.add_beam_population_rate, rep.get_beam_population_rate, (D, 1, C, 6))):
        def first(add=add, args=args):
            add(*args, gen_leaf("beam", lA)[0], P)
            return gen_leaf("beam", lA)[1]
        scenario(name, first,
                 lambda add=add, args=args: add(*args, dict(gen_leaf("beam", lB)[0], comment=np.array([1.0])), P),
                 lambda get=get, args=args: canon(get(*args, P)),
                 "%s(..., A); %s(..., B + {'comment': ndarray}); %s(...)" % (add.__name__, add.__name__, get.__name__))
    w.reset()
    return out


# ---------------------------------------------------------------------------------------------
# what a call is given: [(root, fam, keys, leaf, leaf is valid on its own)] in iteration order
# ---------------------------------------------------------------------------------------------
def call_leaves(c):
    """-> list of (given_root, fam, keys, leaf, install kind)"""
    out = []
    if c["style"] != "install" or c["install"] in ("adf12", "adf21", "adf22bmp", "adf22bme", "adf11ccd"):
        fam = c["fam"]
        inst = None if c["style"] != "install" else ("adf11" if c["install"] == "adf11ccd" else c["install"])
        for keys, leaf in walk(c["tree"], len(LEVELS[fam])):
            out.append((is_given(c["repo"]), fam, keys, leaf, inst))
    elif c["install"] in ADF11_SHIFT:
        fam, sh = c["fam"], ADF11_SHIFT[c["install"]]
        for (s, q), leaf in walk(c["parsed"], 2):
            out.append((is_given(c["repo"]), fam, (s, q + sh), leaf, "adf11"))
    elif c["install"] == "adf15":
        for (s, q, tr), leaf in walk(c["tcx"], 3):
            out.append((is_given(c["repo"]), "pectcx", ("hydrogen", 0, s, q + 1, tr), leaf, "adf15tcx"))
        for cls, key in (("excitation", "exc"), ("recombination", "rec")):
            for (s, q, tr), leaf in walk(c[key], 3):
                out.append((is_given(c["repo"]), "pec", (cls, s, q, tr), leaf, "adf15"))
        for (s, q, tr), leaf in walk(c["wvl"], 3):
            out.append((is_given(c["repo"]), "wvl", (s, q, tr), leaf, None))
    return out


NOEL = "@noelem"      # an argument that is not an Element (a plain string): every update function raises TypeError
ZNUM = {NOEL: 0, "hydrogen": 1, "deuterium": 1, "tritium": 1, "helium": 2, "helium3": 2, "carbon": 6, "neon": 10}
SYM = {NOEL: "x", "hydrogen": "H", "deuterium": "D", "tritium": "T", "helium": "He", "helium3": "He3", "carbon": "C", "neon": "Ne"}


def normkey(given, fam, keys):
    out = [bool(given), fam]
    for kind, k in zip(LEVELS[fam], keys):
        out.append(lower_tr(k) if kind == "tr" else (SYM[k].lower() if kind == "sp" else k))
    return tuple(out)


def groups_valid(c):
    """the checks made per file visit (before any leaf is looked at) pass for every group, empty ones included"""
    if c["style"] == "install" and c["install"] == "adf15":
        return True          # its groups are never empty: the leaves decide
    fam = c["fam"]
    lv = LEVELS[fam]
    if "tr" not in lv or "tree" not in c:
        return True
    gd = lv.index("tr")
    fill = {"tr": (1, 1), "m": 0}
    return all(keys_valid(fam, keys + tuple(fill[k] for k in lv[gd:])) for keys, _ in walk(c["tree"], gd))


def leaf_expected(fam, leaf, inst):
    return gen_leaf(DATAKIND[fam], leaf, inst)[1]


def keys_valid(fam, keys):
    """the argument checks of the family (Element arguments, charge <= Z, metastable >= 0), as the property's text implies them"""
    lv = LEVELS[fam]
    if NOEL in keys:
        return False
    if fam in ("ion", "rec", "line", "cont", "cxp", "wvl"):
        return keys[1] <= ZNUM[keys[0]]
    if fam == "tcx":
        return keys[3] <= ZNUM[keys[2]]
    if fam == "pec":
        return keys[2] <= ZNUM[keys[1]]
    if fam == "pectcx":
        return keys[1] + 1 <= ZNUM[keys[0]] and keys[3] <= ZNUM[keys[2]]
    if fam == "bcx":
        return keys[2] <= ZNUM[keys[1]] and keys[4] >= 0
    if fam in ("bstop", "bem"):
        return keys[2] <= ZNUM[keys[1]]
    if fam == "bpop":
        return keys[1] >= 0 and keys[3] <= ZNUM[keys[2]]
    raise AssertionError(lv)


# ---------------------------------------------------------------------------------------------
# generator of histories
# ---------------------------------------------------------------------------------------------
class Gen:
    def __init__(self, rng, quick):
        self.rng, self.quick = rng, quick

    def leaf(self, bad_p):
        r = self.rng
        bad = r.choice(BAD_KINDS) if r.random() < bad_p else None
        return {"seed": r.getrandbits(48), "bad": bad}

    def universe(self):
        r = self.rng
        sp = r.sample(SPECIES_NAMES, r.randint(2, 3))
        if r.random() < 0.5 and "hydrogen" not in sp:
            sp[0] = "hydrogen"
        base = r.sample(TRANSITIONS, 3)
        if r.random() < 0.7:
            base += r.choice([[(3, 2), ("3", "2")], [("2P", "1s"), ("2p", "1S")],
                              [("2s1 2p1 3P4.0", "2s2 1S0.0"), ("2S1 2P1 3p4.0", "2s2 1s0.0")]])
        trs = []
        for t in base:
            if t not in trs:
                trs.append(t)
        # most histories concentrate on a few families (so that files are shared, re-written, and read by siblings)
        fams = list(LEVELS) if r.random() < 0.3 else r.sample(list(LEVELS), r.randint(2, 5))
        qs = [0, 1, 2] if r.random() < 0.5 else r.sample([0, 1, 2], 2)
        return {"sp": sp, "tr": trs, "q": qs, "m": r.choice([[0, 1, 2], [0, 1], [0, 9, 10, 11], [1, 10, 2]]), "fams": fams}

    def pick(self, u, kind, bad_key_p, used, fam=None, prefix=()):
        r = self.rng
        for _ in range(20):
            if kind == "sp":
                k = r.choice(u["sp"])
            elif kind == "q":
                sps0 = [p for p in prefix if isinstance(p, str) and p in ZNUM]
                if r.random() < bad_key_p:
                    # mostly exactly one above the bound of the governing species
                    k = (ZNUM[sps0[-1]] + 1) if sps0 and r.random() < 0.7 else r.choice([3, 7, 11, 12])
                else:
                    # a charge the governing species (the nearest species to the left) accepts
                    sps = [p for p in prefix if isinstance(p, str) and p in ZNUM]
                    zmax = ZNUM[sps[-1]] if sps else 2
                    if fam == "pectcx" and len(prefix) == 1:
                        zmax -= 1            # valid_charge(donor, donor_charge + 1)
                    if fam == "tcx" and len(prefix) == 1:
                        zmax = 2             # the donor charge of thermal CX is not validated
                    pool = [q for q in u["q"] if q <= zmax] or [0]
                    if r.random() < 0.2 and zmax >= 0:
                        pool = [zmax, max(zmax - 1, 0)]          # exactly the bound (9/10 for neon) and one below
                    k = r.choice(pool)
            elif kind == "m":
                k = r.choice(u["m"]) if r.random() > bad_key_p else -1
            elif kind == "tr":
                k = r.choice(u["tr"])
            elif kind == "cls":
                k = r.choice(["excitation", "recombination"])
            if k not in used:
                return k
        return None

    def tree(self, u, levels, width, bad_p, bad_key_p, empty_p=0.0, fam=None, prefix=()):
        """random nested dictionary; keys unique per level (it becomes a Python dict)"""
        r = self.rng
        if not levels:
            return self.leaf(bad_p)
        n = 1 if width == 1 else r.choice([1, 1, 2, 2, 3])
        if levels == ["tr"] or levels == ["tr", "m"]:
            if r.random() < empty_p:
                return []
        out, used = [], []
        for _ in range(n):
            k = self.pick(u, levels[0], bad_key_p, used, fam, prefix)
            if k is None:
                break
            used.append(k)
            out.append([list(k) if isinstance(k, tuple) else k,
                        self.tree(u, levels[1:], width, bad_p, bad_key_p, empty_p, fam, prefix + (k,))])
        return out

    def okq(self, s, hi=2, lo=0):
        return self.rng.choice([q for q in range(lo, hi + 1) if q <= ZNUM[s]] or [0])

    def call(self, u, mixed_roots):
        r = self.rng
        if mixed_roots and r.random() < 0.35:
            repo = r.choice([False, False, "none_kw", "default_explicit"])
        else:
            repo = True if r.random() < 0.75 else "kw"
        c = self.call0(u, repo)
        if r.random() < 0.2:
            c["npkeys"] = True
        return c

    def call0(self, u, repo):
        r = self.rng
        x = r.random()
        fams = u.get("fams") or list(LEVELS)
        if x < 0.42:
            fam = r.choice(fams)
            bad = r.random() < 0.22
            return {"style": "update", "fam": fam, "repo": repo, "recursive": r.random() < 0.3,
                    "tree": self.tree(u, LEVELS[fam], 3, 0.25 if bad and fam != "wvl" else 0.0, 0.15 if bad else 0.0, 0.08, fam=fam)}
        if x < 0.75:
            fam = r.choice(fams)
            bad = r.random() < 0.15
            if fam == "tcx":
                t = self.tree(u, LEVELS[fam][:3], 1, 0, 0, fam=fam)
                t[0][1][0][1][0][1] = self.tree(u, ["q"], 3, 0.3 if bad else 0.0, 0.3 if bad else 0.0, fam=fam,
                                                prefix=(t[0][0], t[0][1][0][0], t[0][1][0][1][0][0]))
                return {"style": "add", "fam": fam, "repo": repo, "tree": t}
            return {"style": "add", "fam": fam, "repo": repo,
                    "tree": self.tree(u, LEVELS[fam], 1, 0.5 if bad and fam != "wvl" else 0.0, 0.4 if bad else 0.0, fam=fam)}
        kinds = [k for k, f in INSTALL.items() if f in fams or (k == "adf15" and {"pec", "pectcx", "wvl"} & set(fams))]
        kind = r.choice(kinds or list(INSTALL))
        via = r.choice([None, None, "lower", "upper"])
        c = {"style": "install", "install": kind, "fam": INSTALL[kind], "repo": repo, "via_files": via}
        bad = r.random() < 0.12
        if kind in ADF11_SHIFT and kind != "adf11ccd":
            s = r.choice(u["sp"])
            sh = ADF11_SHIFT[kind]
            pool = [q for q in range(0, 4) if q + sh <= ZNUM[s]]
            qs = r.sample(pool, r.randint(1, min(3, len(pool)))) + ([12] if bad else [])
            c["parsed"] = [[s, [[q, self.leaf(0.0)] for q in qs]]]
        elif kind == "adf11ccd":
            d, rcv = r.choice(u["sp"]), r.choice(u["sp"])
            pool = [q for q in range(0, 3) if q <= ZNUM[rcv]]
            qs = r.sample(pool, r.randint(1, len(pool))) + ([12] if bad else [])
            c["tree"] = [[d, [[r.choice([0, 1]), [[rcv, [[q, self.leaf(0.0)] for q in qs]]]]]]]
        elif kind == "adf12":
            d, rcv, m = r.choice(u["sp"]), r.choice(u["sp"]), r.choice([0, 1, 2])
            q = 11 if bad else self.okq(rcv)
            trs = r.sample(u["tr"], r.randint(1, min(3, len(u["tr"]))))
            c["tree"] = [[d, [[rcv, [[q, [[list(t), [[m, self.leaf(0.0)]]] for t in trs]]]]]]]
        elif kind == "adf15":
            s = r.choice(u["sp"])
            q = 11 if bad else self.okq(s)
            c["element"], c["charge"] = s, q
            for key, p in (("exc", 0.8), ("rec", 0.6), ("tcx", 0.5 if (q + 1 <= ZNUM[s] or r.random() < 0.1) else 0.0)):
                trs = r.sample(u["tr"], r.randint(1, min(3, len(u["tr"])))) if r.random() < p else []
                c[key] = [[s, [[q, [[list(t), self.leaf(0.0)] for t in trs]]]]] if trs else []
            trs = r.sample(u["tr"], r.randint(1, min(3, len(u["tr"]))))
            c["wvl"] = [[s, [[q, [[list(t), self.leaf(0.0)] for t in trs]]]]]
        elif kind == "adf21":
            t = r.choice(u["sp"])
            c["tree"] = [[r.choice(u["sp"]), [[t, [[11 if bad else self.okq(t), self.leaf(0.0)]]]]]]
        elif kind == "adf22bmp":
            t = r.choice(u["sp"])
            c["tree"] = [[r.choice(u["sp"]), [[r.choice([0, 1, 2]), [[t, [[11 if bad else self.okq(t), self.leaf(0.0)]]]]]]]]
        elif kind == "adf22bme":
            t = r.choice(u["sp"])
            c["tree"] = [[r.choice(u["sp"]), [[t, [[11 if bad else self.okq(t), [[list(r.choice(u["tr"])), self.leaf(0.0)]]]]]]]]
        return c

    def history(self):
        """base calls interleaved with calls derived from earlier ones: the same call again, the same keys with new
        values, the same keys with one leaf or key made invalid followed by a valid re-write, alias re-spellings"""
        r = self.rng
        u = self.universe()
        mixed = r.random() < 0.3
        n = r.randint(4, 14 if self.quick else 30)
        calls, derived = [], {}
        while len(calls) < n:
            if calls and r.random() < 0.3:
                base = copy.deepcopy(r.choice(calls))
                mode = r.choice(["repeat", "rewrite", "rewrite", "toggle", "toggle", "respell", "reroute"])
                derived[mode] = derived.get(mode, 0) + 1
                if mode == "repeat":
                    calls.append(base)
                elif mode == "rewrite":
                    calls.append(reseed(base, r))
                elif mode == "respell":
                    calls.append(reseed(respell(base, r), r))
                elif mode == "reroute":
                    # the same dictionary through another way of passing the path / another key form
                    b = reseed(base, r)
                    if is_given(b["repo"]):
                        b["repo"] = "kw" if b["repo"] is True else True
                    b["npkeys"] = not b.get("npkeys")
                    calls.append(b)
                else:
                    calls.append(spoil_call(copy.deepcopy(base), r))
                    calls.append(reseed(base, r))
            else:
                calls.append(self.call(u, mixed))
        return {"universe": u, "calls": calls, "derived": derived}


def call_trees(c):
    """(owner dict, key, levels) of every tree of a call"""
    if c["style"] == "install" and c["install"] == "adf15":
        return [(c, k, ["sp", "q", "tr"]) for k in ("tcx", "exc", "rec", "wvl")]
    if c["style"] == "install" and c["install"] in ADF11_SHIFT and c["install"] != "adf11ccd":
        return [(c, "parsed", ["sp", "q"])]
    return [(c, "tree", LEVELS[c["fam"]])]


def map_keys(tree, levels, fn):
    """apply fn(kind, key) to every key; keys that become equal inside one dictionary are merged (first one kept)"""
    if not levels:
        return tree
    out, seen = [], []
    for key, sub in tree:
        k2 = fn(levels[0], tuple(key) if isinstance(key, list) else key)
        if k2 in seen:
            continue
        seen.append(k2)
        out.append([list(k2) if isinstance(k2, tuple) else k2, map_keys(sub, levels[1:], fn)])
    return out


def reseed(c, rng):
    """same keys, new valid values"""
    for _, _, _, leaf, _ in call_leaves(c):
        if "value" not in leaf:
            leaf["seed"], leaf["bad"] = rng.getrandbits(48), None
        leaf.pop("extra", None)
        leaf.pop("id", None)
    return c


def respell(c, rng):
    """alias spellings of every transition: int <-> str, upper <-> lower case"""
    def fn(kind, k):
        if kind != "tr":
            return k
        def lv(x):
            if isinstance(x, int):
                return str(x)
            return int(x) if x.isdigit() and rng.random() < 0.5 else (x.upper() if rng.random() < 0.5 else x.lower())
        return (lv(k[0]), lv(k[1]))
    for owner, key, levels in call_trees(c):
        owner[key] = map_keys(owner[key], levels, fn)
    return c


def spoil_call(c, rng):
    """make the call cross one of the guards: a leaf with invalid data, a charge above the bound, a negative metastable"""
    leaves = [lf for _, fam, _, lf, inst in call_leaves(c) if fam != "wvl" and "value" not in lf and inst != "adf15tcx"]
    kinds = {k for _, _, lv in call_trees(c) for k in lv}
    x = rng.random()
    if c["style"] != "install" and x < 0.3:
        # an argument that is not an Element (not the donor of thermal CX: it is never checked, its .symbol is used)
        done0 = []
        def fn0(kind, k, _state={"i": -1}):
            _state["i"] += 1
            if kind == "sp" and not done0 and rng.random() < 0.5:
                done0.append(1)
                return NOEL
            return k
        for owner, key, levels in call_trees(c):
            if c["fam"] == "tcx":
                owner[key] = [[d, map_keys(sub, levels[1:], fn0)] for d, sub in owner[key]]
            else:
                owner[key] = map_keys(owner[key], levels, fn0)
        return c
    if c["style"] != "install" and c["fam"] in ("bstop", "bpop") and leaves and x < 0.65:
        rng.choice(leaves)["extra"] = True
        return c
    if leaves and (rng.random() < 0.6 or not ({"q", "m"} & kinds)):
        lf = rng.choice(leaves)
        lf["bad"] = rng.choice(BAD_KINDS)
        return c
    target = rng.choice(sorted({"q", "m"} & kinds)) if ({"q", "m"} & kinds) else None
    done = []
    def fn(kind, k):
        if kind == target and not done and rng.random() < 0.6:
            done.append(1)
            return 12 if kind == "q" else -1
        return k
    for owner, key, levels in call_trees(c):
        owner[key] = map_keys(owner[key], levels, fn)
    if c["style"] == "install" and c["install"] == "adf15":
        # the element / charge arguments follow the (single) charge of its blocks
        for k in ("exc", "rec", "tcx", "wvl"):
            if c[k]:
                c["charge"] = c[k][0][1][0][0]
    return c


def queries_for(h, rng, cap):
    """the keys read back after every call: every key the history is given, their aliases, neighbours in
    other families / charges / roots, and keys never written"""
    direct, extra = [], []

    def add(lst, q):
        if q not in lst:
            lst.append(q)
    u = h["universe"]
    for c in h["calls"]:
        for given, fam, keys, leaf, inst in call_leaves(c):
            add(direct, (given, fam, keys))
            add(extra, (not given, fam, keys))
            lv = LEVELS[fam]
            # the same arguments in the sibling families (where a misrouted add would land)
            if fam in ADF11:
                for f2 in ADF11:
                    add(extra, (given, f2, keys))
            if fam == "pec":
                add(extra, (given, "pec", (("recombination" if keys[0] == "excitation" else "excitation"),) + keys[1:]))
                add(extra, (given, "wvl", keys[1:]))
                add(extra, (given, "pectcx", ("hydrogen", 0) + keys[1:]))
                add(extra, (given, "pectcx", ("hydrogen", 0, keys[1], keys[2] + 1, keys[3])))
            if fam == "wvl":
                add(extra, (given, "pec", ("excitation",) + keys))
            if fam == "bstop":
                add(extra, (given, "bpop", (keys[0], 0, keys[1], keys[2])))
            if fam == "bem":
                add(extra, (given, "bstop", keys[:3]))
            if fam == "tcx":
                add(extra, (given, "ion", (keys[2], keys[3])))
                add(extra, (given, "pectcx", keys + ((3, 2),)))
            # aliases and neighbours
            for i, kind in enumerate(lv):
                if kind == "tr":
                    a, b = keys[i]
                    for t2 in ((str(a).upper(), str(b).upper()), (str(a), str(b)), (b, a)):
                        add(extra, (given, fam, keys[:i] + (t2,) + keys[i + 1:]))
                    for t2 in u["tr"]:
                        add(extra, (given, fam, keys[:i] + (tuple(t2),) + keys[i + 1:]))
                if kind in ("q", "m"):
                    for d in (-1, 1):
                        if keys[i] + d >= 0:
                            add(extra, (given, fam, keys[:i] + (keys[i] + d,) + keys[i + 1:]))
                if kind == "sp":
                    for s2 in u["sp"]:
                        add(extra, (given, fam, keys[:i] + (s2,) + keys[i + 1:]))
    direct = [q for q in direct if NOEL not in q[2]]
    extra = [q for q in extra if q not in direct and NOEL not in q[2]]
    rng.shuffle(extra)
    direct = direct[:cap]
    return direct + extra[:max(cap - len(direct), cap // 3)]


# ---------------------------------------------------------------------------------------------
# running a history on the implementation; the executable statement of the property
# ---------------------------------------------------------------------------------------------
def run_history(w, h, queries):
    """-> (per call [outcome, ids], files, ids table, property failures)"""
    w.reset()
    ids = {}          # canonical value -> id (1..)
    exp_of_id = {}

    def id_of(cv):
        if cv not in ids:
            ids[cv] = len(ids) + 1
        return ids[cv]
    # register every value the history will write, in order (the model is given the same ids)
    for c in h["calls"]:
        for given, fam, keys, leaf, inst in call_leaves(c):
            cv = leaf_expected(fam, leaf, inst)
            leaf["id"] = id_of(cv) if cv is not None else len(ids) + 1000000    # invalid leaf: never readable
            leaf["dk"], leaf["shapes"] = leaf_shapes(fam, leaf, inst)
    state = {}        # abstract map of the property: normalised key -> value id
    trace, fails = [], []
    roots_used = set()
    nq = [normkey(*q) for q in queries]
    cwd_before = set(os.listdir("."))
    for ci, c in enumerate(h["calls"]):
        oc = w.run_call(c)
        roots_used.add(is_given(c["repo"]))
        reads = []
        for q in queries:
            cv = w.read(q)
            reads.append(0 if cv is None else (-2 if (isinstance(cv, tuple) and cv and cv[0] == "EXC") else ids.get(cv, -1)))
        trace.append([oc, reads])
        # ---- the property, stated on the implementation ----
        leaves = call_leaves(c)
        all_valid = all(lf["bad"] is None and not lf.get("extra") and keys_valid(fam, keys) for _, fam, keys, lf, _ in leaves) and groups_valid(c)
        type_rejectable = any(lf.get("extra") or NOEL in keys for _, fam, keys, lf, _ in leaves) or NOEL in json.dumps(c)
        given_vals = {}
        for given, fam, keys, lf, inst in leaves:
            given_vals.setdefault(normkey(given, fam, keys), []).append(lf["id"])
        where = {"call_index": ci, "call": c}
        if oc == 2 or (oc == 3 and not type_rejectable):
            fails.append(dict(where, claim="call raised an unexpected exception", exception=w.last_exc))
        elif oc in (1, 3) and all_valid:
            fails.append(dict(where, claim="valid data rejected", exception=w.last_exc))
        new_state = dict(state)
        if oc == 0 and all_valid:
            for k, vs in given_vals.items():
                new_state[k] = vs[-1]
        for q, k, got in zip(queries, nq, reads):
            old = state.get(k, 0)
            if oc == 0 and all_valid:
                want = new_state.get(k, 0)
                if got != want:
                    what = ("last write does not win" if k in given_vals else
                            ("key never written is readable" if old == 0 else "other key changed"))
                    fails.append(dict(where, claim=what, query=q, expected_id=want, got_id=got))
            else:
                # rejected (or accepting invalid data): old content or one of this call's values; readable stays readable
                allowed = {old} | set(given_vals.get(k, []))
                if got not in allowed or (old != 0 and got <= 0):
                    fails.append(dict(where, claim="rejected update damaged a stored key" if old != 0 else
                                      "rejected update made an unrelated key readable", query=q, expected_ids=sorted(allowed), got_id=got))
                if got != old and got > 0:
                    new_state[k] = got
        # keys not in the query list but given by this call are tracked too
        state = new_state
        files = w.listing()
        for f in files:
            ok = (f[0] == "repo" and True in roots_used) or (f[0] == "~" and f[1:4] == [".cherab", "openadas", "repository"] and False in roots_used)
            if not ok:
                fails.append(dict(where, claim="file outside the repository path that was passed", file="/".join(f)))
        if fails:
            break
    stray = set(os.listdir(".")) - cwd_before
    if stray:
        fails.append({"claim": "file outside the repository path that was passed", "file": "cwd:" + ",".join(sorted(stray))})
    return trace, w.listing(), fails


# ---------------------------------------------------------------------------------------------
# Coq text
# ---------------------------------------------------------------------------------------------
def c_sp(name):
    if name == NOEL:
        return "NoEl"
    return '(Sp %s %d)' % (coq_string(SYM[name]), ZNUM[name])


def c_z(n):
    return "(%d)" % n if n < 0 else "%d" % n


def c_level(x):
    return "(LInt %s)" % c_z(x) if isinstance(x, int) else "(LStr %s)" % coq_string(x)


def c_tr(t):
    return "(%s, %s)" % (c_level(t[0]), c_level(t[1]))


def c_key(kind, k):
    if kind == "sp":
        return c_sp(k)
    if kind == "tr":
        return c_tr(k)
    if kind == "cls":
        return {"excitation": "PExc", "recombination": "PRec"}[k]
    return c_z(k)


SHAPE_ORDER = {"adf11": ("DTable2", ["ne", "te", "rates"]), "pec": ("DTable2", ["ne", "te", "rate"]),
               "pectcx": ("DTable3", ["ne", "te", "td", "rate"]),
               "bcx": ("DPairs", ["eb", "qeb", "ti", "qti", "ni", "qni", "z", "qz", "b", "qb"]),
               "beam": ("DBeam", ["e", "n", "t", "sen", "st"])}


def leaf_shapes(fam, leaf, inst):
    """the shapes numpy gives the arrays of this leaf, in the order the update function converts them: what the
    MODEL decides validity from (the generator's own 'bad' flag is used by the search only)"""
    kind = DATAKIND[fam]
    if kind == "wvl":
        return "DScalar", []
    give = gen_leaf(kind, leaf, inst)[0]
    sh = lambda x: list(np.array(x, np.float64).shape)      # noqa: E731
    if inst == "adf15tcx":
        # install.py:_thermalcx_adf15_2dto3d_converter: td = [0.01, 10000], rate (len(ne), len(te), 2)
        return "DTable3", [sh(give["ne"]), sh(give["te"]), [2], [len(give["ne"]), len(give["te"]), 2]]
    dk, order = SHAPE_ORDER[kind]
    return dk, [sh(give[k]) for k in order]


def c_leaf(leaf):
    return "(%s %s [%s] %d)" % ("TX" if leaf.get("extra") else "T", leaf["dk"], "; ".join("[" + "; ".join(str(x) for x in s) + "]" for s in leaf["shapes"]), leaf["id"])


def c_tree(tree, levels):
    if not levels:
        return c_leaf(tree)
    return "[" + "; ".join("(%s, %s)" % (c_key(levels[0], k), c_tree(sub, levels[1:])) for k, sub in tree) + "]"


def c_repo(repo):
    if repo == "default_explicit":
        return "(Some default_root)"
    return "(Some R)" if is_given(repo) else "None"


def c_call(c):
    fam, style, repo = c["fam"], c["style"], c_repo(c["repo"])
    if style == "update":
        if fam in ADF11:
            return "UAdf11 %s %s %s" % (ADF11[fam], repo, c_tree(c["tree"], LEVELS[fam]))
        ctor = {"tcx": "UTcx", "pec": "UPec", "pectcx": "UPecTcx", "wvl": "UWvl", "bcx": "UBcx", "bstop": "UBstop",
                "bpop": "UBpop", "bem": "UBem"}[fam]
        return "%s %s %s" % (ctor, repo, c_tree(c["tree"], LEVELS[fam]))
    if style == "add":
        if fam == "tcx":
            ((d, dq, r), sub), = walk(c["tree"], 3)
            return "ATcx %s %s %s %s %s" % (repo, c_sp(d), c_z(dq), c_sp(r), c_tree(sub, ["q"]))
        (keys, leaf), = walk(c["tree"], len(LEVELS[fam]))
        a = [c_key(k, v) for k, v in zip(LEVELS[fam], keys)]
        if fam in ADF11:
            return "AAdf11 %s %s %s %s" % (ADF11[fam], repo, " ".join(a), c_leaf(leaf))
        if fam == "pec":
            return "APec %s %s %s %s" % (a[0], repo, " ".join(a[1:]), c_leaf(leaf))
        if fam == "bcx":
            d, r, q, tr, m = a
            return "ABcx %s %s %s %s %s %s %s" % (repo, d, m, r, q, tr, c_leaf(leaf))
        ctor = {"pectcx": "APecTcx", "wvl": "AWvl", "bstop": "ABstop", "bpop": "ABpop", "bem": "ABem"}[fam]
        return "%s %s %s %s" % (ctor, repo, " ".join(a), c_leaf(leaf))
    kind = c["install"]
    if kind in ADF11_SHIFT and kind != "adf11ccd":
        return "IAdf11 %s %s %s" % (ADF11[fam], repo, c_tree(c["parsed"], ["sp", "q"]))
    if kind == "adf11ccd":
        ((d, dq), sub), = walk(c["tree"], 2)
        return "IAdf11ccd %s %s %s %s" % (repo, c_sp(d), c_z(dq), c_tree(sub, ["sp", "q"]))
    if kind == "adf15":
        lv = ["sp", "q", "tr"]
        return "IAdf15 %s %s %s %s %s" % (repo, c_tree(c["tcx"], lv), c_tree(c["exc"], lv), c_tree(c["rec"], lv), c_tree(c["wvl"], lv))
    ctor = {"adf12": "IAdf12", "adf21": "IAdf21", "adf22bmp": "IAdf22bmp", "adf22bme": "IAdf22bme"}[kind]
    return "%s %s %s" % (ctor, repo, c_tree(c["tree"], LEVELS[fam]))


def c_query(q):
    given, fam, keys = q
    a = [c_key(k, v) for k, v in zip(LEVELS[fam], keys)]
    if fam in ADF11:
        body = "QAdf11 %s %s" % (ADF11[fam], " ".join(a))
    else:
        ctor = {"tcx": "QTcx", "pec": "QPec", "pectcx": "QPecTcx", "wvl": "QWvl", "bcx": "QBcx", "bstop": "QBstop",
                "bpop": "QBpop", "bem": "QBem"}[fam]
        body = "%s %s" % (ctor, " ".join(a))
    return "(%s, %s)" % (c_repo(given), body)


def c_path(p):
    return "[" + "; ".join(coq_string(x) for x in p) + "]"


def c_case(i, h, queries, trace, files):
    calls = h["calls"][:len(trace)]
    return ("Definition case_%d : Z := check_seq\n  [%s]\n  [%s]\n  [%s]\n  [%s].\n" % (
        i, ";\n   ".join(c_call(c) for c in calls), "; ".join(c_query(q) for q in queries),
        "; ".join("(%d, [%s])" % (oc, "; ".join(c_z(x) for x in rd)) for oc, rd in trace),
        "; ".join(c_path(p) for p in files)))


HEADER = ("From Coq Require Import ZArith List String.\n"
          "Require Import Cherab.Model.C06_Repo Cherab.Model.C06_Check.\n"
          "Import ListNotations.\nOpen Scope string_scope.\nOpen Scope Z_scope.\n"
          "Definition R : path := [\"repo\"].\n"
          "Definition Sp (s : string) (z : Z) : species := {| sym := s; znum := z; is_elem := true |}.\n"
          "Definition NoEl : species := {| sym := \"x\"; znum := 0; is_elem := false |}.\n")


# ---------------------------------------------------------------------------------------------
def classify(h):
    """distribution data of one history"""
    d = {"calls": len(h["calls"]), "styles": {}, "families": {}, "rejectable": 0, "default_root_calls": 0, "alias": 0,
         "empty_group": 0, "npkeys": 0, "repo_forms": {}, "bad_kinds": {}, "derived": dict(h.get("derived", {}))}
    seen = {}
    for c in h["calls"]:
        d["styles"][c["style"]] = d["styles"].get(c["style"], 0) + 1
        name = c["install"] if c["style"] == "install" else c["fam"]
        d["families"][name] = d["families"].get(name, 0) + 1
        d["npkeys"] += 1 if c.get("npkeys") else 0
        d["repo_forms"][str(c["repo"])] = d["repo_forms"].get(str(c["repo"]), 0) + 1
        lv = call_leaves(c)
        for _, _, _, lf, _ in lv:
            if lf.get("bad"):
                d["bad_kinds"][lf["bad"]] = d["bad_kinds"].get(lf["bad"], 0) + 1
        if any(lf["bad"] is not None or not keys_valid(fam, keys) for _, fam, keys, lf, _ in lv):
            d["rejectable"] += 1
        if not is_given(c["repo"]):
            d["default_root_calls"] += 1
        if not lv:
            d["empty_group"] += 1
        for given, fam, keys, lf, _ in lv:
            nk = normkey(given, fam, keys)
            raw = (given, fam, keys)
            if nk in seen and raw not in seen[nk]:
                d["alias"] += 1
            seen.setdefault(nk, set()).add(raw)
    d["overwrites"] = sum(max(0, n - 1) for n in _count_writes(h).values())
    return d


def _count_writes(h):
    cnt = {}
    for c in h["calls"]:
        for given, fam, keys, lf, _ in call_leaves(c):
            nk = normkey(given, fam, keys)
            cnt[nk] = cnt.get(nk, 0) + 1
    return cnt


TIE_V = """(* generated: the tables regenerated from the source coincide with the model's (checked by computation in the kernel) *)
From Coq Require Import ZArith List Bool String.
Require Import Cherab.Model.C06_Repo Cherab.Model.C06_Spec Cherab.Model.C06_Tables Cherab.Gen.C06.Source.
Lemma paths_tie : list_eqb path_entry_eqb src_paths model_paths = true.
Proof. vm_compute. reflexivity. Qed.
Lemma routes_tie : list_eqb route_eqb src_routes model_routes = true.
Proof. vm_compute. reflexivity. Qed.
Lemma consts_tie : list_eqb const_eqb src_consts model_consts = true.
Proof. vm_compute. reflexivity. Qed.
Lemma shift_tie : forallb (shift_agrees src_shifted_types) model_adf11_types = true.
Proof. vm_compute. reflexivity. Qed.
"""


def translator_tie(ctx, repo):
    """path templates, delegation routes and constants are regenerated from the source and compared with the model's
    tables by coqc (Gen/C06/Source.v, Tie.v)"""
    try:
        paths, routes, consts, _ = c06_translate.extract(repo)
    except (c06_translate.TranslateError, SyntaxError, OSError, KeyError, IndexError, AttributeError, ValueError) as e:
        ctx.obligation("translator: tables regenerated from cherab/openadas (fail-closed)", "tie", False, repr(e))
        return {}
    info = {"path_templates": len(paths), "routes": len(routes), "constants": len(consts)}
    src = ctx.write_gen("Source.v", c06_translate.to_coq(paths, routes, dict(consts)))
    tie = ctx.write_gen("Tie.v", TIE_V)
    ok, out = coqc(src, timeout=300)
    if ok:
        ok, out = coqc(tie, timeout=300)
    which = ""
    if not ok:
        import re as _re
        m = _re.search(r'Tie.v", line (\d+)', out)
        if m:
            ln = int(m.group(1))
            which = [l for l in TIE_V.splitlines()[:ln] if l.startswith("Lemma")][-1].split()[1]
    ctx.obligation("Gen tie Tie.v: paths_tie (%d templates of writers and readers), routes_tie (%d delegations with repository_path), "
                   "consts_tie (%d), shift_tie" % (len(paths), len(routes), len(consts) - 1), "tie", ok,
                   ("first failing lemma: %s\n" % which) + out[-1200:] + "\nsource tables:\n" + c06_translate.to_coq(paths, routes, dict(consts))[-2500:]
                   if not ok else "")
    return info


# ---------------------------------------------------------------------------------------------
# the JSON layer: the files on disk against the token-level printer / reader of Model/C06_Json.v
# ---------------------------------------------------------------------------------------------
import re as _re
import struct as _struct
_TOK = _re.compile(r'\s*(?:(?P<p>[{}\[\],:])|(?P<s>"(?:[^"\\\\]|\\\\.)*")|(?P<n>-?Infinity|NaN|-?\d[0-9.eE+-]*))')
_PUNCT = {"{": "TLBrace", "}": "TRBrace", "[": "TLBrack", "]": "TRBrack", ",": "TComma", ":": "TColon"}


class _Ids:
    def __init__(self):
        self.d = {}

    def __call__(self, x):
        b = _struct.pack("<d", float(x))
        if b not in self.d:
            self.d[b] = len(self.d) + 1
        return self.d[b]


def json_tokens(text, ids):
    out, pos = [], 0
    text = text.rstrip()
    while pos < len(text):
        m = _TOK.match(text, pos)
        if not m:
            raise ValueError("lexer: unexpected text at %d: %r" % (pos, text[pos:pos + 20]))
        pos = m.end()
        if m.group("p"):
            out.append(_PUNCT[m.group("p")])
        elif m.group("s"):
            out.append("TStr %s" % coq_string(json.loads(m.group("s"))))
        else:
            out.append("TNum %d" % ids(float(m.group("n").replace("Infinity", "inf").replace("NaN", "nan"))))
    return out


def jv_of(x, ids, order=None):
    """Python value -> Coq jv text; numbers become ids; `order` sorts the members of a dictionary (None: keep as is)"""
    if isinstance(x, dict):
        keys = list(x) if order is None else sorted(x, key=order)
        return "JObj [%s]" % "; ".join("(%s, %s)" % (coq_string(str(k)), jv_of(x[k], ids, order)) for k in keys)
    if isinstance(x, (list, tuple)):
        return "JArr [%s]" % "; ".join(jv_of(y, ids, order) for y in x)
    if isinstance(x, np.ndarray):
        return jv_of(x.tolist(), ids, order)
    return "JNum %d" % ids(x)


def _leaf_depth(parts):
    """how many dictionary levels of a repository file lie above the rate dictionaries"""
    if parts[:2] == ["beam", "cx"]:
        return 2
    if parts[:2] in (["beam", "stopping"], ["beam", "population"]):
        return 0
    return 1


def collect_json(w, h, limit):
    """-> Coq definitions 'check_file written loaded tokens' for the files the history left on disk"""
    by_canon = {}
    for c in h["calls"]:
        for given, fam, keys, leaf, inst in call_leaves(c):
            g = gen_leaf(DATAKIND[fam], leaf, inst)
            if g[1] is not None:
                e = g[2]
                if fam in ADF11 or fam == "tcx":
                    e = {("rate" if k == "rates" else k): v for k, v in e.items()}
                by_canon[g[1]] = e
    out = []
    for f in w.listing():
        if len(out) >= limit:
            break
        base = w.repo if f[0] == "repo" else os.path.join(w.home, ".cherab", "openadas", "repository")
        rel = f[1:] if f[0] == "repo" else f[4:]
        text = open(os.path.join(base, *rel)).read()
        ids = _Ids()
        toks = json_tokens(text, ids)
        if len(toks) > 2500:
            continue
        loaded = json.loads(text)
        depth = _leaf_depth(rel)

        def written(x, d, wvl=(rel[0] == "wavelength")):
            if d == 0:
                if wvl:
                    return by_canon.get(canon(x), "MISSING")
                return by_canon.get(canon(x), {"MISSING": 0.0})
            return {k: written(v, d - 1) for k, v in x.items()}
        wr = written(loaded, depth)
        # sort_keys=True: str keys in code-point order; the metastables of beam CX are ints when they are sorted
        order = (lambda k: (0, int(k), "") if (depth == 2 and str(k).lstrip("-").isdigit()) else (1, 0, str(k)))
        out.append("check_file (%s) (%s) [%s]" % (jv_of(wr, ids, order), jv_of(loaded, ids), "; ".join(toks)))
    return out


def probe_corrupted(w, rng, n_cuts):
    """a repository file cut short by something outside the code (disk full, killed process): the recorded behaviour of
    the unchanged readers and writers is the expected outcome - get_* raise json.JSONDecodeError (not RuntimeError);
    the read-modify-write updaters raise it too and leave the file as it is; the whole-file writers of beam stopping
    replace it.  The model reader must reject the same texts.  -> (failures, Coq terms 'parse [...]' that must be None)"""
    rep_, P = w.repository, w.repo
    D, C = w.sp["deuterium"], w.sp["carbon"]
    fails, terms = [], []
    lf = lambda i: {"seed": 9100 + i, "bad": None}       # noqa: E731
    sc = [
        ("ionisation/c.json", lambda i: rep_.update_ionisation_rates({C: {1: gen_leaf("adf11", lf(i))[0], 2: gen_leaf("adf11", lf(i + 1))[0]}}, P),
         lambda: rep_.get_ionisation_rate(C, 1, P), lambda i: rep_.add_ionisation_rate(C, 3, gen_leaf("adf11", lf(i))[0], P), "rmw"),
        ("pec/excitation/c/5.json", lambda i: rep_.update_pec_rates({"excitation": {C: {5: {(3, 2): gen_leaf("pec", lf(i))[0], (4, 2): gen_leaf("pec", lf(i + 1))[0]}}}}, P),
         lambda: rep_.get_pec_excitation_rate(C, 5, (3, 2), P), lambda i: rep_.add_pec_excitation_rate(C, 5, (5, 2), gen_leaf("pec", lf(i))[0], P), "rmw"),
        ("beam/cx/d/c/6.json", lambda i: rep_.update_beam_cx_rates({D: {C: {6: {(8, 7): {0: gen_leaf("bcx", lf(i))[0], 1: gen_leaf("bcx", lf(i + 1))[0]}}}}}, P),
         lambda: rep_.get_beam_cx_rates(D, C, 6, (8, 7), P), lambda i: rep_.add_beam_cx_rate(D, 2, C, 6, (8, 7), gen_leaf("bcx", lf(i))[0], P), "rmw"),
        ("wavelength/c/5.json", lambda i: rep_.update_wavelengths({C: {5: {(3, 2): 656.1, (4, 2): 486.1}}}, P),
         lambda: rep_.get_wavelength(C, 5, (3, 2), P), lambda i: rep_.add_wavelength(C, 5, (5, 2), 434.0, P), "rmw"),
        ("beam/stopping/d/c/6.json", lambda i: rep_.add_beam_stopping_rate(D, C, 6, gen_leaf("beam", lf(i))[0], P),
         lambda: rep_.get_beam_stopping_rate(D, C, 6, P), lambda i: rep_.add_beam_stopping_rate(D, C, 6, gen_leaf("beam", lf(i))[0], P), "overwrite"),
    ]
    for si, (rel, write, read, update, kind) in enumerate(sc):
        for ci in range(n_cuts):
            w.reset()
            write(10 * si)
            path = os.path.join(P, rel)
            text = open(path).read()
            cut = rng.randint(max(1, len(text) // 4), len(text) - 3)
            open(path, "w").write(text[:cut])
            where = {"file": rel, "cut_at": cut, "of": len(text)}
            try:
                toks = json_tokens(text[:cut], _Ids())
                terms.append("match parse [%s] with None => 0%%Z | Some _ => 1%%Z end" % "; ".join(toks))
            except ValueError:
                pass            # cut inside a token: not a token sequence at all
            for what, fn in (("read", read), ("update", lambda: update(10 * si + 5))):
                before = open(path).read()
                try:
                    fn()
                    got = "returned"
                except Exception as e:      # noqa: BLE001 - the kind is what is recorded
                    got = type(e).__name__
                want = "returned" if (kind == "overwrite" and what == "update") else "JSONDecodeError"
                if got != want:
                    fails.append(dict(where, claim="corrupted file: %s %s, expected %s" % (what, got, want)))
                if what == "update" and kind == "rmw" and open(path).read() != before:
                    fails.append(dict(where, claim="corrupted file: the rejected update changed the file"))
            if kind == "overwrite":
                try:
                    read()
                except Exception as e:      # noqa: BLE001
                    fails.append(dict(where, claim="corrupted file: not readable after the whole-file writer replaced it (%s)" % type(e).__name__))
    w.reset()
    return fails, terms


JSON_HEADER = ("From Coq Require Import ZArith List String.\nRequire Import Cherab.Model.C06_Json.\nImport ListNotations.\n"
               "Open Scope string_scope.\nOpen Scope positive_scope.\n")


def registry_check(ctx):
    """assumptions of the model about species symbols, checked on the whole element registry"""
    from cherab.core.atomic import elements, Element
    objs = {}
    for n in dir(elements):
        o = getattr(elements, n)
        if isinstance(o, Element):
            objs[id(o)] = o
    # the property's key is the species *symbol* (hydrogen and its isotope protium share 'H' and are one key);
    # what the model needs is that lower() does not merge two different symbols
    syms = sorted({o.symbol for o in objs.values()})
    low = [s.lower() for s in syms]
    bad = [s for s in syms if "/" in s or os.sep in s or s in ("", ".", "..") or not s.isascii()]
    dup = sorted({s for s in low if low.count(s) > 1})
    ctx.obligation("element registry: %d distinct symbols are ASCII, slash-free and stay distinct after lower()" % len(syms), "tie",
                   not bad and not dup, "bad=%s dup=%s" % (bad[:5], dup[:5]))
    return len(syms)


def run(ctx):
    ctx.trusted += [
        "Coq 8.16.1 kernel, vm_compute (no native_compute)",
        "harness/c06.py: history generator, value identification by array.tobytes(), Coq literal printer, the comparator Model/C06_Check.v",
        "CPython json (float <-> text round trip), open/os.makedirs/os.path.join, dict iteration order: not modelled, exercised bit for bit",
        "the ADF parsers (property C08) are replaced by stubs when the install_* front ends are exercised",
    ]
    ctx.assumptions += [
        "the UPPER level of a transition does not contain the character '>' (the lower level is unrestricted; "
        "C06_arrow_alias_witness shows the hypothesis cannot be dropped); species symbols are distinct "
        "after lower() and contain no path separator (checked on the element registry at every run)",
        "repositories addressed in one history are equal or cannot share a file (no repository nested inside another one)",
        "charges / metastables are ints (or numpy integers where they only go into file names), levels are int or str; an argument "
        "that is not an Element is modelled (TypeError) for every update function except as the thermal-CX donor and in the read functions",
        "for beam CX the read function returns all metastables of a transition: 'RuntimeError' for a (..., metastable) key means the "
        "transition is missing or the metastable is absent from the returned list",
    ]
    ctx.rebuild()
    ctx.proofs("Properties.C06", THEOREMS, extra_modules=("Model.C06_Check", "Proofs.C06_Check", "Model.C06_Tables", "Model.C06_Json"))

    import cherab
    from common import REPO
    assert list(cherab.__path__) == [REPO + "/cherab"], cherab.__path__
    n_syms = registry_check(ctx)
    tie_info = translator_tie(ctx, REPO)
    w = World(os.environ["VERIF_SCRATCH"])
    rng = ctx.rng
    quick = ctx.quick

    # ---- histories: corpus first, then generated -------------------------------------------------
    hist = []
    for p in sorted(glob.glob(os.path.join(VERIF, "corpus", "C06", "*.json"))):
        hh = json.load(open(p))
        hh["origin"] = os.path.basename(p)
        hist.append(hh)
    n_corpus = len(hist)
    n_gen = 140 if quick else 1500
    if ctx.replay:
        # bin/check C06 quick --replay file : only the history stored in the replay
        rp = json.load(open(ctx.replay))["replay"]
        hh = rp.get("history")
        if hh:
            for c in hh["calls"]:
                for lf in call_leaves(c):
                    lf[3].pop("id", None)
            hist, n_corpus, n_gen = [dict(hh, origin=os.path.basename(ctx.replay))], 0, 0
    g = Gen(rng, quick)
    for _ in range(n_gen):
        hist.append(g.history())
    cap = 45 if quick else 70

    # ---- second-order entry points: create.populate; rejections after the file was opened -------------
    pop_h, pop_after, pop_info = populate_stage(ctx, w, rng, cap)
    if not ctx.replay:
        hist.insert(0, pop_h)
    corrupt_fails, corrupt_terms = probe_corrupted(w, rng, 2 if quick else 8)
    for cf in corrupt_fails[:3]:
        ctx.violation("c06:corrupted-file:" + cf["claim"][:60].replace(" ", "_"), cf["claim"], cf, found=True)
    probe = probe_rejected_after_open(w)
    if probe:
        ctx.violation("c06:truncated-by-rejected-write:" + "+".join(sorted(p["scenario"] for p in probe)),
                      "a call rejected while its file is being written (TypeError from json.dump after open(path, 'w')) leaves the file "
                      "truncated: keys stored before are no longer readable (JSONDecodeError)", {"scenarios": probe}, found=True)

    cases, all_fails, dist = [], [], []
    json_cases, json_limit = [], (80 if quick else 400)
    for hi, h in enumerate(hist):
        queries = h.get("queries") or queries_for(h, rng, cap)
        trace, files, fails = run_history(w, h, queries)
        if len(json_cases) < json_limit and not fails and h.get("origin") != "create.populate":
            json_cases += collect_json(w, h, min(8, json_limit - len(json_cases)))
        if h.get("origin") == "create.populate" and not fails:
            fails = [dict(f, call_index=len(h["calls"]) - 1, call={"style": "populate", "fam": "create"}) for f in pop_after()]
        cases.append((hi, h, queries, trace, files))
        dist.append(classify(h))
        if hi and hi % 250 == 0:
            ctx.log("  ... %d histories executed" % hi)
        for f in fails:
            f["history_index"] = hi
            f["history"] = {"universe": h["universe"], "calls": h["calls"][:f.get("call_index", len(h["calls"]) - 1) + 1]}
            all_fails.append(f)
    w.reset()
    ctx.log("implementation: %d histories, %d calls, %d reads; property failures: %d" % (
        len(hist), sum(len(t) for _, _, _, t, _ in cases), sum(len(t) * len(q) for _, _, q, t, _ in cases), len(all_fails)))

    # ---- correspondence: the model is run by Coq on every history --------------------------------
    per_file = 13 if quick else 50
    files_ids = []
    for si in range(0, len(cases), per_file):
        chunk = cases[si:si + per_file]
        txt = HEADER + "".join(c_case(hi, h, q, t, f) for hi, h, q, t, f in chunk)
        txt += "Eval vm_compute in [%s].\n" % "; ".join("case_%d" % hi for hi, _, _, _, _ in chunk)
        files_ids.append((ctx.write_gen("cases_%03d.v" % (si // per_file), txt), [hi for hi, _, _, _, _ in chunk]))
    json_files = []
    for si in range(0, len(json_cases), 40):
        chunk = json_cases[si:si + 40]
        json_files.append((ctx.write_gen("json_%03d.v" % (si // 40), JSON_HEADER + "Eval vm_compute in [\n  " + ";\n  ".join(chunk) + "].\n"), len(chunk)))
    trunc_file = ctx.write_gen("json_truncated.v", JSON_HEADER + "Eval vm_compute in [\n  " + ";\n  ".join(corrupt_terms) + "].\n")
    res = coqc_many([f for f, _ in files_ids] + [f for f, _ in json_files] + [trunc_file], timeout=1500)
    ok, out = res[trunc_file]
    vals = parse_evals(out) if ok else []
    codes = parse_zlist(vals[0]) if ok and len(vals) == 1 else []
    ctx.obligation("JSON layer: the model reader rejects %d truncated repository files (the implementation raises JSONDecodeError on "
                   "all of them)" % len(corrupt_terms), "correspondence", ok and len(codes) == len(corrupt_terms) and not any(codes) and not corrupt_fails,
                   out[-600:] if not ok else "codes %s; implementation deviations %s" % (codes, corrupt_fails[:2]))
    json_bad = 0
    for f, n in json_files:
        ok, out = res[f]
        vals = parse_evals(out) if ok else []
        codes = parse_zlist(vals[0]) if ok and len(vals) == 1 else []
        good = ok and len(codes) == n and not any(codes)
        json_bad += 0 if good else 1
        ctx.obligation("JSON layer %s (%d repository files: model printer = file tokens, model reader = json.load = what was written)"
                       % (os.path.basename(f), n), "correspondence", good, out[-800:] if not ok else "codes %s" % codes)
    diffs = []
    for f, ids in files_ids:
        ok, out = res[f]
        vals = parse_evals(out) if ok else []
        good = ok and len(vals) == 1
        codes = parse_zlist(vals[0]) if good else []
        good = good and len(codes) == len(ids)
        bad = [(hi, code) for hi, code in zip(ids, codes) if code != 0]
        ctx.obligation("correspondence %s (%d histories)" % (os.path.basename(f), len(ids)), "correspondence",
                       good and not bad, out[-1500:] if not good else "DIFF (history, code) %s" % bad[:10])
        if not good:
            ctx.broken.append("coqc failed on %s: %s" % (f, out[-600:]))
        diffs += bad
    ctx.log("correspondence: %d histories in %d files, %d disagree" % (len(cases), len(files_ids), len(diffs)))

    # ---- failing-input search results ------------------------------------------------------------
    ctx.obligation("executable property on the implementation (%d histories)" % len(hist), "search", not all_fails,
                   json.dumps(all_fails[:2], default=str)[:1800])
    seen_keys = set()
    for f in all_fails:
        c = f.get("call", {})
        name = (c.get("install") if c.get("style") == "install" else c.get("fam")) or "?"
        key = "c06:%s:%s:%s" % (c.get("style", "?"), name, f["claim"][:48].replace(" ", "_"))
        if key in seen_keys or len(seen_keys) >= 6:
            continue
        seen_keys.add(key)
        f = minimise(w, f)
        ctx.violation(key, "%s (%s %s)" % (f["claim"], c.get("style"), name), f, found=True)
    if diffs and not all_fails:
        for hi, code in diffs[:3]:
            _, h, q, t, fl = cases[hi]
            step = code // 1000 - 1
            ctx.violation("c06-diff:%d" % (code % 1000),
                          "model and implementation disagree (code %d: call %d, %s); the executable property found no failing input"
                          % (code, step, {1: "outcome", 2: "reads", 3: "files"}.get(code % 1000, "?")),
                          {"history": {"universe": h["universe"], "calls": h["calls"][:max(step, 0) + 1]}, "impl_trace": t[:max(step, 0) + 1],
                           "impl_files": fl, "queries": q, "correspondence": "coq/Gen/C06/cases_*.v case_%d" % hi}, found=False)

    # ---- coverage ---------------------------------------------------------------------------------
    fam_tot, style_tot = {}, {}
    extra_tot = {"repo_forms": {}, "bad_kinds": {}, "derived": {}}
    for d in dist:
        for name in extra_tot:
            for k, v in d[name].items():
                extra_tot[name][k] = extra_tot[name].get(k, 0) + v
        for k, v in d["families"].items():
            fam_tot[k] = fam_tot.get(k, 0) + v
        for k, v in d["styles"].items():
            style_tot[k] = style_tot.get(k, 0) + v
    n_calls = sum(d["calls"] for d in dist)
    rejected = sum(1 for _, _, _, t, _ in cases for oc, _ in t if oc == 1)
    rejected_type = sum(1 for _, _, _, t, _ in cases for oc, _ in t if oc == 3)
    def shape_of(h):
        # a history without the leaf seeds / ids: two histories are distinct when they differ in calls, keys or validity
        return json.dumps([{k: v for k, v in c.items()} for c in h["calls"]], sort_keys=True, default=str)
    nontrivial = len({shape_of(h) for h, d in zip(hist, dist)
                      if d["overwrites"] and (d["alias"] or d["rejectable"] or d["default_root_calls"])})
    ctx.coverage.update({
        "evaluations": len(hist),
        "distinct_nontrivial": nontrivial,
        "rule": "one case = one history (4-%d calls) executed on the real functions in a fresh repository, every key of the history's "
                "universe (%d at most: keys given, alias spellings, sibling families, neighbouring charges/species/roots, never-written keys) "
                "read back after every call; non-trivial = at least one key written twice and at least one of: alias spelling of a "
                "transition, rejectable call, call without repository_path" % (14 if quick else 30, cap),
        "distribution": {"histories": len(hist), "corpus": n_corpus, "calls": n_calls, "calls_by_style": style_tot,
                         "calls_by_family_or_front_end": fam_tot, "calls_rejected_by_implementation": rejected, "calls_rejected_with_TypeError(non-Element argument / unserialisable entry)": rejected_type,
                         "calls_with_invalid_leaf": sum(d["rejectable"] for d in dist),
                         "calls_without_repository_path": sum(d["default_root_calls"] for d in dist),
                         "alias_rewrites": sum(d["alias"] for d in dist), "overwrites": sum(d["overwrites"] for d in dist),
                         "calls_with_empty_dictionary": sum(d["empty_group"] for d in dist),
                         "calls_with_numpy_integer_keys": sum(d["npkeys"] for d in dist),
                         "repository_path_forms": extra_tot["repo_forms"], "invalid_leaf_kinds": extra_tot["bad_kinds"],
                         "derived_calls(repeat/rewrite/toggle/respell/reroute)": extra_tot["derived"],
                         "reads": sum(len(t) * len(q) for _, _, q, t, _ in cases), "registry_symbols": n_syms,
                         "json_files_compared_token_by_token": len(json_cases), "truncated_files_probed": len(corrupt_terms),
                         "create.populate": pop_info, "tables_regenerated_from_source": tie_info, "rejected_after_open_probe": {"scenarios": 3, "failing": [p["scenario"] for p in probe]}},
        "tolerance": "none. In Python: values bit for bit (float64 tobytes, shape, entry names) -> value ids. Inside Coq (vm_compute, "
                     "Model/C06_Check.v:check_seq, soundness C06_check_seq_sound), exactly: per call the outcome (returned / ValueError; the model "
                     "decides validity itself from the charges, metastables and the numpy shapes of every array of every leaf), after every call the "
                     "value id or RuntimeError under every key of the universe, at the end the set of files. Kernel-checked tie lemmas "
                     "(Gen/C06/Tie.v): 26 path templates with argument roles of all writers and readers, 42 delegation routes with "
                     "repository_path hand-over, default path, encode_transition format and case folding, valid_classes, valid_charge and "
                     "metastable guards, ADF11 charge-shift types, ADF15 thermal-CX target",
        "partial": ["install_* front ends are exercised from the parsed data on (stub parsers); the parsers are property C08",
                    "TypeError of the update functions for non-Element arguments and for non-serialisable beam stopping / population "
                    "dictionaries IS modelled (third outcome); not modelled: non-Element arguments of the read functions and of the "
                    "thermal-CX donor (never checked by the code), numpy-integer beam-CX metastables (accepted iff the metastable already "
                    "exists in the file: state-dependent)",
                    "JSON layer: numbers are opaque tokens (repr/float round trip is CPython's), white space is not modelled, sorted member "
                    "order is checked on the files; corrupted files: recorded behaviour checked by probes, no prefix theorem",
                    "os.path.join itself is not modelled; that joining the model's components with '/' is injective for slash-free "
                    "symbols is proved (C06_flatten_injective, C06_file_names_injective) and the path templates are regenerated from "
                    "the source and compared with the model's in the kernel (Gen/C06/Tie.v)",
                    "numpy-integer metastables of beam CX are kept out of the histories: they hit the known finding "
                    "'truncated-by-rejected-write' (probed separately on every run)"],
    })
    ctx.coverage["samples"] = [{"calls": cases[0][1]["calls"][:2], "impl_trace": cases[0][3][:2]},
                               {"calls": cases[-1][1]["calls"][:1], "queries": [list(map(str, q)) for q in cases[-1][2][:5]]}]
    ctx.grep_gate()


def minimise(w, f):
    """drop calls of the failing history while the same claim still fails"""
    if "history" not in f or f.get("call", {}).get("style") == "populate":
        return f
    calls = f["history"]["calls"]
    budget = [60]
    h = {"universe": f["history"]["universe"], "calls": calls}
    claim = f["claim"]

    def still(cs):
        hh = {"universe": h["universe"], "calls": copy.deepcopy(cs)}
        budget[0] -= 1
        qs = queries_for(hh, random.Random(0), 150)
        if f.get("query") is not None and tuple(f["query"]) not in [tuple(q) for q in qs]:
            qs.append(tuple(f["query"]))
        _, _, fl = run_history(w, hh, qs)
        return [x for x in fl if x["claim"] == claim]
    cur = list(calls)
    i = 0
    while i < len(cur) - 1 and len(cur) > 1 and budget[0] > 0:
        trial = cur[:i] + cur[i + 1:]
        if still(trial):
            cur = trial
        else:
            i += 1
    got = still(cur)
    if got:
        g = got[0]
        g["history"] = {"universe": h["universe"], "calls": cur}
        g.pop("call", None)
        return g
    return f
