"""C20 -- Grid derivative and ADMT operators (cherab/tools/inversions/admt_utils.py).

Theorems: coq/Properties/C20.v (all grid sizes, all cells, all jets).
Tie: correspondence -- the real generate_derivative_operators / calculate_admt are run on
rectangular grids; every matrix row is compared inside Coq with the model's row.
Search: the executable statement of the property on the implementation.
"""
import itertools
import math
import os
from fractions import Fraction

import numpy as np

from common import qlit, qlist, zlit, dyadic, coqc_many, parse_evals, parse_zlist, frac

THEOREMS = ["C20_rows_act_through_their_coefficients", "C20_ops_annihilate_constants", "C20_first_derivatives_exact_on_linear",
            "C20_mixed_exact_on_bilinear", "C20_second_exact_on_quadratic_interior",
            "C20_second_derivative_boundary_rows_are_one_sided", "C20_first_and_mixed_exact_on_quadratic_interior",
            "C20_rows_stay_in_grid", "C20_admt_is_divergence_form",
            "C20_admt_annihilates_constants", "C20_admt_isotropic_is_laplacian",
            "C20_admt_exact_on_quadratics_interior", "C20_spacing_inferred_correctly"]

OFFS = [(-1, -1), (-1, 0), (-1, 1), (0, -1), (0, 0), (0, 1), (1, -1), (1, 0), (1, 1)]
OPS = ["Dx", "Dy", "Dxx", "Dyy", "Dxy"]


# ---------------------------------------------------------------------------------------------
# grids
# ---------------------------------------------------------------------------------------------
def make_grid(nx, ny, x0, y0, dx, dy, perm):
    """Rectangular grid of equal voxels.  Cell (ix, iy) has centre (x0 + ix dx, y0 - iy dy);
    `perm` maps the column-major position ix*ny+iy to the 1-D voxel index (any bijection)."""
    n = nx * ny
    verts = np.zeros((n, 4, 2))
    m12, m21 = {}, {}
    for ix in range(nx):
        for iy in range(ny):
            k = perm[ix * ny + iy]
            cx, cy = x0 + ix * dx, y0 - iy * dy
            verts[k] = [[cx - dx / 2, cy + dy / 2], [cx + dx / 2, cy + dy / 2],
                        [cx + dx / 2, cy - dy / 2], [cx - dx / 2, cy - dy / 2]]
            m12[k] = (ix, iy)
            m21[(ix, iy)] = k
    return verts, m12, m21


def row_to_offsets(row, ix, iy, m21, nx, ny):
    """nine coefficients in OFFS order + the list of non-zero entries that are not neighbours"""
    co = []
    used = set()
    for a, b in OFFS:
        k = m21.get((ix + a, iy + b))
        if k is None:
            co.append(0.0)
        else:
            co.append(float(row[k]))
            used.add(k)
    stray = [(int(k), float(row[k])) for k in np.nonzero(row)[0] if int(k) not in used]
    return co, stray


def spacing_inferable(nx, ny, perm):
    """generate_derivative_operators infers dx, dy as the smallest non-zero difference between the centres of
    CONSECUTIVE voxels of the 1-D list (documented assumption: voxels listed column by column).  A numbering in
    which no two consecutive voxels are neighbours in x (or in y) is outside that assumption."""
    inv = [None] * (nx * ny)
    for pos, k in enumerate(perm):
        inv[k] = (pos // ny, pos % ny)
    okx = any(abs(inv[k][0] - inv[k + 1][0]) == 1 for k in range(nx * ny - 1))
    oky = any(abs(inv[k][1] - inv[k + 1][1]) == 1 for k in range(nx * ny - 1))
    return okx and oky


def gen_perm(rng, nx, ny):
    """1-D numbering of the voxels: the documented column-major order, or a random bijection from which the
    spacings can still be inferred"""
    perm = list(range(nx * ny))
    if rng.random() < 0.3:
        return perm
    for _ in range(50):
        rng.shuffle(perm)
        if spacing_inferable(nx, ny, perm):
            return perm
    return list(range(nx * ny))


def gen_grid_params(rng, exact):
    if exact:
        dx = 2.0 ** rng.choice([-20, -9, -4, -3, -2, -1, 0, 1, 2, 7])
        dy = 2.0 ** rng.choice([-20, -9, -4, -3, -2, -1, 0, 1, 2, 7])
        x0 = dyadic(rng, 1, 8, 4)
        y0 = dyadic(rng, -4, 4, 4)
    else:
        dx = rng.uniform(0.01, 2.0)
        dy = rng.uniform(0.01, 2.0)
        x0 = rng.uniform(1.0, 8.0)
        y0 = rng.uniform(-4.0, 4.0)
    return x0, y0, dx, dy


# ---------------------------------------------------------------------------------------------
# executable statement of the property on the implementation (failing-input search)
# ---------------------------------------------------------------------------------------------
class Dual:
    """forward-mode AD over Fractions: value, d/dx, d/dy"""
    __slots__ = ("v", "dx", "dy")

    def __init__(self, v, dx=0, dy=0):
        self.v, self.dx, self.dy = Fraction(v), Fraction(dx), Fraction(dy)

    @staticmethod
    def lift(o):
        return o if isinstance(o, Dual) else Dual(o)

    def __add__(self, o):
        o = Dual.lift(o)
        return Dual(self.v + o.v, self.dx + o.dx, self.dy + o.dy)
    __radd__ = __add__

    def __sub__(self, o):
        o = Dual.lift(o)
        return Dual(self.v - o.v, self.dx - o.dx, self.dy - o.dy)

    def __mul__(self, o):
        o = Dual.lift(o)
        return Dual(self.v * o.v, self.dx * o.v + self.v * o.dx, self.dy * o.v + self.v * o.dy)
    __rmul__ = __mul__

    def __truediv__(self, o):
        o = Dual.lift(o)
        return Dual(self.v / o.v, (self.dx * o.v - self.v * o.dx) / (o.v * o.v),
                    (self.dy * o.v - self.v * o.dy) / (o.v * o.v))


def quad_eval(c, x, y):
    a, b, cc, d, e, g = c
    return a + b * x + cc * y + d * x * x + e * x * y + g * y * y


def exact_div_D_grad(cpsi, cf, aniso, x, y):
    """div(D grad f) in cylindrical geometry at (x, y) for quadratic psi and f, exactly (Fractions).
    D = Dperp n n^T + Dpar t t^T, n = grad psi/|grad psi|, Dpar = 1, Dperp = 1/aniso."""
    X, Y = Dual(x, 1, 0), Dual(y, 0, 1)
    _, b, c, d, e, g = [Fraction(v) for v in cpsi]
    psx = b + 2 * d * X + e * Y
    psy = c + e * X + 2 * g * Y
    _, fb, fc, fd, fe, fg = [Fraction(v) for v in cf]
    fx = fb + 2 * fd * X + fe * Y
    fy = fc + fe * X + 2 * fg * Y
    dperp, dpar = Fraction(1) / Fraction(aniso), Fraction(1)
    N = psx * psx + psy * psy
    Dxx = (dperp * psx * psx + dpar * psy * psy) / N
    Dyy = (dperp * psy * psy + dpar * psx * psx) / N
    Dxy = (dperp - dpar) * psx * psy / N
    flux_x = X * (Dxx * fx + Dxy * fy)       # R * radial flux
    flux_y = Dxy * fx + Dyy * fy
    return flux_x.dx / Fraction(x) + flux_y.dy


def search_stencil(admt_utils, nx, ny, x0, y0, dx, dy, perm, rng):
    """apply the operators to constant / linear / bilinear / quadratic fields with dyadic
    coefficients; returns a list of failures (empty = property holds on this grid)"""
    verts, m12, m21 = make_grid(nx, ny, x0, y0, dx, dy, perm)
    ops = admt_utils.generate_derivative_operators(verts, m12, m21)
    n = nx * ny
    X = np.zeros(n)
    Y = np.zeros(n)
    for k, (ix, iy) in m12.items():
        X[k], Y[k] = x0 + ix * dx, y0 - iy * dy
    fails = []
    co = [dyadic(rng, -4, 4, 3) for _ in range(6)]
    a, b, c, d, e, g = co
    scale = 1 + max(abs(v) for v in co) * (1 + np.abs(X).max() + np.abs(Y).max()) ** 2
    tol = 1e-9 * scale / min(dx, dy) ** 2
    const = np.full(n, a)
    lin = a + b * X + c * Y
    bil = lin + e * X * Y
    quad = bil + d * X * X + g * Y * Y
    for name in OPS:
        r = ops[name] @ const
        if not np.all(np.abs(r) <= tol):
            fails.append({"claim": "constant field -> 0", "op": name, "cell": int(np.argmax(np.abs(r))),
                          "got": float(np.max(np.abs(r)))})
    for name, want in (("Dx", b), ("Dy", c)):
        r = ops[name] @ lin
        if not np.all(np.abs(r - want) <= tol):
            k = int(np.argmax(np.abs(r - want)))
            fails.append({"claim": "exact gradient of a linear field", "op": name, "cell2d": m12[k],
                          "got": float(r[k]), "want": want})
    r = ops["Dxy"] @ bil
    if not np.all(np.abs(r - e) <= tol):
        k = int(np.argmax(np.abs(r - e)))
        fails.append({"claim": "exact mixed derivative of a bilinear field", "op": "Dxy", "cell2d": m12[k],
                      "got": float(r[k]), "want": e})
    for name, want, interior in (("Dxx", 2 * d, lambda ix, iy: 0 < ix < nx - 1),
                                 ("Dyy", 2 * g, lambda ix, iy: 0 < iy < ny - 1)):
        r = ops[name] @ quad
        for k, (ix, iy) in m12.items():
            if interior(ix, iy) and abs(r[k] - want) > tol:
                fails.append({"claim": "second derivative exact on quadratics in interior cells", "op": name,
                              "cell2d": (ix, iy), "got": float(r[k]), "want": want})
                break
    for f in fails:
        f.update({"nx": nx, "ny": ny, "x0": x0, "y0": y0, "dx": dx, "dy": dy, "coeffs": co})
    return fails


def search_admt(admt_utils, nx, ny, x0, y0, dx, dy, perm, cpsi, aniso, rng):
    """(i) anisotropy 1 -> Laplacian + (1/R) d/dx, every cell; (ii) quadratic psi and quadratic f:
    the operator applied to f equals div(D grad f) exactly in interior cells; (iii) constants -> 0,
    all entries finite."""
    verts, m12, m21 = make_grid(nx, ny, x0, y0, dx, dy, perm)
    ops = admt_utils.generate_derivative_operators(verts, m12, m21)
    n = nx * ny
    X = np.zeros(n)
    Y = np.zeros(n)
    for k, (ix, iy) in m12.items():
        X[k], Y[k] = x0 + ix * dx, y0 - iy * dy
    psi = np.array([quad_eval(cpsi, X[k], Y[k]) for k in range(n)])
    fails = []
    info = {"nx": nx, "ny": ny, "x0": x0, "y0": y0, "dx": dx, "dy": dy, "cpsi": list(cpsi), "anisotropy": aniso}
    L = admt_utils.calculate_admt(X, ops, psi, dx, dy, anisotropy=aniso)
    if not np.all(np.isfinite(L)):
        fails.append(dict(info, claim="operator is finite"))
        return fails
    s = math.sqrt(dx * dy)
    mx = np.abs(L).max()
    r = L @ np.ones(n)
    if np.abs(r).max() > 1e-9 * mx:
        fails.append(dict(info, claim="annihilates constants", got=float(np.abs(r).max())))
    L1 = admt_utils.calculate_admt(X, ops, psi, dx, dy, anisotropy=1)
    ref = (ops["Dxx"] + ops["Dyy"] + np.diag(1.0 / X) @ ops["Dx"]) * s
    err = np.abs(L1 - ref).max()
    if not err <= 1e-8 * np.abs(ref).max():
        k = int(np.argmax(np.abs(L1 - ref).max(axis=1)))
        fails.append(dict(info, claim="anisotropy 1 reduces to Dxx + Dyy + Dx/R (times sqrt(dx dy))",
                          anisotropy=1, cell2d=m12[k], max_abs_diff=float(err)))
    cf = [dyadic(rng, -2, 2, 3) for _ in range(6)]
    f = np.array([quad_eval(cf, X[k], Y[k]) for k in range(n)])
    Lf = (L @ f) / s
    for k, (ix, iy) in m12.items():
        if 0 < ix < nx - 1 and 0 < iy < ny - 1:
            want = exact_div_D_grad([frac(v) for v in cpsi], [frac(v) for v in cf], frac(aniso), frac(X[k]), frac(Y[k]))
            scale = sum(abs(v) for v in np.abs(L[k])) * (np.abs(f).max() + 1) / s
            if abs(Lf[k] - float(want)) > 1e-9 * scale:
                fails.append(dict(info, claim="operator applied to a quadratic f equals div(D grad f) in interior cells "
                                              "for a quadratic flux map", cf=cf, cell2d=(ix, iy), got=float(Lf[k]),
                                  want=float(want)))
                break
    return fails


# ---------------------------------------------------------------------------------------------
def run(ctx):
    ctx.trusted += [
        "Coq 8.16.1 kernel, vm_compute (no native_compute)",
        "harness/c20.py: grid generator, matrix-row -> stencil conversion, Q literal printer, comparator in Model/C20_Check.v",
        "NumPy matmul/diag/sqrt and IEEE double rounding (compared under relative 2^-40 (stencils, non-dyadic), 2^-28 of the row maximum (ADMT)); "
        "dyadic stencil cases are compared exactly",
    ]
    ctx.assumptions += [
        "grid is a full rectangle of equal axis-aligned voxels; its 1-D numbering is the documented column-major order or any bijection in "
        "which some two consecutive voxels are neighbours in x and some two in y (the code infers dx, dy from consecutive centres; e.g. the "
        "column sequence 2,0,3,1 would make it infer 2 dx - outside the documented assumption, not generated)",
        "consistency of the ADMT discretisation is the algebraic identity with div(D grad f) of the formal differential algebra "
        "in Model/C20_Admt.v (no convergence-in-the-limit statement is proved)",
    ]
    ctx.rebuild()
    ctx.proofs("Properties.C20", THEOREMS, extra_modules=("Model.C20_Check", "Proofs.C20_Check", "Proofs.C20_Source"))

    import cherab
    from common import REPO
    assert list(cherab.__path__) == [REPO + "/cherab"], cherab.__path__
    from cherab.tools.inversions import admt_utils

    # ---- source tie: the per-cell program of generate_derivative_operators, translated from the current source,
    # has the model's coefficients for EVERY grid size and cell (kernel-checked by case analysis) -------------------
    import c20_translate
    from common import coqc
    try:
        src_txt, src_summary = c20_translate.translate(REPO)
        path = ctx.write_gen("Source.v", src_txt)
        ok_src, out_src = coqc(path)
        ok_src = ok_src and "Closed under the global context" in out_src
        ctx.coverage["source_tie"] = src_summary
    except c20_translate.TranslateError as e:
        ok_src, out_src = False, "translator (fail-closed): %s" % e
    ctx.obligation("Gen/C20/Source.v: generate_derivative_operators translated from the source has the model's stencil coefficients "
                   "and scalings for every grid size and cell (src_*_is_model, src_scale_is_model, closed under the global context)",
                   "tie", ok_src, out_src[-700:] if not ok_src else "")

    try:
        adm_txt, adm_summary = c20_translate.translate_admt(REPO)
        ok_adm, out_adm = coqc(ctx.write_gen("SourceAdmt.v", adm_txt))
        ok_adm = ok_adm and "Closed under the global context" in out_adm
        ctx.coverage["source_tie_admt"] = adm_summary
    except c20_translate.TranslateError as e:
        ok_adm, out_adm = False, "translator (fail-closed): %s" % e
    ctx.obligation("Gen/C20/SourceAdmt.v: the coefficient formulas, diffusivities and assembly of calculate_admt translated from the source "
                   "equal the model's for every jet with |grad psi| != 0 and R != 0 (src_*_is_model, src_admt_row_is_model)",
                   "tie", ok_adm, out_adm[-700:] if not ok_adm else "")

    rng = ctx.rng
    quick = ctx.quick
    # ---- stencil correspondence ---------------------------------------------------------------
    sizes = [(nx, ny) for nx in range(2, 7 if quick else 10) for ny in range(2, 7 if quick else 10)]
    cases = []       # text of Coq cases
    meta = []        # python-side description per case
    stray_fail = []
    boundary_classes = {}
    shared_params = {}
    n_shared_calls = 0
    for (nx, ny) in sizes:
        for exact in ((True,) if quick and (nx + ny) % 2 else (True, False)):
            # the result must not depend on earlier calls: grids of transposed shape (same number of cells) share their
            # voxel size, so anything the function remembered from one call would be handed to the other
            if exact and (ny, nx) in shared_params:
                x0, y0, dx, dy = shared_params[(ny, nx)]
                n_shared_calls += 1
            else:
                x0, y0, dx, dy = gen_grid_params(rng, exact)
                if exact:
                    shared_params[(nx, ny)] = (x0, y0, dx, dy)
            perm = gen_perm(rng, nx, ny)
            verts, m12, m21 = make_grid(nx, ny, x0, y0, dx, dy, perm)
            ops = admt_utils.generate_derivative_operators(verts, m12, m21)
            for ix in range(nx):
                for iy in range(ny):
                    k = m21[(ix, iy)]
                    rows = []
                    for name in OPS:
                        co, stray = row_to_offsets(ops[name][k], ix, iy, m21, nx, ny)
                        rows.append(co)
                        if stray:
                            stray_fail.append({"op": name, "nx": nx, "ny": ny, "cell2d": (ix, iy), "stray": stray[:4]})
                    cls = (ix == 0, ix == nx - 1, iy == 0, iy == ny - 1)
                    boundary_classes[cls] = boundary_classes.get(cls, 0) + 1
                    cases.append("check_stencil %s %s %s %s %s %s %s [%s]" % (
                        "true" if exact else "false", zlit(nx), zlit(ny), zlit(ix), zlit(iy), qlit(dx), qlit(dy),
                        "; ".join(qlist(r) for r in rows)))
                    meta.append({"kind": "stencil", "exact": exact, "nx": nx, "ny": ny, "ix": ix, "iy": iy,
                                 "x0": x0, "y0": y0, "dx": dx, "dy": dy, "perm": perm})
    n_stencil = len(cases)
    # ---- ADMT correspondence ------------------------------------------------------------------
    n_admt_grids = 12 if quick else 120
    admt_aniso = {}
    admt_scales = {}
    for gi in range(n_admt_grids):
        nx, ny = rng.randint(2, 5 if quick else 8), rng.randint(2, 5 if quick else 8)
        x0, y0, dx, dy = gen_grid_params(rng, quick or gi % 10 != 0)   # non-dyadic dx costs ~1 s per cell in Coq
        x0 += 1.0
        perm = gen_perm(rng, nx, ny)
        verts, m12, m21 = make_grid(nx, ny, x0, y0, dx, dy, perm)
        ops = admt_utils.generate_derivative_operators(verts, m12, m21)
        n = nx * ny
        X = np.zeros(n)
        Y = np.zeros(n)
        for k, (ix, iy) in m12.items():
            X[k], Y[k] = x0 + ix * dx, y0 - iy * dy
        ext = max(nx * dx, ny * dy)
        # flux map with non-vanishing gradient: dominant linear part + small curvature + small cubic
        b, c = rng.choice([-3, -2, 2, 3]), rng.choice([-3, -2, -1, 1, 2, 3])
        q = [dyadic(rng, -1, 1, 4) / (4 * ext) for _ in range(3)]
        cub = [dyadic(rng, -1, 1, 4) / (16 * ext * ext) for _ in range(2)]
        xm, ym = x0 + (nx - 1) * dx / 2, y0 - (ny - 1) * dy / 2
        psi = (b * (X - xm) + c * (Y - ym) + q[0] * (X - xm) ** 2 + q[1] * (X - xm) * (Y - ym) + q[2] * (Y - ym) ** 2
               + cub[0] * (X - xm) ** 3 + cub[1] * (X - xm) * (Y - ym) ** 2)
        # the operator does not depend on the units of the flux: scale psi over many decades (powers of two keep it exact)
        psi_scale = rng.choice([1.0, 2.0 ** -30, 2.0 ** -17, 2.0 ** -8, 2.0 ** 12, 2.0 ** 25])
        psi = psi * psi_scale
        admt_scales[psi_scale] = admt_scales.get(psi_scale, 0) + 1
        aniso = rng.choice([1, 2, 10, 1000])
        admt_aniso[aniso] = admt_aniso.get(aniso, 0) + 1
        L = admt_utils.calculate_admt(X, ops, psi, dx, dy, anisotropy=aniso)
        if not np.all(np.isfinite(L)):
            ctx.violation("admt-nonfinite", "calculate_admt returned a non-finite entry for a flux map with non-vanishing gradient",
                          {"nx": nx, "ny": ny, "x0": x0, "y0": y0, "dx": dx, "dy": dy, "psi": psi.tolist(), "anisotropy": aniso})
            continue
        s = float(np.sqrt(dx * dy))
        tbl = [[float(psi[m21[(ix, iy)]]) for iy in range(ny)] for ix in range(nx)]
        tbl_txt = "[" + "; ".join(qlist(col) for col in tbl) + "]"
        name = "tbl%d" % gi
        cases.append(("DEF", "Definition %s := %s." % (name, tbl_txt)))
        cells = [(ix, iy) for ix in range(nx) for iy in range(ny)]
        if quick and len(cells) > 9:
            cells = rng.sample(cells, 9)
        for (ix, iy) in cells:
            k = m21[(ix, iy)]
            co, stray = row_to_offsets(L[k], ix, iy, m21, nx, ny)
            if stray:
                stray_fail.append({"op": "admt", "nx": nx, "ny": ny, "cell2d": (ix, iy), "stray": stray[:4]})
            cases.append("check_admt_fast %s %s %s %s %s %s %s %s %s %s %s" % (
                zlit(nx), zlit(ny), zlit(ix), zlit(iy), qlit(dx), qlit(dy), qlit(s), qlit(aniso), qlit(float(X[k])),
                name, qlist(co)))
            meta.append({"kind": "admt", "nx": nx, "ny": ny, "ix": ix, "iy": iy, "x0": x0, "y0": y0, "dx": dx, "dy": dy,
                         "perm": perm, "anisotropy": aniso, "psi_coeffs": {"b": b, "c": c, "q": q, "cub": cub, "scale": psi_scale},
                         "impl_row": co})
    # ---- write case files (<= 400 cases each) and run them in Coq -------------------------------
    files = []
    shard, shard_idx, defs = [], [], []
    idx = 0
    all_shards = []
    for cobj in cases:
        if isinstance(cobj, tuple):
            defs.append(cobj[1])
            continue
        shard.append(cobj)
        shard_idx.append(idx)
        idx += 1
        if len(shard) >= 250:
            all_shards.append((shard, shard_idx, list(defs)))
            shard, shard_idx = [], []
    if shard:
        all_shards.append((shard, shard_idx, list(defs)))
    for si, (sh, ids, dfs) in enumerate(all_shards):
        used = [d for d in dfs if any((" " + d.split()[1] + " ") in c for c in sh)]
        txt = ("Require Import Cherab.Common.Qx Cherab.Model.C20_Stencil Cherab.Model.C20_Admt Cherab.Model.C20_Check.\n"
               "Open Scope Q_scope.\n" + "\n".join(used) + "\nDefinition results : list bool := [\n  "
               + ";\n  ".join(sh) + "].\nEval vm_compute in (failing results).\n")
        files.append((ctx.write_gen("cases_%03d.v" % si, txt), ids))
    res = coqc_many([f for f, _ in files], timeout=900)
    diff_cases = []
    for f, ids in files:
        ok, out = res[f]
        vals = parse_evals(out) if ok else []
        good = ok and len(vals) == 1
        failing = parse_zlist(vals[0]) if good else []
        ctx.obligation("correspondence %s (%d cases)" % (os.path.basename(f), len(ids)), "correspondence",
                       good and not failing, out if not good else "DIFF at local indices %s" % failing)
        if not good:
            ctx.broken.append("coqc failed on %s: %s" % (f, out[-500:]))
        diff_cases += [ids[i] for i in failing]
    ctx.log("correspondence: %d stencil cells, %d admt cells, %d disagree" % (n_stencil, len(meta) - n_stencil, len(diff_cases)))

    # ---- failing-input search: always run on the generated grids (cheap), decisive when something broke ----
    search_fails = []
    seen = set()
    n_search = 0
    for m in meta:
        key = (m["kind"], m["nx"], m["ny"], m["dx"], m["dy"], m["x0"])
        if key in seen:
            continue
        seen.add(key)
        n_search += 1
        if m["kind"] == "stencil":
            search_fails += search_stencil(admt_utils, m["nx"], m["ny"], m["x0"], m["y0"], m["dx"], m["dy"], m["perm"], rng)
        else:
            nx, ny = max(m["nx"], 3), max(m["ny"], 3)
            perm = gen_perm(rng, nx, ny)
            ext = max(nx * m["dx"], ny * m["dy"])
            cpsi = [0, rng.choice([-3, -2, 2, 3]) + 0.0, rng.choice([-2, -1, 1, 2]) + 0.0] + \
                   [dyadic(rng, -1, 1, 4) / (4 * ext) for _ in range(3)]
            sc = m["psi_coeffs"]["scale"]
            cpsi = [v * sc for v in cpsi]
            # centre the quadratic so that the gradient does not vanish on the grid
            search_fails += search_admt(admt_utils, nx, ny, m["x0"] + 1.0, m["y0"], m["dx"], m["dy"], perm, cpsi,
                                        m["anisotropy"], rng)
    for sf in stray_fail:
        search_fails.append(dict(sf, claim="row has a non-zero entry outside the 3x3 neighbourhood"))
    ctx.obligation("executable property on the implementation (%d grids)" % n_search, "search", not search_fails,
                   str(search_fails[:3]))
    for sf in search_fails[:5]:
        ctx.violation("c20:" + sf["claim"][:40] + ":" + str(sf.get("op", "admt")), sf["claim"], sf, found=True)
    if diff_cases and not search_fails:
        for ci in diff_cases[:3]:
            m = meta[ci]
            ctx.violation("c20-diff:%s" % m["kind"],
                          "model row and implementation row differ for a %s case; the executable property found no failing input"
                          % m["kind"], {"case": m, "correspondence": "coq/Gen/C20/cases_*.v"}, found=False)

    nontrivial = sum(1 for m in meta if m["kind"] == "admt" or not all(
        v is False for v in (m["ix"] == 0, m["ix"] == m["nx"] - 1, m["iy"] == 0, m["iy"] == m["ny"] - 1)))
    ctx.coverage.update({
        "evaluations": len(meta),
        "distinct_nontrivial": len({(m["kind"], m["nx"], m["ny"], m["ix"], m["iy"], m["dx"], m["dy"]) for m in meta}),
        "rule": "one case = one cell (matrix row) of one grid; stencil cases cover every cell of every grid size in the tier "
                "(random origin, dx, dy, random 1-D numbering); ADMT cases are rows of calculate_admt for random flux maps "
                "(linear + quadratic + cubic) and anisotropy in {1,2,10,1000}; distinct = distinct (kind, grid, cell, dx, dy)",
        "distribution": {"stencil_cells": n_stencil, "admt_cells": len(meta) - n_stencil,
                         "grid_sizes": len(sizes), "boundary_classes(left,right,top,bottom)": {str(k): v for k, v in boundary_classes.items()},
                         "admt_anisotropy": admt_aniso, "admt_flux_scale": {repr(k): v for k, v in admt_scales.items()}, "boundary_or_admt_cases": nontrivial,
                         "search_grids": n_search},
        "tolerance": {"stencil_dyadic": "exact", "stencil_general": "2^-40 * row max", "admt": "2^-28 * row max"},
        "partial": ["'consistent discretisation' is proved as the algebraic identity of the coefficient formulas with the "
                    "divergence form (formal derivation), not as a convergence theorem"],
    })
    ctx.coverage["samples"] = [meta[0], meta[n_stencil] if len(meta) > n_stencil else meta[-1]]
    ctx.grep_gate()
