"""Common machinery for the /verif checks (see DESIGN.md sections 2-5).

Every check is   bin/check Cxx quick|thorough [--replay file]
which runs       harness/main.py -> harness/cxx.py: run(ctx)

A Ctx collects proof obligations (property theorems, Gen tie lemmas, correspondence
case files), violations and coverage data, and writes evidence/Cxx.json at the end.
"""
import fcntl
import hashlib
import json
import math
import os
import random
import re
import shutil
import subprocess
import sys
import time
from fractions import Fraction

VERIF = os.path.dirname(os.path.dirname(os.path.abspath(__file__)))
REPO = os.environ.get("VERIF_REPO", "/repo")
COQ = os.path.join(VERIF, "coq")
PY = "/venv/bin/python"

GREP_GATE = re.compile(
    r"\b(Admitted|admit|Axiom|Axioms|Parameter|Parameters|Conjecture|Conjectures)\b"
    r"|Unset\s+Guard|bypass_check|type-in-type|impredicative-set|Admit\s+Obligations"
    r"|Unset\s+Positivity|Unset\s+Universe")

# Axioms of the standard library that may appear under Print Assumptions (named in the trusted base).
STDLIB_AXIOMS = {
    "Coq.Logic.FunctionalExtensionality.functional_extensionality_dep",
    "FunctionalExtensionality.functional_extensionality_dep",
    "functional_extensionality_dep",
    "Classical_Prop.classic", "classic",
    "ClassicalDedekindReals.sig_forall_dec", "sig_forall_dec",
    "ClassicalDedekindReals.sig_not_dec", "sig_not_dec",
    "Eqdep.Eq_rect_eq.eq_rect_eq", "eq_rect_eq",
    "ProofIrrelevance.proof_irrelevance", "proof_irrelevance",
    "JMeq.JMeq_eq", "JMeq_eq",
}


# ----------------------------------------------------------------------------------------------
# numbers -> Coq literals
# ----------------------------------------------------------------------------------------------
def zlit(n):
    n = int(n)
    return "(%d)" % n if n < 0 else "%d" % n


def qlit(x):
    """Exact Coq Q literal of a Python float / int / Fraction (never via decimal text)."""
    if isinstance(x, Fraction):
        fr = x
    elif isinstance(x, int):
        fr = Fraction(x)
    else:
        x = float(x)
        if math.isnan(x) or math.isinf(x):
            raise ValueError("non-finite value cannot be a Q literal: %r" % x)
        fr = Fraction(*x.as_integer_ratio())
    return "(Qmake %s %d)" % (zlit(fr.numerator), fr.denominator)


def qlist(xs):
    return "[" + "; ".join(qlit(x) for x in xs) + "]"


def zlist(xs):
    return "[" + "; ".join(zlit(x) for x in xs) + "]"


def frac(x):
    if isinstance(x, Fraction):
        return x
    if isinstance(x, int):
        return Fraction(x)
    return Fraction(*float(x).as_integer_ratio())


def coq_string(s):
    return '"' + s.replace('"', '""') + '"'


def dyadic(rng, lo, hi, bits=12):
    """Random dyadic rational float in [lo, hi] with at most `bits` fractional bits."""
    scale = 1 << bits
    return rng.randint(int(math.ceil(lo * scale)), int(math.floor(hi * scale))) / scale


# ----------------------------------------------------------------------------------------------
# rebuilding /repo's Cython extensions from the current working tree (DESIGN 5.1)
# ----------------------------------------------------------------------------------------------
def _tree_hashes():
    out = {}
    for root, dirs, files in os.walk(os.path.join(REPO, "cherab")):
        dirs.sort()
        for f in sorted(files):
            if f.endswith((".pyx", ".pxd")):
                p = os.path.join(root, f)
                with open(p, "rb") as fh:
                    out[os.path.relpath(p, REPO)] = hashlib.sha256(fh.read()).hexdigest()
    return out


def rebuild_repo(log=None):
    """Rebuild the extensions in place if any .pyx/.pxd differs from the last build.

    Returns (ok, message).  Uses a lock so that concurrent checks do not collide, and a
    content-hash stamp so that edits with preserved mtimes are still seen."""
    os.makedirs(os.path.join(REPO, "build"), exist_ok=True)
    lock_path = os.path.join(REPO, "build", ".verif.lock")
    stamp_path = os.path.join(REPO, "build", ".verif.stamp.json")
    with open(lock_path, "w") as lock:
        fcntl.flock(lock, fcntl.LOCK_EX)
        cur = _tree_hashes()
        old = {}
        if os.path.exists(stamp_path):
            try:
                old = json.load(open(stamp_path))
            except Exception:
                old = {}
        missing_so = []
        for rel in cur:
            if rel.endswith(".pyx"):
                base = os.path.join(REPO, rel[:-4])
                d, b = os.path.split(base)
                if not any(n.startswith(b + ".") and n.endswith(".so") for n in os.listdir(d)):
                    missing_so.append(rel)
        changed = [k for k in cur if old.get(k) != cur[k]]
        if old and not changed and not missing_so and set(old) == set(cur):
            return True, "extensions up to date"
        if not old and not missing_so:
            # first run on a tree that was built by the image: trust mtimes once, but let
            # cythonize/gcc decide (cheap no-op when nothing changed)
            changed = []
        now = time.time()
        pxd_changed = any(k.endswith(".pxd") for k in changed)
        for k in changed:
            os.utime(os.path.join(REPO, k), (now, now))
        if pxd_changed:
            # a changed .pxd can alter the layout of every cimporting module
            for k in cur:
                if k.endswith(".pyx"):
                    os.utime(os.path.join(REPO, k), (now, now))
        env = dict(os.environ)
        env.pop("PYTHONPATH", None)
        cmd = [PY, "setup.py", "build_ext", "-j16", "--inplace"]
        p = subprocess.run(cmd, cwd=REPO, env=env, stdout=subprocess.PIPE, stderr=subprocess.STDOUT,
                           text=True, timeout=1800)
        if log:
            with open(log, "w") as fh:
                fh.write(p.stdout)
        if p.returncode != 0:
            if os.path.exists(stamp_path):
                os.remove(stamp_path)
            return False, "build_ext failed:\n" + p.stdout[-3000:]
        json.dump(cur, open(stamp_path, "w"))
        return True, "rebuilt (%d changed, %d missing .so)" % (len(changed), len(missing_so))


# ----------------------------------------------------------------------------------------------
# Coq
# ----------------------------------------------------------------------------------------------
def coq_make(targets=(), timeout=3000):
    """Full .vo build (no -vos) of the hand-written development, or of the given .vo targets and
    everything they depend on, under a lock."""
    os.makedirs(os.path.join(COQ, "Gen"), exist_ok=True)
    with open(os.path.join(COQ, ".verif.lock"), "w") as lock:
        fcntl.flock(lock, fcntl.LOCK_EX)
        p = subprocess.run(["bash", os.path.join(VERIF, "bin", "coqbuild")] + list(targets), cwd=COQ,
                           stdout=subprocess.PIPE, stderr=subprocess.STDOUT, text=True, timeout=timeout)
    return p.returncode == 0, p.stdout


def coqc(path, timeout=600, retries=2):
    """Compile one generated file against the built development; returns (ok, output).
    A coqc that is killed (e.g. by the kernel's OOM killer when many checks run at once) dies
    without a Coq error message; such a run says nothing about the file and is retried."""
    for attempt in range(retries + 1):
        try:
            p = subprocess.run(["coqc", "-Q", COQ, "Cherab", path], cwd=os.path.dirname(path),
                               stdout=subprocess.PIPE, stderr=subprocess.STDOUT, text=True, timeout=timeout)
        except subprocess.TimeoutExpired as e:
            return False, "TIMEOUT after %ss\n%s" % (timeout, (e.stdout or b"").decode("utf8", "replace")
                                                     if isinstance(e.stdout, bytes) else (e.stdout or ""))
        killed = p.returncode < 0 or (p.returncode != 0 and "Error" not in p.stdout and "error" not in p.stdout)
        if not killed or attempt == retries:
            return p.returncode == 0, p.stdout
        time.sleep(2 + 3 * attempt)
    return False, ""


def coqc_many(paths, timeout=900, jobs=16):
    """Compile many generated files in parallel; returns {path: (ok, output)}."""
    from concurrent.futures import ThreadPoolExecutor
    with ThreadPoolExecutor(max_workers=jobs) as ex:
        res = list(ex.map(lambda p: coqc(p, timeout), paths))
    return dict(zip(paths, res))


_EVAL_RE = re.compile(r"^\s*=\s*(.*?)\s*:\s*[^:]*$", re.S)


def parse_evals(output):
    """Split coqc output into the values printed by successive `Eval ... in` commands.

    Each value is returned as one string with whitespace collapsed.  Only use for small,
    flat outputs (lists of numbers / strings) that the check itself printed."""
    vals = []
    cur = None
    for line in output.splitlines():
        if line.lstrip().startswith("= "):
            if cur is not None:
                vals.append(cur)
            cur = line.strip()[2:]
        elif cur is not None:
            cur += " " + line.strip()
    if cur is not None:
        vals.append(cur)
    out = []
    for v in vals:
        # strip the trailing ": type"
        depth = 0
        cut = None
        for i, ch in enumerate(v):
            if ch in "([":
                depth += 1
            elif ch in ")]":
                depth -= 1
            elif ch == ":" and depth == 0:
                cut = i
        out.append(re.sub(r"\s+", " ", v[:cut].strip() if cut is not None else v.strip()))
    return out


def parse_zlist(s):
    """'[1; 2; (-3)%Z]' -> [1, 2, -3]"""
    s = s.strip()
    if s.startswith("(") and s.endswith(")"):
        s = s[1:-1]
    s = re.sub(r"%[A-Za-z]+", "", s)
    inner = s.strip()
    assert inner.startswith("[") and inner.endswith("]"), s
    inner = inner[1:-1].strip()
    if not inner:
        return []
    return [int(t.strip().strip("()")) for t in inner.split(";")]


# ----------------------------------------------------------------------------------------------
# known findings
# ----------------------------------------------------------------------------------------------
def load_known(pid):
    path = os.path.join(VERIF, "known_findings.txt")
    known = {}
    if os.path.exists(path):
        for line in open(path):
            m = re.match(r"known:\s+property=(\S+)\s+key=(\S+)\s+(.*)", line.strip())
            if m and m.group(1) == pid:
                known[m.group(2)] = m.group(3)
    return known


# ----------------------------------------------------------------------------------------------
# the context of one check run
# ----------------------------------------------------------------------------------------------
class Ctx:
    def __init__(self, pid, tier, seed, replay=None):
        self.pid, self.tier, self.seed, self.replay = pid, tier, seed, replay
        self.t0 = time.time()
        self.rng = random.Random((seed * 1000003) ^ int(hashlib.sha256(pid.encode()).hexdigest()[:8], 16))
        self.gen = os.path.join(COQ, "Gen", pid)
        shutil.rmtree(self.gen, ignore_errors=True)
        os.makedirs(self.gen)
        self.obligations = []      # {name, kind, ok, detail}
        self.violations = []       # {key, text, replay, found}
        self.known_hits = []
        self.coverage = {"samples": []}
        self.assumptions = []
        self.trusted = []
        self.axioms = {}
        self.broken = []           # harness faults (not property violations)
        self.known = load_known(pid)
        self.quick = (tier == "quick")

    # -- obligations -------------------------------------------------------------------------
    def obligation(self, name, kind, ok, detail=""):
        self.obligations.append({"name": name, "kind": kind, "ok": bool(ok), "detail": detail[-2000:]})
        return ok

    def crumb(self, obj):
        """Record the case that is about to be run on the implementation; if the implementation crashes
        the interpreter, main.py reports this case as the replay."""
        with open(os.path.join(self.gen, "breadcrumb.json"), "w") as fh:
            json.dump(obj, fh, default=str)

    def log(self, *a):
        print("[%s %6.1fs]" % (self.pid, time.time() - self.t0), *a, flush=True)

    # -- step 1: rebuild -----------------------------------------------------------------------
    def rebuild(self):
        ok, msg = rebuild_repo(log=os.path.join(self.gen, "build.log"))
        self.log("rebuild:", msg.splitlines()[0])
        if not ok:
            self.broken.append("rebuild of /repo failed: " + msg[-1500:])
        return ok

    # -- step 2: proofs --------------------------------------------------------------------------
    def proofs(self, module, theorems, allowed_axioms=(), extra_modules=()):
        """Build (full .vo) the property file `module` (e.g. 'Properties.C20'), everything it depends
        on and `extra_modules` (e.g. the comparator 'Model.C20_Check'), then re-check that every
        theorem exists and which axioms it rests on (Print Assumptions)."""
        targets = [m.replace(".", "/") + ".vo" for m in (module,) + tuple(extra_modules)]
        ok, out = coq_make(targets)
        self.obligation("make %s (full .vo build)" % " ".join(targets), "build", ok, out)
        if not ok:
            self.log("coq build FAILED\n" + out[-3000:])
            return False
        lines = ["Require Import Cherab.%s." % module]
        for t in theorems:
            lines.append('Goal True. idtac "@@THEOREM %s". exact I. Qed.' % t)
            lines.append("Check %s." % t)
            lines.append("Print Assumptions %s." % t)
        path = os.path.join(self.gen, "assumptions.v")
        open(path, "w").write("\n".join(lines) + "\n")
        ok, out = coqc(path, timeout=900)
        if not ok:
            self.obligation("Print Assumptions for %s" % module, "theorem", False, out)
            return False
        # split per theorem
        chunks = out.split("@@THEOREM ")[1:]
        allok = True
        for ch in chunks:
            name = ch.split()[0]
            body = ch[len(name):]
            if "Closed under the global context" in body:
                ax = []
            else:
                m = re.search(r"Axioms:\s*(.*)", body, re.S)
                ax = []
                if m:
                    # entries are "name : type" (the type may continue on indented lines) or a name alone
                    # on its line followed by an indented ": type"
                    for ln in m.group(1).splitlines():
                        mm = re.match(r"^([A-Za-z_][\w.']*)\s*(:.*)?$", ln)
                        if mm and not ln.startswith(" "):
                            ax.append(mm.group(1))
            self.axioms[name] = ax
            bad = [a for a in ax if a not in STDLIB_AXIOMS and a not in allowed_axioms
                   and not a.startswith(("PrimFloat.", "Uint63.", "PrimInt63.", "FloatAxioms.", "Float"))]
            good = self.obligation("theorem %s" % name, "theorem", not bad,
                                   "axioms: %s" % (", ".join(ax) or "none (closed under the global context)"))
            allok = allok and good
        if self.tier == "thorough" and os.environ.get("VERIF_NO_COQCHK") != "1":
            # independent re-check of the compiled property file and everything it depends on
            try:
                pc = subprocess.run(["coqchk", "-silent", "-o", "-Q", COQ, "Cherab", "Cherab." + module], cwd=COQ,
                                    stdout=subprocess.PIPE, stderr=subprocess.STDOUT, text=True, timeout=3000)
                okc = pc.returncode == 0 and "type-in-type: <none>" in pc.stdout and "unsafe (co)fixpoints: <none>" in pc.stdout \
                    and "positivity is assumed: <none>" in pc.stdout
                m2 = re.search(r"\* Axioms:(.*?)\* Constants", pc.stdout, re.S)
                ctx_ax = [l.strip() for l in (m2.group(1) if m2 else "").splitlines() if l.strip()]
                self.coverage["coqchk_context_axioms"] = ctx_ax
                self.obligation("coqchk -o Cherab.%s (independent checker; context axioms: %s)" % (module, ", ".join(ctx_ax) or "none"),
                                "coqchk", okc, pc.stdout[-1500:])
            except subprocess.TimeoutExpired:
                self.obligation("coqchk -o Cherab.%s" % module, "coqchk", False, "timeout")
        missing = [t for t in theorems if t not in self.axioms]
        if missing:
            self.obligation("theorems present", "theorem", False, "missing: %s" % missing)
            allok = False
        return allok

    # -- generated files ---------------------------------------------------------------------------
    def write_gen(self, name, text):
        path = os.path.join(self.gen, name)
        open(path, "w").write(text)
        return path

    def grep_gate(self):
        """No Admitted/Axiom/... anywhere under coq/ (own sources and this run's generated files)."""
        bad = []
        for root, dirs, files in os.walk(COQ):
            if os.path.join(COQ, "Gen") in root and not root.startswith(self.gen):
                continue
            for f in files:
                if f.endswith(".v"):
                    p = os.path.join(root, f)
                    for i, line in enumerate(open(p, errors="replace")):
                        # strip comments crudely: the gate is over-approximate on purpose
                        if GREP_GATE.search(line):
                            bad.append("%s:%d: %s" % (os.path.relpath(p, COQ), i + 1, line.strip()[:100]))
        for opt in ("-type-in-type", "-impredicative-set", "-vos", "-vok", "native"):
            if opt in open(os.path.join(COQ, "_CoqProject")).read():
                bad.append("_CoqProject uses %s" % opt)
        self.obligation("grep gate (no Admitted/Axiom/Parameter/unset checks)", "gate", not bad, "\n".join(bad[:20]))
        return not bad

    # -- violations ------------------------------------------------------------------------------
    def violation(self, key, text, replay_obj, found=True):
        """Record a violation.  `key` is the stable identifier of the failing input / call site
        (matched against known_findings.txt).  `found`=False: no failing input was found, the
        replay names the theorem / correspondence that no longer checks."""
        if key in self.known:
            self.known_hits.append((key, text))
            return
        h = hashlib.sha256((key + json.dumps(replay_obj, sort_keys=True, default=str)).encode()).hexdigest()[:10]
        os.makedirs(os.path.join(VERIF, "replays"), exist_ok=True)
        path = os.path.join(VERIF, "replays", "%s-%s.json" % (self.pid, h))
        obj = {"property": self.pid, "key": key, "what": text, "failing_input_found": bool(found),
               "seed": self.seed, "tier": self.tier,
               "rerun": "cd /verif && bin/check %s %s --replay %s" % (self.pid, self.tier, path),
               "replay": replay_obj}
        json.dump(obj, open(path, "w"), indent=1, default=str)
        self.violations.append({"key": key, "text": text, "replay": path, "found": bool(found)})

    # -- finish ----------------------------------------------------------------------------------
    def finish(self):
        cov = self.coverage
        n_ob = len(self.obligations)
        n_ok = sum(1 for o in self.obligations if o["ok"])
        failed = [o for o in self.obligations if not o["ok"]]
        # a failed obligation without a recorded violation is itself a violation (no input found)
        if failed and not self.violations and not self.broken:
            self.violation("obligation:" + failed[0]["name"],
                           "proof obligation / correspondence no longer checks: %s" % failed[0]["name"],
                           {"failed_obligations": failed}, found=False)
        cov.setdefault("obligations", n_ob)
        cov["obligations"] = n_ob
        cov["discharged"] = n_ok
        cov.setdefault("checker_cmd", "cd /verif && bin/check %s %s" % (self.pid, self.tier))
        cov["trusted_base"] = self.trusted
        cov["axioms"] = self.axioms
        cov["obligation_list"] = [{"name": o["name"], "kind": o["kind"], "ok": o["ok"]} for o in self.obligations]
        cov["failed_obligations"] = failed
        cov["known_findings_hit"] = [k for k, _ in self.known_hits]
        cov["broken"] = self.broken
        ev = {"property_id": self.pid, "tier": self.tier, "seed": self.seed, "level": "proof",
              "coverage": cov, "assumptions": self.assumptions,
              "wall_s": round(time.time() - self.t0, 2), "violations": len(self.violations)}
        os.makedirs(os.path.join(VERIF, "evidence"), exist_ok=True)
        if os.path.realpath(REPO) == "/repo":
            ev_path = os.path.join(VERIF, "evidence", self.pid + ".json")
        else:
            # a run against a scratch copy (seeded change) must not overwrite the evidence of /repo
            ev_path = os.path.join(self.gen, "evidence_scratch_copy.json")
        json.dump(ev, open(ev_path, "w"), indent=1, default=str)
        for k, t in self.known_hits:
            print("KNOWN-FINDING: property=%s %s [%s]" % (self.pid, t, k))
        for v in self.violations:
            tail = "" if v["found"] else " no-failing-input-found"
            print("VIOLATION property=%s replay=%s%s" % (self.pid, v["replay"], tail))
            print("   ", v["text"])
        if self.broken:
            for b in self.broken:
                print("BROKEN-CHECK: %s" % b)
            return 2
        self.log("obligations %d/%d, violations %d, wall %.1fs" % (n_ok, n_ob, len(self.violations), time.time() - self.t0))
        return 1 if self.violations else 0
