"""C13 -- Function wrappers and samplers are exact pointwise compositions everywhere
(cherab/core/math: mappers, clamp, slice, mask, transform/periodic, transform/cylindrical, samplers).

Theorems: coq/Properties/C13.v.
Tie: correspondence -- the real wrappers are called with recording Python callables; the arguments the
wrapped callable received and the value the wrapper returned are compared inside Coq (vm_compute)
with the model: bit for bit (Coq primitive binary64 floats) for routing, clamping, the periodic
remainder; the radius (libm hypot) against the exact square root within max(2^-51 relative, 2^-1074) over the
whole finite range; exactly over Q for samplers, polygon masks and constructor validation;
under a stated tolerance for the libm-dependent rotation of returned vectors.
Search: the executable statement of the property (written independently of the model, exact
Fractions) evaluated on the real implementation for every generated case.
"""
import json
import math
import os
from fractions import Fraction

import numpy as np

from common import qlit, zlit, dyadic, coqc_many, parse_evals, parse_zlist, VERIF
from c13_gen import (fb, fbl, edge_float, ordinary_float, gen_periodic, gen_xyz, gen_polygon, polygon_margin,
                     crossing_inside, frexact)

THEOREMS = [
    "C13_iso_is_composition", "C13_swizzle_routes_selected_arguments", "C13_swizzle_constructor_accepts_exactly_valid_shapes",
    "C13_slice_inserts_fixed_coordinate", "C13_clamp_is_nearest_point_of_interval", "C13_clamp_wrappers_compose",
    "C13_periodic_inner_argument_in_period", "C13_periodic_algorithm_meets_specification",
    "C13_periodic_rounded_algorithm_in_period_partial", "C13_periodic_binary64_correction_effective",
    "C13_periodic_unfixed_algorithm_refuted",
    "C13_axisymmetric_maps_to_radius", "C13_radius_unfixed_algorithm_refuted", "C13_vectors_rotated_by_toroidal_angle",
    "C13_vectors_on_axis_and_everywhere", "C13_periodic_nearest_rounding_in_period_partial",
    "C13_periodic_binary64_fmod_core_exact", "C13_validation_policies_exact", "C13_point_and_lower_dimensional_samplers",
    "C13_mask_is_parity_of_triangle_fan", "C13_mask_triangle_is_point_in_triangle",
    "C13_routing_table_means_model", "C13_sampler_loops_refine_specification", "C13_periodic_source_program_means_models", "C13_constructor_checks_mean_policies", "C13_sampler_range_checks_mean_policy", "C13_periodic_rounded_algorithm_close_to_exact", "C13_periodic_binary64_inner_argument_in_period", "C13_mask_convex_polygon_contains_interior", "C13_mask_convex_polygon_excludes_exterior", "C13_clamp_binary64", "C13_vector_cylindrical_rotation_everywhere",
    "C13_linspace_even_with_both_end_points", "C13_sampler_entry_is_function_at_grid_point",
    "C13_mask_independent_of_vertex_order", "C13_mask_is_point_in_polygon_partial",
]

ERR = {None: "None", "ValueError": "(Some ErrValue)", "TypeError": "(Some ErrType)"}


def exc_name(fn):
    """None if fn() succeeds, else the exception class name (ValueError / TypeError expected;
    anything else is passed on unchanged and will disagree with the model)."""
    try:
        fn()
    except (ValueError, TypeError) as e:
        return type(e).__name__
    return None


def same_bits(a, b):
    if isinstance(a, float) and isinstance(b, float):
        if math.isnan(a) or math.isnan(b):
            return math.isnan(a) and math.isnan(b)
        return a == b and math.copysign(1, a) == math.copysign(1, b)
    return False


def same_tuple(a, b):
    return len(a) == len(b) and all(same_bits(float(u), float(v)) for u, v in zip(a, b))


class Cases:
    """collects Coq boolean expressions (one per case) with their python-side description"""

    def __init__(self):
        self.coq, self.meta, self.fails = [], [], []
        self.dist = {}

    def add(self, family, cls, expr, meta, spec_ok, spec_text=""):
        self.coq.append(expr)
        meta = dict(meta, family=family, cls=cls)
        self.meta.append(meta)
        k = "%s/%s" % (family, cls)
        self.dist[k] = self.dist.get(k, 0) + 1
        if not spec_ok:
            self.fails.append(dict(meta, claim=spec_text))


def hexl(xs):
    return [float(x).hex() for x in xs]


# ---------------------------------------------------------------------------------------------------
def run(ctx):
    ctx.trusted += [
        "Coq 8.16.1 kernel, vm_compute (no native_compute); Coq's primitive binary64 floats (PrimFloat add, mul, sqrt, next_up/down, "
        "comparisons = IEEE-754 round-to-nearest-even, as implemented by the OCaml runtime / hardware)",
        "harness/c13.py, harness/c13_gen.py: generators, recording callables, float -> (sign, mantissa, exponent) printer, "
        "the comparators in Model/C13_Check.v",
        "libm hypot (required, not assumed, to be within max(2^-51 relative, 2^-1074) of the exact root and finite), libm atan2 / cos / sin, raysect rotate_z and Vector3D.transform (oracles: only the quadrant of the angle and the rotated "
        "vector, within 2^-40, are checked), numpy.linspace (compared with the model within 2^-48 of the span, end points exactly), "
        "raysect triangulate2d / Discrete2DMesh (compared with the even-odd crossing test on points with margin)",
        "raysect autowrap_function*: a Python callable receives exactly the doubles the Cython wrapper passed",
    ]
    ctx.trusted += [
        "axioms under Print Assumptions of C13_periodic_binary64_inner_argument_in_period (all declared by Coq's standard library, none "
        "of our own): FloatAxioms.{add,sub,opp,abs,eqb,ltb,leb,next_up,next_down,ldshiftexp,frshiftexp}_spec, FloatAxioms.Prim2SF_valid, "
        "FloatAxioms.SF2Prim_Prim2SF, FloatAxioms.Prim2SF_SF2Prim (specification of the primitive binary64 operations), "
        "Uint63.{add,sub,lsl,lsr,lor,ltb,leb}_spec, Uint63.of_to_Z, Uint63.eqb_refl, Uint63.eqb_correct (primitive 63-bit integers), "
        "ClassicalDedekindReals.sig_forall_dec, ClassicalDedekindReals.sig_not_dec, Classical_Prop.classic, "
        "FunctionalExtensionality.functional_extensionality_dep (the standard library's real numbers, used by Flocq 4.1.0)",
        "Flocq 4.1.0 (Core rounding theory, IEEE754.BinarySingleNaN Bplus_correct / Bpred_correct / binary_normalize_correct, "
        "IEEE754.PrimFloat add_equiv / next_down_equiv / ltb_equiv ...): a library of machine-checked proofs, no axioms of its own",
    ]
    ctx.assumptions += [
        "wrapped functions are total and pure (the recorder has no influence on the arguments it is given)",
        "the range theorem for the binary64 algorithm is now a theorem about Coq's primitive floats (FloatAxioms + Flocq); what is still "
        "assumed is that the machine's C fmod / addition / nextafter behave as IEEE-754 says (the bit-exact model is tied by correspondence)",
        "polygon vertices are distinct, the polygon is simple and not degenerate; mask values are compared at points at least "
        "2^-20 of the polygon size away from every edge",
    ]
    ctx.rebuild()
    ctx.proofs("Properties.C13", THEOREMS, extra_modules=("Model.C13_Check",))
    ctx.log("proofs built, Print Assumptions of %d theorems checked" % len(THEOREMS))

    import cherab
    from common import REPO, coqc
    assert list(cherab.__path__) == [REPO + "/cherab"], cherab.__path__

    # ---- tie (T): the routing table regenerated from the current .pyx sources equals the table the theorems are about ----
    import c13_translate
    try:
        ttxt, tnames, tskipped = c13_translate.translate(REPO)
        stxt, snames = c13_translate.translate_samplers(REPO)
        rtxt = c13_translate.translate_remainder(REPO)
        ctxt, cnames = c13_translate.translate_ctors(REPO)
        tpath = ctx.write_gen("Tie.v", ttxt + stxt + rtxt + ctxt + "Lemma tie_ctors : generated_ctors = ctor_table.\nProof. vm_compute. reflexivity. Qed.\n"
                              "Lemma tie_remainder : generated_remainder = source_remainder.\nProof. reflexivity. Qed.\n"
                              "Lemma tie_samplers : generated_samplers = sampler_table.\nProof. vm_compute. reflexivity. Qed.\n"
                              "Lemma tie_table : generated_table = source_table.\nProof. vm_compute. reflexivity. Qed.\n"
                              "Lemma tie_not_in_table : generated_not_in_table = not_in_table.\nProof. reflexivity. Qed.\n")
        tok, tout = coqc(tpath, timeout=600)
        ctx.obligation("Gen tie: routing table regenerated from %d evaluate methods and loop-nest descriptors of %d samplers the program of periodic.pxd remainder and the argument checks of the 23 constructors regenerated "
                       "from the current sources = Model/C13_Table.v source_table / sampler_table / source_remainder (kernel-checked, coq/Gen/C13/Tie.v)" % (len(tnames), len(snames)), "tie", tok, tout)
    except c13_translate.TranslateError as e:
        tnames, tskipped, snames = [], [], []
        ctx.obligation("Gen tie: routing table regenerated from the current sources", "tie", False,
                       "the translator does not recognise the source any more (fail-closed): %s" % e)
        ctx.log("translator: %s" % e)
    from cherab.core.math import (IsoMapper2D, IsoMapper3D, Swizzle2D, Swizzle3D, AxisymmetricMapper,
                                  VectorAxisymmetricMapper, ClampInput1D, ClampInput2D, ClampInput3D,
                                  ClampOutput1D, ClampOutput2D, ClampOutput3D, Slice2D, Slice3D, PolygonMask2D,
                                  CylindricalTransform, VectorCylindricalTransform,
                                  PeriodicTransform1D, PeriodicTransform2D, PeriodicTransform3D,
                                  VectorPeriodicTransform1D, VectorPeriodicTransform2D, VectorPeriodicTransform3D)
    from cherab.core.math import samplers
    from raysect.core.math import Vector3D

    rng = ctx.rng
    quick = ctx.quick
    scale = 1 if quick else 24
    C = Cases()
    rec = []

    def r1(x):
        rec.append((x,))
        return ret[0]

    def r2(x, y):
        rec.append((x, y))
        return ret[0]

    def r3(x, y, z):
        rec.append((x, y, z))
        return ret[0]
    ret = [0.25]
    ctx.crumb({"stage": "routing wrappers"})
    import itertools
    Z2 = list(itertools.product([0.0, -0.0], repeat=2))
    Z3 = list(itertools.product([0.0, -0.0, 1.5], repeat=3))

    def with_mandatory(mand, n, draw):
        """the mandatory argument tuples first (exact zeros / signed zeros / exact bounds ... : every tier, every seed),
        then n random draws"""
        return list(mand) + [draw() for _ in range(n)]

    # One LIVE object per configuration: when the same (class, wrapped function, constructor arguments) recurs - as it does
    # all along the mandatory grids, whose points alternate across every guard (inside / below / above a bound, positive /
    # zero / negative, on / off the axis) - the SAME object is evaluated again, and its answer is also compared bit for bit
    # with a freshly built object's.  Every second call passes its arguments (and builds its object) in an unusual but
    # valid form: numpy float64 / float32 scalars, Python and numpy integers, bools - whenever the form holds the value exactly.
    live, grec, call_no = {}, [], [0]
    form_stats = {"live_object_reused": 0, "compared_with_fresh_object": 0}

    def unusual(v, salt):
        if isinstance(v, tuple):
            return tuple(unusual(t, salt + i) for i, t in enumerate(v))
        if isinstance(v, (bool, str)) or not isinstance(v, (int, float)):
            return v
        k = salt % 6
        if isinstance(v, int):
            w = (np.int64(v) if k == 0 else np.int32(v) if k == 1 else bool(v) if (k == 2 and v in (0, 1)) else v)
        else:
            negzero = (v == 0 and math.copysign(1.0, v) < 0)
            integral = math.isfinite(v) and v == int(v) and abs(v) < 2 ** 53 and not negzero
            if k == 0:
                w = np.float64(v)
            elif k == 1 and (v != v or math.isinf(v) or (abs(v) < 3e38 and float(np.float32(v)) == v)):
                w = np.float32(v)
            elif k == 2 and integral:
                w = int(v)
            elif k == 3 and integral and abs(v) < 2 ** 62:
                w = np.int64(int(v))
            elif k == 4 and v in (0.0, 1.0) and not negzero:
                w = bool(v)
            else:
                w = v
        if w is not v:
            n_ = "form:" + type(w).__name__
            form_stats[n_] = form_stats.get(n_, 0) + 1
        return w

    def vec_or_float(o):
        return (o.x, o.y, o.z) if hasattr(o, "x") else (float(o),)

    def call(cls, fn, ctor, args, kw=None):
        """(value returned, answer identical to a fresh object's).  rec / grec hold what the LIVE object's wrapped functions received."""
        kw = kw or {}
        call_no[0] += 1
        odd = call_no[0] % 2 == 1
        key = (cls.__name__, id(fn), tuple(c.hex() if isinstance(c, float) else (id(c) if callable(c) else repr(c)) for c in ctor),
               tuple(sorted((k_, v_.hex()) for k_, v_ in kw.items())))
        reused = key in live
        if not reused:
            live[key] = cls(fn, *(unusual(tuple(ctor), call_no[0]) if odd else ctor), **kw)
        rec.clear()
        grec.clear()
        out = live[key](*(unusual(tuple(args), call_no[0] + 3) if odd else args))
        same_as_fresh = True
        if reused:
            form_stats["live_object_reused"] += 1
            a_, b_ = list(rec), list(grec)
            rec.clear()
            grec.clear()
            out2 = cls(fn, *ctor, **kw)(*args)
            form_stats["compared_with_fresh_object"] += 1
            same_as_fresh = (len(rec) == len(a_) and all(same_tuple(u, v_) for u, v_ in zip(rec, a_))
                             and len(grec) == len(b_) and all(same_tuple(u, v_) for u, v_ in zip(grec, b_))
                             and same_tuple(vec_or_float(out), vec_or_float(out2)))
            rec[:] = a_
            grec[:] = b_
        return out, same_as_fresh

    # ---- swizzle / slice / iso ---------------------------------------------------------------------
    for s0 in range(3):
        for s1 in range(3):
            for s2 in range(3):
                si = 9 * s0 + 3 * s1 + s2
                for x, y, z in with_mandatory([Z3[si], Z3[(si + 13) % 27][::-1]], 1 if quick else 6,
                                              lambda: (edge_float(rng), edge_float(rng), edge_float(rng))):
                    ret[0] = ordinary_float(rng)
                    out, fr = call(Swizzle3D, r3, ((s0, s1, s2),), (x, y, z))
                    got = rec[-1] if rec else ()
                    want = tuple((x, y, z)[s] for s in (s0, s1, s2))
                    C.add("swizzle3", "shape%d%d%d" % (s0, s1, s2),
                          "chk_swizzle3 %d %d %d %s %s %s %s" % (s0, s1, s2, fb(x), fb(y), fb(z), fbl(got)),
                          {"shape": (s0, s1, s2), "args": hexl((x, y, z)), "received": hexl(got)},
                          fr and len(rec) == 1 and same_tuple(got, want) and same_bits(out, ret[0]),
                          "Swizzle3D(f, shape)(x,y,z) == f(arg[shape[0]], arg[shape[1]], arg[shape[2]])")
    for x, y in with_mandatory(Z2 + [(0.0, 1.5), (1.5, -0.0)], 12 * scale, lambda: (edge_float(rng), edge_float(rng))):
        ret[0] = ordinary_float(rng)
        out, fr = call(Swizzle2D, r2, (), (x, y))
        got = rec[-1] if rec else ()
        C.add("swizzle2", "any", "chk_swizzle2 %s %s %s" % (fb(x), fb(y), fbl(got)),
              {"args": hexl((x, y)), "received": hexl(got)},
              fr and len(rec) == 1 and same_tuple(got, (y, x)) and same_bits(out, ret[0]), "Swizzle2D(f)(x,y) == f(y,x)")
    names2 = {0: [0, "x", "X"], 1: [1, "y", "Y"]}
    names3 = {0: [0, "x", "X"], 1: [1, "y", "Y"], 2: [2, "z", "Z"]}
    for axis in (0, 1):
        for sel in names2[axis]:
            for v, x in with_mandatory(Z2 + [(1.5, 0.0), (-0.0, 1.5)], 2 * scale, lambda: (edge_float(rng), edge_float(rng))):
                ret[0] = ordinary_float(rng)
                out, fr = call(Slice2D, r2, (sel, v), (x,))
                got = rec[-1] if rec else ()
                want = (v, x) if axis == 0 else (x, v)
                C.add("slice2", "axis=%r" % (sel,), "chk_slice2 %d %s %s %s" % (axis, fb(v), fb(x), fbl(got)),
                      {"axis": sel, "value": v.hex(), "args": hexl((x,)), "received": hexl(got)},
                      fr and len(rec) == 1 and same_tuple(got, want) and same_bits(out, ret[0]),
                      "Slice2D(f, axis, v)(x) == f with v inserted at position axis")
    for axis in (0, 1, 2):
        for sel in names3[axis]:
            for v, x, y in with_mandatory([(0.0, -0.0, 1.5), (-0.0, 0.0, -0.0), (1.5, 0.0, 0.0), (0.0, 0.0, 0.0)], 2 * scale,
                                          lambda: (edge_float(rng), edge_float(rng), edge_float(rng))):
                ret[0] = ordinary_float(rng)
                out, fr = call(Slice3D, r3, (sel, v), (x, y))
                got = rec[-1] if rec else ()
                want = [x, y]
                want.insert(axis, v)
                C.add("slice3", "axis=%r" % (sel,), "chk_slice3 %d %s %s %s %s" % (axis, fb(v), fb(x), fb(y), fbl(got)),
                      {"axis": sel, "value": v.hex(), "args": hexl((x, y)), "received": hexl(got)},
                      fr and len(rec) == 1 and same_tuple(got, tuple(want)) and same_bits(out, ret[0]),
                      "Slice3D(f, axis, v)(x,y) == f with v inserted at position axis")
    def g1(v):
        grec.append((v,))
        return gret[0]
    gret = [0.75]
    for dim in (2, 3):
        mand = [t + (fv_, gv_) for t, fv_, gv_ in zip((Z2 if dim == 2 else Z3[:4] + Z3[9:13]), [0.0, -0.0, 1.5, -0.0] * 2, [-0.0, 0.0, 0.0, 1.5] * 2)]
        for tup in with_mandatory(mand, 10 * scale, lambda: tuple(edge_float(rng) for _ in range(dim)) + (edge_float(rng, special=True), edge_float(rng, special=True))):
            args = tup[:dim]
            ret[0], gret[0] = tup[dim], tup[dim + 1]
            out, fr = call(IsoMapper2D, r2, (g1,), args) if dim == 2 else call(IsoMapper3D, r3, (g1,), args)
            gf, gg = (rec[-1] if rec else ()), (grec[-1] if grec else ())
            C.add("iso%d" % dim, "any",
                  "chk_iso%d %s %s %s %s" % (dim, " ".join(fb(a) for a in args), fb(ret[0]), fbl(gf), fbl(gg)),
                  {"args": hexl(args), "inner_value": ret[0].hex(), "inner_received": hexl(gf), "outer_received": hexl(gg)},
                  fr and len(rec) == 1 and len(grec) == 1 and same_tuple(gf, args) and same_tuple(gg, (ret[0],)) and same_bits(out, gret[0]),
                  "IsoMapper(f, g)(x...) == g(f(x...))")

    # ---- clamps -----------------------------------------------------------------------------------------
    ctx.crumb({"stage": "clamps"})
    inf = float("inf")

    def bounds():
        k = rng.randrange(5)
        if k == 0:
            return -inf, inf
        lo = ordinary_float(rng)
        hi = lo + abs(ordinary_float(rng)) + 2.0 ** -10
        if k == 1:
            return lo, inf
        if k == 2:
            return -inf, hi
        if k == 3:
            return (0.0, hi) if hi > 0 else (lo, 0.0) if lo < 0 else (lo, hi)
        return lo, hi

    def clamp_arg(lo, hi):
        k = rng.randrange(8)
        if k == 0:
            return rng.choice([lo, hi])
        if k == 1:
            b = rng.choice([lo, hi])
            return math.nextafter(b, rng.choice([-inf, inf])) if math.isfinite(b) else b
        if k == 2:
            return rng.choice([float("nan"), inf, -inf, 0.0, -0.0])
        if k == 3 and math.isfinite(lo) and math.isfinite(hi):
            return lo + (hi - lo) * rng.random()
        return edge_float(rng)

    def ref_clamp(v, lo, hi):
        if v < lo:
            return lo
        if v > hi:
            return hi
        return v
    for dim in (1, 2, 3):
        mand = []
        gi = 0
        for lo_, hi_ in ((-1.0, 1.0), (0.0, 2.0), (-2.0, 0.0), (-0.0, 2.0), (-inf, inf), (0.0, inf), (-inf, 0.0)):
            for a_ in (0.0, -0.0, lo_, hi_, math.nextafter(lo_, -inf), math.nextafter(lo_, inf), math.nextafter(hi_, -inf),
                       math.nextafter(hi_, inf), 5e-324, -5e-324):
                if math.isnan(a_):
                    continue
                pos = gi % dim
                gi += 1
                bs_ = [(-inf, inf)] * dim
                ar_ = [(0.0, -0.0, 1.5)[(gi + t) % 3] for t in range(dim)]
                bs_[pos], ar_[pos] = (lo_, hi_), a_
                mand.append((bs_, tuple(ar_)))

        def draw_clamp():
            bs_ = [bounds() for _ in range(dim)]
            return bs_, tuple(clamp_arg(lo, hi) for lo, hi in bs_)
        for bs, args in with_mandatory(mand, 16 * scale, draw_clamp):
            flat = [b for pair in bs for b in pair]
            ret[0] = ordinary_float(rng)
            cls = (ClampInput1D, ClampInput2D, ClampInput3D)[dim - 1]
            # constructor route: all bounds positional, or only the finite ones by keyword (defaults are -inf / +inf)
            names = ["xmin", "xmax", "ymin", "ymax", "zmin", "zmax"][:2 * dim]
            if call_no[0] % 3 == 0:
                out, fr = call(cls, (r1, r2, r3)[dim - 1], (), args, {n_: b_ for n_, b_ in zip(names, flat) if math.isfinite(b_)})
                form_stats["clamp_bounds_by_keyword_or_default"] = form_stats.get("clamp_bounds_by_keyword_or_default", 0) + 1
            else:
                out, fr = call(cls, (r1, r2, r3)[dim - 1], tuple(flat), args)
            got = rec[-1] if rec else ()
            want = tuple(ref_clamp(a, lo, hi) for a, (lo, hi) in zip(args, bs))
            kinds = "".join("n" if math.isnan(a) else "i" if math.isinf(a) else "b" if a in b else "<" if a < b[0] else ">" if a > b[1] else "="
                            for a, b in zip(args, bs))
            C.add("clamp_in%d" % dim, kinds,
                  "chk_clamp_in%d %s %s %s" % (dim, " ".join(fb(b) for b in flat), " ".join(fb(a) for a in args), fbl(got)),
                  {"bounds": hexl(flat), "args": hexl(args), "received": hexl(got)},
                  fr and len(rec) == 1 and same_tuple(got, want) and same_bits(out, ret[0]),
                  "ClampInput(f, bounds)(x...) == f(clamp(x)...) with clamp = nearest point of [min, max]")
        mand = []
        for lo_, hi_ in ((-1.0, 1.0), (0.0, 2.0), (-2.0, 0.0), (-inf, inf), (0.0, inf), (-inf, 0.0)):
            for a_ in (0.0, -0.0, lo_, hi_, math.nextafter(lo_, -inf), math.nextafter(hi_, inf)):
                mand.append((lo_, hi_, (Z3[len(mand) % 27])[:dim], a_))
        for lo, hi, args, fv_ in with_mandatory(mand, 10 * scale, lambda: bounds() + (tuple(edge_float(rng) for _ in range(dim)), None)):
            ret[0] = clamp_arg(lo, hi) if fv_ is None else fv_
            cls = (ClampOutput1D, ClampOutput2D, ClampOutput3D)[dim - 1]
            if call_no[0] % 3 == 0:
                out, fr = call(cls, (r1, r2, r3)[dim - 1], (), args, {n_: b_ for n_, b_ in (("min", lo), ("max", hi)) if math.isfinite(b_)})
                form_stats["clamp_bounds_by_keyword_or_default"] = form_stats.get("clamp_bounds_by_keyword_or_default", 0) + 1
            else:
                out, fr = call(cls, (r1, r2, r3)[dim - 1], (lo, hi), args)
            got = rec[-1] if rec else ()
            C.add("clamp_out%d" % dim, "nan" if math.isnan(ret[0]) else "below" if ret[0] < lo else "above" if ret[0] > hi else "inside",
                  "(chk_clamp_out %s %s %s %s && chk_swizzle3 0 1 2 %s %s)" % (
                      fb(lo), fb(hi), fb(ret[0]), fb(out), " ".join(fb(a) for a in (args + (0.0, 0.0))[:3]),
                      fbl(tuple(got) + (0.0, 0.0)[:3 - dim] if len(got) == dim else got)),
                  {"bounds": hexl((lo, hi)), "args": hexl(args), "f_value": ret[0].hex(), "out": out.hex()},
                  fr and len(rec) == 1 and same_tuple(got, args) and same_bits(out, ref_clamp(ret[0], lo, hi)),
                  "ClampOutput(f, min, max)(x...) == clamp(f(x...))")

    # ---- periodic ---------------------------------------------------------------------------------------------
    ctx.crumb({"stage": "periodic"})
    n_per = 100 * scale

    def vr1(x):
        rec.append((x,))
        return Vector3D(1, 2, 3)

    def vr2(x, y):
        rec.append((x, y))
        return Vector3D(1, 2, 3)

    def vr3(x, y, z):
        rec.append((x, y, z))
        return Vector3D(1, 2, 3)

    def periodic_spec(x, p, got):
        if p == 0:
            return same_bits(got, x)
        if not (math.isfinite(got) and 0 <= got < p):
            return False
        xq, pq = Fraction(x), Fraction(p)
        r = xq - pq * math.floor(xq / pq)
        return abs(Fraction(got) - r) <= pq * Fraction(1, 2 ** 52)
    per_wrappers = [(PeriodicTransform1D, r1, 1), (PeriodicTransform2D, r2, 2), (PeriodicTransform3D, r3, 3),
                    (VectorPeriodicTransform1D, vr1, 1), (VectorPeriodicTransform2D, vr2, 2), (VectorPeriodicTransform3D, vr3, 3)]
    # corpus of past disagreements first (corpus/C13/*.json), on every periodic wrapper
    corpus = []
    cdir = os.path.join(VERIF, "corpus", "C13")
    for fn_ in sorted(os.listdir(cdir)) if os.path.isdir(cdir) else []:
        if fn_.endswith(".json"):
            for xh, ph in json.load(open(os.path.join(cdir, fn_))).get("periodic", []):
                for w in range(6):
                    corpus.append((w, float.fromhex(xh), float.fromhex(ph)))
    # mandatory points, every periodic wrapper: exact 0 and -0, the period itself, exact multiples of the period of both
    # signs, the neighbours of 0 and of the period
    for p_ in (1.0, 2 * math.pi, 0.1, 2.5):
        for x_ in (0.0, -0.0, p_, -p_, 2 * p_, -2 * p_, 3 * p_, -3 * p_, 1024 * p_, -1024 * p_, math.nextafter(p_, 0), math.nextafter(p_, inf),
                   -math.nextafter(p_, 0), 5e-324, -5e-324, p_ / 2):
            for w in range(6):
                corpus.append((w, x_, p_))
    for i in range(n_per + len(corpus)):
        xs, ps, kinds = [], [], []
        if i < len(corpus):
            w, x, p = corpus[i]
            cls, fn, dim = per_wrappers[w]
            xs, ps, kinds = [x] * dim, [p] * dim, ["corpus_or_mandatory"] * dim
        else:
            cls, fn, dim = per_wrappers[i % 6] if i % 3 else per_wrappers[0 if i % 2 else 3]
            for d in range(dim):
                x, p, kind = gen_periodic(rng, allow_zero=(dim > 1))
                xs.append(x)
                ps.append(p)
                kinds.append(kind)
        ctx.crumb({"stage": "periodic", "wrapper": cls.__name__, "periods": hexl(ps), "args": hexl(xs)}) if i % 25 == 0 else None
        _, fr = call(cls, fn, tuple(ps), tuple(xs))
        got = rec[-1] if len(rec) == 1 and len(rec[-1]) == dim else (float("nan"),) * dim
        # read-only attributes report the constructor's periods (PeriodicTransform2D declares none)
        ob_ = live[(cls.__name__, id(fn), tuple(t.hex() for t in ps), ())]
        for nm_, pv_ in zip(("period",) if dim == 1 else ("period_x", "period_y", "period_z"), ps):
            if hasattr(ob_, nm_) and not same_bits(float(getattr(ob_, nm_)), pv_):
                fr = False
        for d in range(dim):
            C.add("periodic", kinds[d], "chk_periodic %s %s %s" % (fb(xs[d]), fb(ps[d]), fb(got[d])),
                  {"wrapper": cls.__name__, "axis": d, "x": xs[d].hex(), "period": ps[d].hex(), "received": got[d].hex(),
                   "x_repr": repr(xs[d]), "period_repr": repr(ps[d]), "received_repr": repr(got[d])},
                  fr and len(rec) == 1 and periodic_spec(xs[d], ps[d], got[d]),
                  "periodic extension: inner argument in [0, period) and equal to x - period*floor(x/period) within 2^-52 period")

    # ---- axisymmetric / cylindrical ------------------------------------------------------------------------------
    ctx.crumb({"stage": "axisymmetric / cylindrical"})
    pi_lo, pi_hi = Fraction(3141592653589793, 10 ** 15), Fraction(3141592653589794, 10 ** 15)

    def faithful_radius(x, y, r):
        """r finite, >= 0 and |r - sqrt(x^2+y^2)| <= max(2^-51 r, 2^-1074), for the whole finite range
        (same statement as accurate_radius in Model/C13_Check.v, written independently with Fractions)"""
        if not (math.isfinite(r) and r >= 0):
            return False
        s = Fraction(x) ** 2 + Fraction(y) ** 2
        q = Fraction(r)
        d = max(q / 2 ** 51, Fraction(1, 2 ** 1074))
        lo = max(Fraction(0), q - d)
        return lo ** 2 <= s <= (q + d) ** 2

    def quadrant_ok(x, y, phi):
        if not math.isfinite(phi):
            return False
        t = Fraction(phi)
        sx, sy = (x > 0) - (x < 0), (y > 0) - (y < 0)
        if sy == 0 and sx > 0:
            return t == 0
        yneg = math.copysign(1.0, y) < 0
        if sy == 0 and (sx < 0 or (sx == 0 and math.copysign(1.0, x) < 0)):
            return (-pi_hi < t < -pi_lo) if yneg else (pi_lo < t < pi_hi)      # libm: atan2(+-0, x <= -0) = +-pi
        if sy == 0:
            return t == 0
        if sx > 0:
            return 0 <= sy * t < pi_hi / 2          # atan2 may underflow to a zero
        lo, hi = (pi_lo / 2, pi_hi / 2) if sx == 0 else (pi_lo / 2, pi_hi)
        return lo < sy * t < hi
    vret = [Vector3D(1, 0, 0)]

    def vf2(r, z):
        rec.append((r, z))
        return vret[0]

    def vf3(r, p, z):
        rec.append((r, p, z))
        return vret[0]
    # mandatory points (both tiers, every seed, every one of the four wrappers): exact zeros and signed zeros of
    # each coordinate in all combinations, the axis, both coordinate axes, the branch cut, the diagonals,
    # subnormal neighbours of zero
    gx = [0.0, -0.0, 1.5, -1.5, 5e-324, -5e-324]
    gy = [0.0, -0.0, 1.5, -1.5, 2.0, -2.0, 5e-324, -5e-324]
    gz = [0.0, -0.0, 1.25, -3.5]
    axis_pts = []
    for ix, x_ in enumerate(gx):
        for iy, y_ in enumerate(gy):
            for w_ in range(4):
                axis_pts.append((x_, y_, gz[(ix + iy + w_) % 4], "grid:" + ("axis" if x_ == 0 and y_ == 0 else "y_axis" if x_ == 0 else
                                 "branch_cut" if y_ == 0 and x_ < 0 else "x_axis" if y_ == 0 else "diagonal" if abs(x_) == abs(y_) else "off_axis"), w_))
    n_ax = 120 * scale
    todo = axis_pts + [gen_xyz(rng) + (i % 4,) for i in range(n_ax)]
    for i, (x, y, z, kind, which) in enumerate(todo):
        rec.clear()
        ret[0] = ordinary_float(rng)
        v = (ordinary_float(rng) or 1.0, ordinary_float(rng) or -0.75, ordinary_float(rng))
        vret[0] = Vector3D(*v)
        name = ("AxisymmetricMapper", "CylindricalTransform", "VectorAxisymmetricMapper", "VectorCylindricalTransform")[which]
        if i % 20 == 0:
            ctx.crumb({"stage": "axisymmetric / cylindrical", "wrapper": name, "args": hexl((x, y, z))})
        out, fr = call((AxisymmetricMapper, CylindricalTransform, VectorAxisymmetricMapper, VectorCylindricalTransform)[which],
                       (r2, r3, vf2, vf3)[which], (), (x, y, z))
        got = rec[-1] if len(rec) == 1 else (float("nan"),) * (2 + which % 2)
        r, zz = got[0], got[-1]
        meta = {"wrapper": name, "args": hexl((x, y, z)), "args_repr": repr((x, y, z)), "received": hexl(got), "received_repr": repr(got)}
        ok_r = faithful_radius(x, y, r)
        checks = ["accurate_radius %s %s %s" % (fb(x), fb(y), fb(r)), "chk_swizzle2 %s %s %s" % (fb(z), fb(z), fbl((zz, zz)))]
        spec = fr and len(rec) == 1 and same_bits(zz, z) and ok_r
        if which % 2 == 1:
            phi = got[1]
            checks.append("chk_quadrant %s %s %s" % (fb(x), fb(y), fb(phi)))
            spec = spec and quadrant_ok(x, y, phi) and same_bits(phi, math.atan2(y, x))
        if which < 2:
            spec = spec and same_bits(out, ret[0])
        else:
            # the returned vector, for EVERY point: finite whenever the wrapped function's vector is, and equal to
            # that vector rotated by libm's atan2(y, x) (on the axis: 0 for x = +0, +-pi for x = -0)
            o = (out.x, out.y, out.z)
            meta.update({"f_vector": hexl(v), "out_vector": hexl(o), "out_repr": repr(o)})
            if not all(math.isfinite(t) for t in o):
                checks.append("false")
                spec = False
                meta["vector_claim"] = "%s(f)(%r, %r, %r) = %r is not finite although f returned %r" % (name, x, y, z, o, v)
            else:
                on_axis = (x == 0 and y == 0)
                k = 0 if (on_axis or math.hypot(x, y) > 2.0 ** -800) else 1000
                xs_, ys_ = math.ldexp(x, k), math.ldexp(y, k)
                rho = r if k == 0 else math.hypot(xs_, ys_)
                checks.append("chk_rot %d %s %s %s %s %s (%s, %s, %s) (%s, %s, %s)" % (
                    k, fb(x), fb(y), fb(xs_), fb(ys_), fb(rho), qlit(v[0]), qlit(v[1]), qlit(v[2]), qlit(o[0]), qlit(o[1]), qlit(o[2])))
                if on_axis:
                    c, s_ = (-1.0, 0.0) if math.copysign(1.0, x) < 0 else (1.0, 0.0)
                    tol = 0.0 if c > 0 else 1e-12 * max(abs(t) for t in v)
                else:
                    h = math.hypot(xs_, ys_)
                    c, s_ = xs_ / h, ys_ / h
                    tol = 1e-12 * max(abs(t) for t in v)
                okv = abs(o[0] - (c * v[0] - s_ * v[1])) <= tol and abs(o[1] - (s_ * v[0] + c * v[1])) <= tol and o[2] == v[2]
                if not okv:
                    meta["vector_claim"] = "%s(f)(%r, %r, %r) = %r but f returned %r, which rotated by the toroidal angle atan2(y, x) = %r is (%r, %r, %r)" % (
                        name, x, y, z, o, v, math.atan2(y, x), c * v[0] - s_ * v[1], s_ * v[0] + c * v[1], v[2])
                spec = spec and okv
        if not ok_r:
            meta["radius_claim"] = "%s evaluates the wrapped function at r = %r for (x, y) = (%r, %r); sqrt(x^2+y^2) = %r" % (
                name, r, x, y, math.hypot(x, y))
        C.add("radius/" + ("scalar" if which < 2 else "vector"), kind, "(" + " && ".join(checks) + ")", meta, spec,
              meta.get("radius_claim") or meta.get("vector_claim") or "%s: wrapped function evaluated at (sqrt(x^2+y^2)%s, z), vector rotated by the toroidal angle" % (
                  name, ", atan2(y,x)" if which % 2 else ""))

    # ---- second-order routes: wrappers nested in wrappers (the inner evaluate() is called from C, not through __call__),
    # raysect argument functions as the wrapped function (the value comes back through the return value instead of the
    # recorder), and the Function arithmetic route (wrapper + 0) ------------------------------------------------------------
    ctx.crumb({"stage": "nested wrappers / alternative routes"})
    from raysect.core.math.function.float import Arg1D, Arg2D, Arg3D
    Fl = lambda t: "(F_of_bits %s)" % fb(t)
    for i in range(8 * scale + 8):
        x, y, z = (edge_float(rng), edge_float(rng), edge_float(rng)) if i >= 8 else Z3[(5 * i + 1) % 27]
        (xl, xh), (yl, yh), (zl, zh) = ((-1.0, 1.0), (0.0, inf), (-inf, 0.0)) if i < 8 else (bounds(), bounds(), bounds())
        p_ = rng.choice([1.0, 2.5, 0.1, 2 * math.pi])
        v_ = edge_float(rng) if i % 2 else rng.choice([0.0, -0.0])
        ax = i % 2
        s0, s1, s2 = rng.randrange(3), rng.randrange(3), rng.randrange(3)
        ret[0] = ordinary_float(rng)
        routes = []
        rec.clear()
        out = ClampInput2D(Swizzle2D(r2), xl, xh, yl, yh)(x, y)
        routes.append(("ClampInput2D(Swizzle2D(f))", list(rec), out, ret[0],
                       "same (clamp_in2 PrimFloat.ltb %s %s %s %s (swizzle2 rec2) %s %s) %%s" % (Fl(xl), Fl(xh), Fl(yl), Fl(yh), Fl(x), Fl(y)),
                       (ref_clamp(y, yl, yh), ref_clamp(x, xl, xh))))
        rec.clear()
        out = Swizzle2D(ClampInput2D(r2, xl, xh, yl, yh))(x, y)
        routes.append(("Swizzle2D(ClampInput2D(f))", list(rec), out, ret[0],
                       "same (swizzle2 (clamp_in2 PrimFloat.ltb %s %s %s %s rec2) %s %s) %%s" % (Fl(xl), Fl(xh), Fl(yl), Fl(yh), Fl(x), Fl(y)),
                       (ref_clamp(y, xl, xh), ref_clamp(x, yl, yh))))
        rec.clear()
        out = PeriodicTransform1D(Slice2D(r2, ax, v_), p_)(x)
        rem_ = rec[-1][1 - ax] if rec and len(rec[-1]) == 2 else float("nan")
        routes.append(("PeriodicTransform1D(Slice2D(f))", list(rec), out, ret[0],
                       "same (slice2 %d %s rec2 (remainder_F %s %s)) %%s" % (ax, Fl(v_), Fl(x), Fl(p_)),
                       ((v_, rem_) if ax == 0 else (rem_, v_)) if periodic_spec(x, p_, rem_) else None))
        rec.clear()
        out = Swizzle3D(ClampInput3D(r3, xl, xh, yl, yh, zl, zh), (s0, s1, s2))(x, y, z)
        sw = tuple((x, y, z)[t] for t in (s0, s1, s2))
        routes.append(("Swizzle3D(ClampInput3D(f))", list(rec), out, ret[0],
                       "same (swizzle3 %d %d %d (clamp_in3 PrimFloat.ltb %s %s %s %s %s %s rec3) %s %s %s) %%s" % (
                           s0, s1, s2, Fl(xl), Fl(xh), Fl(yl), Fl(yh), Fl(zl), Fl(zh), Fl(x), Fl(y), Fl(z)),
                       (ref_clamp(sw[0], xl, xh), ref_clamp(sw[1], yl, yh), ref_clamp(sw[2], zl, zh))))
        rec.clear()
        out = (Swizzle2D(r2) + 0.0)(x, y)
        routes.append(("(Swizzle2D(f) + 0.0)", list(rec), out, ret[0] + 0.0, "same (swizzle2 rec2 %s %s) %%s" % (Fl(x), Fl(y)), (y, x)))
        for name, rr, out, want_out, tmpl, want in routes:
            got = rr[-1] if rr else ()
            C.add("nested", name, tmpl % fbl(got), {"wrapper": name, "args": hexl((x, y, z)), "received": hexl(got),
                                                   "bounds": hexl((xl, xh, yl, yh, zl, zh)), "period": p_, "slice_value": v_, "shape": (s0, s1, s2)},
                  len(rr) == 1 and want is not None and same_tuple(got, want) and same_bits(out, want_out),
                  "%s: the wrapped callable receives the composed mapping of the arguments" % name)
        # argument functions: what the wrapper returns IS the routed argument
        argroutes = [
            ("Swizzle2D(Arg2D('x'))", Swizzle2D(Arg2D("x"))(x, y), y, "same [swizzle2 (fun a b : PrimFloat.float => a) %s %s] [%%s]" % (Fl(x), Fl(y))),
            ("Slice3D(Arg3D('y'))", Slice3D(Arg3D("y"), ax, v_)(x, y), x if ax == 0 else v_,
             "same [slice3 %d %s (fun a b c : PrimFloat.float => b) %s %s] [%%s]" % (ax, Fl(v_), Fl(x), Fl(y))),
            ("ClampInput1D(Arg1D())", ClampInput1D(Arg1D(), xl, xh)(x), ref_clamp(x, xl, xh),
             "same [clamp_in1 PrimFloat.ltb %s %s (fun a : PrimFloat.float => a) %s] [%%s]" % (Fl(xl), Fl(xh), Fl(x))),
            ("ClampOutput1D(number as constant function)", ClampOutput1D(v_, xl, xh)(x), ref_clamp(v_, xl, xh),
             "chk_clamp_out %s %s %s %%s" % (fb(xl), fb(xh), fb(v_))),
            ("PeriodicTransform1D(Arg1D())", PeriodicTransform1D(Arg1D(), p_)(x), None, "chk_periodic %s %s %%s" % (fb(x), fb(p_))),
            ("Swizzle3D(Arg3D('z'))", Swizzle3D(Arg3D("z"), (s0, s1, s2))(x, y, z), (x, y, z)[s2],
             "same [swizzle3 %d %d %d (fun a b c : PrimFloat.float => c) %s %s %s] [%%s]" % (s0, s1, s2, Fl(x), Fl(y), Fl(z))),
        ]
        for name, out, want, tmpl in argroutes:
            ok = periodic_spec(x, p_, out) if want is None else same_bits(out, want)
            C.add("nested", name, tmpl % fb(out), {"wrapper": name, "args": hexl((x, y, z)), "returned": out.hex(), "bounds": hexl((xl, xh)),
                                                  "period": p_, "slice_value": v_, "axis": ax, "shape": (s0, s1, s2)}, ok,
                  "%s returns the routed argument itself" % name)

    # ---- polygon masks ---------------------------------------------------------------------------------------------
    ctx.crumb({"stage": "polygon masks"})
    n_poly = 24 * scale
    n_amb = 0
    rejected_forms = []

    def vertex_form(poly, k):
        """the same vertex list in an unusual but valid container"""
        arr = np.array(poly, dtype=np.float64)
        if k == 0:
            return [list(p) for p in poly], "list_of_lists"
        if k == 1:
            return tuple(tuple(p) for p in poly), "tuple_of_tuples"
        if k == 2:
            return arr, "float64_array"
        if k == 3 and np.abs(arr).max() < 3e38 and np.array_equal(arr.astype(np.float32).astype(np.float64), arr):
            return arr.astype(np.float32), "float32_array"
        if k == 4:
            return np.hstack([arr, np.full((len(poly), 1), 9.0)])[:, :2], "non_contiguous_view"
        if k == 5:
            ro = arr.copy()
            ro.setflags(write=False)
            return ro, "read_only_array"
        if k == 6 and np.abs(arr).max() < 2.0 ** 62 and np.array_equal(arr, arr.astype(np.int64)):
            return arr.astype(np.int64), "int64_array"
        return [tuple(p) for p in poly], "list_of_tuples"
    for i in range(n_poly + 2 + scale):
        if i >= n_poly:
            # the smallest polygon: a triangle (N = 3), both orientations.  (Two vertices are not a polygon: raysect's
            # triangulate2d reads out of bounds for N < 3 and can crash the interpreter - observed, reported, not exercised.)
            a_, b_ = dyadic(rng, -2, 2, 4), dyadic(rng, -2, 2, 4)
            poly0 = [(a_, b_), (a_ + 1.0, b_ + (i % 3) * 0.5), (a_ + 0.25, b_ + 1.5)]
            if i % 2:
                poly0.reverse()
            pkind = "triangle"
        else:
            poly0, pkind = gen_polygon(rng)
        # scale covariance: polygon and points multiplied by the same power of two (exact)
        sc = 2.0 ** ([0, 0, 0, -40, -10, 10, 40, 200, -200][i % 9])
        pkind += "/x2^%d" % int(math.log2(sc))
        poly = [(a * sc, b * sc) for a, b in poly0]
        ctx.crumb({"stage": "polygon masks", "polygon": poly})
        verts, vform = vertex_form(poly, i % 8)
        form_stats["vertices:" + vform] = form_stats.get("vertices:" + vform, 0) + 1
        if i % 8 == 7:
            # recorded outcome of the unchanged code: a Fortran-ordered vertex array is rejected with ValueError
            e = exc_name(lambda: PolygonMask2D(np.asfortranarray(np.array(poly))))
            rejected_forms.append(("PolygonMask2D: Fortran-ordered Nx2 vertex array", e, "ValueError"))
        mask = PolygonMask2D(verts)
        xs_, ys_ = [p[0] for p in poly0], [p[1] for p in poly0]
        size = max(max(xs_) - min(xs_), max(ys_) - min(ys_))
        polyq = "[" + "; ".join("(%s, %s)" % (qlit(a), qlit(b)) for a, b in poly) + "]"
        npts = 0
        tries = 0
        first = None
        while npts < 10 and tries < 200:
            tries += 1
            k = rng.randrange(4)
            px = dyadic(rng, min(xs_) - size / 8, max(xs_) + size / 8, 12)
            py = dyadic(rng, min(ys_) - size / 8, max(ys_) + size / 8, 12)
            pcls = "random"
            if k == 0:
                py = rng.choice(ys_)      # the ray passes exactly through a vertex
                pcls = "level_with_vertex"
            elif k == 1:
                px = rng.choice(xs_)
                pcls = "below_above_vertex"
            if first is not None and npts == 9:
                px, py, pcls = first[0], first[1], "first_point_again"      # the same live mask asked again
            amb = polygon_margin(poly0, (px, py)) < Fraction(size) / 2 ** 20
            px, py = px * sc, py * sc
            if amb:
                n_amb += 1
                val = mask(px, py)
                if val not in (0.0, 1.0):
                    C.fails.append({"family": "mask", "cls": "on_edge", "polygon": poly, "point": (px, py), "value": val,
                                    "claim": "mask value is neither 0 nor 1"})
                continue
            npts += 1
            val = mask(*unusual((px, py), npts + i)) if npts % 2 else mask(px, py)
            if first is None:
                first = (px / sc, py / sc, val)
            want = crossing_inside(poly, (px, py))
            C.add("mask", "%s/%s/%s" % (pkind, pcls, "in" if want else "out"),
                  "chk_mask %s (%s, %s) %s" % (polyq, qlit(px), qlit(py), "true" if val == 1.0 else "false"),
                  {"polygon": poly, "point": (px, py), "value": val, "kind": pkind, "vertices_given_as": vform},
                  val in (0.0, 1.0) and (val == 1.0) == want and (pcls != "first_point_again" or val == first[2]),
                  "PolygonMask2D(poly)(x,y) == 1 iff (x,y) is inside the polygon")

    # ---- samplers -------------------------------------------------------------------------------------------------------
    ctx.crumb({"stage": "samplers"})
    from c13_samplers import sampler_cases
    sampler_cases(ctx, C, samplers, Vector3D, rng, 126 if quick else 28 * scale)

    # ---- constructor validation ---------------------------------------------------------------------------------------
    ctx.crumb({"stage": "constructor validation"})
    shapes = [((0, 1, 2), True), ((2, 2, 2), True), ((0, 1), True), ((0, 1, 2, 0), True), ((), True), ([0, 1, 2], False),
              ([1, 0], False), ((0, 1, 3), True), ((-1, 0, 1), True), ((0, 3), True), ([0, 5, 1], False), ((2, 1, 0), True)]
    for _ in range(6 * scale):
        n = rng.choice([2, 3, 3, 3, 4])
        shapes.append((tuple(rng.choice([0, 1, 2, 2, 1, 0, 3, -1]) for _ in range(n)), True))
    for shape, is_tuple in shapes:
        e = exc_name(lambda: Swizzle3D(r3, shape))
        want = "ValueError" if any(s not in (0, 1, 2) for s in shape) else None if (is_tuple and len(shape) == 3) else "TypeError"
        C.add("validate", "swizzle3:" + str(want), "chk_swizzle3_validate %s [%s]%%Z %s" % (
            "true" if is_tuple else "false", "; ".join(zlit(s) for s in shape), ERR.get(e, "(Some ErrOther_" + str(e) + ")")),
            {"shape": list(shape), "is_tuple": is_tuple, "raised": e}, e == want, "Swizzle3D accepts exactly tuples of three selectors in {0,1,2}")
    for dims, cls, fn in ((2, Slice2D, r2), (3, Slice3D, r3)):
        for sel in [0, 1, 2, 3, -1, "x", "y", "z", "X", "Y", "Z", "w", "", "xy"]:
            holder = []
            e = exc_name(lambda: holder.append(cls(fn, sel, 0.5)))
            impl = "(inr (%s)%%Z)" % zlit(holder[0].axis) if e is None else "(inl %s)" % ("ErrValue" if e == "ValueError" else "ErrType")
            coq_sel = '(AxName "%s"%%string)' % sel if isinstance(sel, str) else "(AxNum %s)" % zlit(sel)
            idx = {"x": 0, "y": 1, "z": 2}.get(sel.lower()) if isinstance(sel, str) else sel
            valid = idx is not None and 0 <= idx < dims
            C.add("validate", "slice%d:%s" % (dims, "ok" if valid else "ValueError"),
                  "chk_slice_validate %d %s %s" % (dims, coq_sel, impl), {"dims": dims, "axis": sel, "raised": e},
                  (e is None and holder[0].axis == idx) if valid else e == "ValueError", "Slice axis selector validation")
    # every clamp class, every bound position, every ordering of the two bounds
    clamp_classes = [(ClampInput1D, r1, 1, "in"), (ClampInput2D, r2, 2, "in"), (ClampInput3D, r3, 3, "in"),
                     (ClampOutput1D, r1, 1, "out"), (ClampOutput2D, r2, 1, "out"), (ClampOutput3D, r3, 1, "out")]
    for rep in range(scale):
        for cls, fn, npos, which in clamp_classes:
            for pos in range(npos):
                a_ = ordinary_float(rng)
                d_ = abs(ordinary_float(rng)) + 2.0 ** -10
                for lo, hi in ((a_, a_ + d_), (a_, a_), (a_ + d_, a_), (a_, math.nextafter(a_, inf)), (math.nextafter(a_, inf), a_),
                               (-inf, a_), (a_, inf), (-inf, inf), (0.0, -0.0)):
                    flat = [-inf, inf] * npos
                    flat[2 * pos], flat[2 * pos + 1] = lo, hi
                    e = exc_name(lambda: cls(fn, *flat))
                    want = "ValueError" if lo >= hi else None
                    q = lambda b: "None" if math.isinf(b) else "(Some %s)" % qlit(b)
                    C.add("validate", "%s:%s" % (cls.__name__, want), "chk_clamp_validate %s %s %s" % (q(lo), q(hi), ERR.get(e, "(Some ErrOther)")),
                          {"wrapper": cls.__name__, "min": lo, "max": hi, "position": pos, "raised": e}, e == want,
                          "%s rejects exactly min >= max" % cls.__name__)
    # every periodic class, every axis, every sign of the period
    per_classes = [(PeriodicTransform1D, r1, 1), (VectorPeriodicTransform1D, vr1, 1), (PeriodicTransform2D, r2, 2),
                   (VectorPeriodicTransform2D, vr2, 2), (PeriodicTransform3D, r3, 3), (VectorPeriodicTransform3D, vr3, 3)]
    for rep in range(scale):
        for cls, fn, dim in per_classes:
            for pos in range(dim):
                for p in (0.0, -0.0, abs(ordinary_float(rng)) + 0.5, -abs(ordinary_float(rng)) - 0.5, 5e-324, -5e-324):
                    ps = [rng.choice([0.0, 1.0, 2.5]) for _ in range(dim)]
                    ps[pos] = p
                    e = exc_name(lambda: cls(fn, *ps))
                    if dim == 1:
                        want = "ValueError" if p <= 0 else None
                        expr = "chk_period1_validate %s %s" % (qlit(p), ERR.get(e, "(Some ErrOther)"))
                    else:
                        want = "ValueError" if p < 0 else None
                        expr = "chk_periodn_validate [%s] %s" % ("; ".join(qlit(t) for t in ps), ERR.get(e, "(Some ErrOther)"))
                    C.add("validate", "%s:%s" % (cls.__name__, want), expr,
                          {"wrapper": cls.__name__, "periods": ps, "position": pos, "raised": e}, e == want,
                          "%s: period must be %s" % (cls.__name__, "positive" if dim == 1 else ">= 0 (0 = not periodic)"))

    # ---- argument forms the unchanged code rejects: the rejection is the recorded, expected outcome -------------------------
    rejected_forms += [
        ("Swizzle3D call: string argument", exc_name(lambda: Swizzle3D(r3, (2, 0, 1))("1", 2, 3)), "TypeError"),
        ("Swizzle2D: a number as the wrapped function", exc_name(lambda: Swizzle2D(4.0)), "TypeError"),
        ("ClampInput1D(None): constructed, the call fails", exc_name(lambda: ClampInput1D(None)(1.0)), "TypeError"),
        ("PeriodicTransform1D: string period", exc_name(lambda: PeriodicTransform1D(r1, "1")), "TypeError"),
        ("Slice2D: axis None", exc_name(lambda: Slice2D(r2, None, 1.0)), "ValueError"),
        ("PolygonMask2D: empty vertex list", exc_name(lambda: PolygonMask2D([])), "ValueError"),
        ("PolygonMask2D: None", exc_name(lambda: PolygonMask2D(None)), "TypeError"),
        ("sample1d: list instead of range tuple", exc_name(lambda: samplers.sample1d(r1, [0., 1., 3])), "TypeError"),
        ("sample2d_points: Nx3 points", exc_name(lambda: samplers.sample2d_points(r2, np.zeros((2, 3)))), "ValueError"),
        ("sample3d_grid: 2-D axis array", exc_name(lambda: samplers.sample3d_grid(r3, [[1., 2.]], [1.], [2.])), "ValueError"),
    ]
    ro_ = np.arange(3.0)
    ro_.setflags(write=False)
    rejected_forms.append(("sample1d_points: read-only array", exc_name(lambda: samplers.sample1d_points(r1, ro_)), "ValueError"))
    for label, e, want in rejected_forms:
        C.add("forms_rejected", label.split(":")[0], 'chk_form "%s"%%string %s' % (label, ERR.get(e, "(Some ErrOther)")),
              {"call": label, "raised": e, "recorded_outcome_of_unchanged_code": want}, e == want,
              "%s: recorded outcome %s, observed %s" % (label, want, e))

    ctx.log("implementation run on %d cases" % len(C.coq))
    # ---- run the correspondence in Coq ---------------------------------------------------------------------------------------
    # shards of at most 250 cases and about 100 kB of literals (coqc time is proportional to the text)
    shards, cur, cur_sz = [], [], 0
    for ci_, ex_ in enumerate(C.coq):
        if cur and (len(cur) >= 250 or cur_sz + len(ex_) > 100000):
            shards.append(cur)
            cur, cur_sz = [], 0
        cur.append(ci_)
        cur_sz += len(ex_)
    if cur:
        shards.append(cur)
    files = []
    for si, ids_ in enumerate(shards):
        chunk = [C.coq[t] for t in ids_]
        txt = ("Require Import Cherab.Common.Qx Cherab.Model.C13_Wrappers Cherab.Model.C13_Float Cherab.Model.C13_Check.\n"
               "From Coq Require Import String.\nOpen Scope Q_scope.\nDefinition results : list bool := [\n  " + ";\n  ".join(chunk)
               + "].\nEval vm_compute in (failing results).\n")
        files.append((ctx.write_gen("cases_%03d.v" % si, txt), ids_))
    res = coqc_many([f for f, _ in files], timeout=900)
    diff_cases = []
    for f, ids in files:
        ok, out = res[f]
        vals = parse_evals(out) if ok else []
        good = ok and len(vals) == 1
        failing = parse_zlist(vals[0]) if good else []
        ctx.obligation("correspondence %s (%d cases)" % (os.path.basename(f), len(ids)), "correspondence",
                       good and not failing, out if not good else "DIFF at local indices %s" % failing)
        if not good:
            ctx.broken.append("coqc failed on %s: %s" % (f, out[-600:]))
        diff_cases += [ids[i] for i in failing]
    ctx.log("correspondence: %d cases in %d files, %d disagree" % (len(C.coq), len(files), len(diff_cases)))

    # ---- failing-input search (executable statement of the property on the implementation) -----------------------------------
    fails = C.fails
    ctx.obligation("executable property on the implementation (%d cases)" % len(C.meta), "search", not fails, str(fails[:3]))
    seen = set()
    for sf in fails:
        key = "c13:%s" % sf["family"] + (":" + sf["wrapper"] if "wrapper" in sf else ":" + sf["sampler"] if "sampler" in sf else "")
        if key in seen:
            continue
        seen.add(key)
        ctx.violation(key, sf["claim"], dict(sf, failing_cases_of_this_kind=sum(
            1 for t in fails if t["family"] == sf["family"] and t.get("wrapper") == sf.get("wrapper") and t.get("sampler") == sf.get("sampler"))),
            found=True)
        if len(seen) >= 16:
            break
    unexplained = [ci for ci in diff_cases if not any(C.meta[ci]["family"] == sf["family"] for sf in fails)]
    for ci in unexplained[:3]:
        m = C.meta[ci]
        ctx.violation("c13-diff:%s" % m["family"],
                      "model and implementation differ for a %s case (%s); the executable property found no failing input"
                      % (m["family"], m["cls"]), {"case": m, "coq_case": C.coq[ci][:1500]}, found=False)

    fam = {}
    for m in C.meta:
        fam[m["family"]] = fam.get(m["family"], 0) + 1
    nontriv = sum(v for k, v in C.dist.items() if not (k.endswith("/ordinary") or k.startswith("swizzle2")))
    ctx.coverage.update({
        "evaluations": len(C.meta),
        "distinct_nontrivial": len({(m["family"], m["cls"], str(m.get("args", m.get("x", m.get("point", m.get("shape", "")))))) for m in C.meta}),
        "rule": "one case = one call of a real wrapper / sampler / constructor with a recording callable; non-trivial = every case whose "
                "class is not 'ordinary' (edge arguments: signed zeros, subnormals, tiny negatives, exact multiples of the period, huge "
                "values, bounds hit exactly, NaN/inf for clamps, branch cut of atan2, rays through vertices, n = 1) : %d" % nontriv,
        "distribution": {"by_family": fam, "by_family_and_class": dict(sorted(C.dist.items())),
                         "argument_forms_and_live_objects": form_stats,
                         "routing_table_classes_regenerated_from_source": tnames, "sampler_descriptors_regenerated_from_source": snames, "classes_not_expressible_in_table": tskipped,
                         "mask_points_skipped_as_ambiguous(within 2^-20 of an edge)": n_amb,
                         "radius_cases_with_overflowing_or_underflowing_squares": sum(
                             1 for m in C.meta if m["family"].startswith("radius") and m["cls"] in ("huge", "tiny"))},
        "tolerance": {"routing, clamp, periodic remainder": "bit for bit (binary64)",
                      "radius (libm hypot) vs exact sqrt(x^2+y^2)": "max(2^-51 relative, 2^-1074 absolute), finite result required, whole finite range, decided exactly on the squares",
                      "periodic vs exact reduction": "2^-52 * period", "rotated vector": "2^-40 of the largest component (libm cos/sin, rotate_z); exact on the axis with x = +0 (no rotation); subnormal-near-zero points are scaled by 2^1000 exactly before forming (x/r, y/r)",
                      "sampler coordinate arrays": "bit for bit against numpy.linspace evaluated in the binary64 model (linspace_F)", "mask": "exact boolean at points with margin >= 2^-20 size",
                      "constructor errors": "exact"},
        "compared_inside_coq": [
            ["arguments received by the wrapped callable of Swizzle2D/3D, Slice2D/3D, IsoMapper2D/3D (inner and outer function), "
             "ClampInput1D/2D/3D, nested wrappers, wrapper + 0.0", "model routing on primitive binary64", "bit for bit"],
            ["value returned by ClampOutput1D/2D/3D and by wrappers around raysect Arg / constant functions", "clamp_F / routing", "bit for bit"],
            ["inner argument of the six periodic wrappers", "remainder_F (fmod_int + add + next_down)", "bit for bit; and 0 <= r < p; and |r - (x - p floor(x/p))| <= 2^-52 p"],
            ["radius handed to the wrapped function by the four axisymmetric / cylindrical wrappers", "accurate_radius on exact squares",
             "|r - sqrt(x^2+y^2)| <= max(2^-51 r, 2^-1074), r finite"],
            ["z handed through by those wrappers", "identity", "bit for bit"],
            ["angle handed to the wrapped function by the two cylindrical wrappers", "chk_quadrant (rational enclosure of pi)",
             "quadrant exact; signed-zero branch exact; the value itself only bitwise against Python math.atan2 in the search"],
            ["vector returned by the two vector wrappers", "rotz (x/rho, y/rho) v", "2^-40 of the largest component; exact on the axis with x = +0"],
            ["coordinate arrays returned by the five range samplers (every axis)", "linspace_F: numpy.linspace's formula evaluated on primitive binary64",
             "bit for bit (first point == min, last point == max, interior points equal); class exact_grid: non-representable end points, "
             "counts 2..200 incl. primes / 38 / 50 / 99, negative and large offsets, sampled function defined on exactly the requested box"],
            ["entry [i][j][k] (all three components for vector samplers are checked in the search) of all 14 samplers", "sample1d/2d/3d, *_points", "exact"],
            ["PolygonMask2D value", "point_in_polygon (even-odd crossing)", "exact, at points >= 2^-20 size from every edge"],
            ["exception (or none) of every constructor / sampler range / recorded rejected form", "*_validate, form_policy", "exact"],
            ["routing table of 23 evaluate methods, argument checks of 23 __init__ methods, loop-nest descriptors of 14 samplers and the "
             "program of the inline remainder() of periodic.pxd, regenerated from the current .pyx/.pxd sources", "Model/C13_Table.v source_table / ctor_table / sampler_table / source_remainder", "syntactic equality, kernel-checked (coq/Gen/C13/Tie.v)"],
        ],
        "partial": ["(closed in round 2: the range theorem 0 <= r < period on binary64 is proved for all finite x and finite p > 0 from FloatAxioms + "
                    "Flocq, C13_periodic_binary64_inner_argument_in_period; the two abstract-rounding theorems are kept); the bit-exact PrimFloat model is tied by correspondence "
                    "and checked against the range claim on every periodic case",
                    "atan2 / cos / sin are oracles: theorems are stated for the rotation given by (x/r, y/r); the angle itself is checked only "
                    "for its quadrant and, through the rotated vector, within 2^-40",
                    "point-in-polygon is the even-odd crossing rule; crossing rule = geometric interior is proved for all triangles (either "
                    "orientation, points off the edge lines) and all rectangles, the crossing rule of any polygon is proved to be the parity of "
                    "a fan of triangles and invariant under vertex rotation/reversal/translation, and every convex polygon (any number of vertices) "
                    "is proved to contain its interior points (crossing test 1) and to exclude every point separated from the vertices by a line "
                    "(crossing test 0), i.e. mask = point-in-polygon for convex polygons in general position; not proved: that a non-convex "
                    "simple polygon's interior points lie in an odd number of fan triangles (Jordan / "
                    "triangulation)"],
    })
    ctx.coverage["samples"] = [C.meta[0], next((m for m in C.meta if m["family"] == "periodic"), C.meta[-1])]
    ctx.grep_gate()
