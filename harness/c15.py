"""C15 -- Observer groups broadcast settings faithfully and keep members consistent.

Theorems: coq/Properties/C15.v (every well-formed descriptor, every group size, every value,
          every history of add / assign / rename / member-list operations).
Tie (T):  harness/c15_translate.py regenerates the descriptor table of the nine group classes from
          the running class objects + their source (ast) on every run; the kernel re-checks
          `all_wf extracted`, `canon_agrees extracted` (= the hand-written table the model runs with)
          and the isinstance matrix (coq/Gen/C15/Tie_*.v).
Tie (X):  random histories are run on the real classes (real raysect observers, observe() counted by
          Python subclasses) and on the model inside Coq (vm_compute); every result and the final
          state of every member are compared exactly.
Search:   the executable statement of the property on the real classes: every attribute of every
          class round-tripped for every value kind and group size, lookups, parents, type guard,
          observe counts.
"""
import builtins
import inspect
import os
import re

import numpy as np

from common import qlit, zlit, coq_string, dyadic, coqc, coqc_many, parse_evals, parse_zlist
import c15_translate as tr

THEOREMS = ["C15_scalar_broadcasts", "C15_sequence_zips", "C15_wrong_length_raises_and_changes_nothing",
            "C15_get_returns_members_in_order", "C15_assignment_touches_nothing_else",
            "C15_table_entries_satisfy_the_property", "C15_canonical_tables_well_formed",
            "C15_add_keeps_order_and_parent", "C15_type_guard", "C15_index_lookup", "C15_slice_lookup",
            "C15_unique_name_lookup", "C15_history_invariant",
            "C15_membership_changes_only_by_add_or_member_list", "C15_observe_once",
            "C15_observe_each_member_exactly_once_in_histories", "C15_member_refusal_touches_nothing_else",
            "C15_direct_member_change_is_read_back", "C15_iteration_yields_members",
            "C15_constructor_adds_in_order", "C15_member_list_assignment", "C15_read_in_any_state",
            "C15_slits_step_invariant", "C15_slits_history_invariant", "C15_connect_pipelines_fresh_and_unshared",
            "C15_shared_semantics_refines_model", "C15_observer_named_twice"]

HEADER = ("Require Import Cherab.Common.Qx.\nFrom Coq Require Import String.\n"
          "Require Import Cherab.Model.C15_Groups Cherab.Model.C15_Table Cherab.Model.C15_Check.\n"
          "Open Scope string_scope.\nOpen Scope list_scope.\nOpen Scope Z_scope.\n")

ERRS = ((ValueError, "EValue"), (TypeError, "EType"), (IndexError, "EIndex"), (AttributeError, "EAttr"))


def err_of(ex):
    for cls, name in ERRS:
        if type(ex) is cls:
            return name
    return "EOther"


# value domains of the member attributes (values the raysect setters accept, away from their
# couplings: spectral_rays <= spectral_bins, min_wavelength < max_wavelength)
DOM = {
    "spectral_bins": ("int", 20, 200), "spectral_rays": ("int", 1, 15),
    "max_wavelength": ("float", 500, 900), "min_wavelength": ("float", 100, 400),
    "ray_extinction_prob": ("float", 0, 1), "ray_max_depth": ("int", 10, 1000),
    "ray_extinction_min_depth": ("int", 0, 9), "ray_importance_sampling": ("bool",),
    "ray_important_path_weight": ("float", 0, 1), "quiet": ("bool",),
    "pixel_samples": ("int", 1, 10000), "samples_per_task": ("int", 1, 1000),
    "sensitivity": ("float", 0.125, 8), "acceptance_angle": ("float", 1, 80), "radius": ("float", 0.015625, 1),
    "x_width": ("float", 0.015625, 1), "y_width": ("float", 0.015625, 1),
    "targetted_path_prob": ("float", 0, 1), "targets": ("targets",), "render_engine": ("engine",),
    "names": ("name",), "pipelines": ("pipelines",), "origin": ("point",), "direction": ("vector",),
    "display_progress": ("bool",), "accumulate": ("bool",),
}
MEMBER_PROPS = {"observers", "sight_lines", "foil_detectors"}
NO_SCALAR = {"names", "pipelines"}     # class docstring: "for any property except names and pipelines"
NAMES = ["a", "b", "c", "d", "A", ""]              # few names (duplicates wanted), one differing by case only, the empty name

INT_MAX = 2 ** 31 - 1
# the member observers' own validation (raysect), used to PREDICT which member refuses a value:
# attr -> (value, member) -> error kind or None.  RuntimeError / OverflowError map to EOther.
RULES = {
    "spectral_bins": lambda v, m: "EValue" if v <= 0 or v < m.spectral_rays else None,
    "spectral_rays": lambda v, m: None if 0 < v <= m.spectral_bins else "EValue",
    "min_wavelength": lambda v, m: "EValue" if v <= 0 or v >= m.max_wavelength else None,
    "max_wavelength": lambda v, m: "EValue" if v <= 0 or v <= m.min_wavelength else None,
    "ray_extinction_prob": lambda v, m: None if 0 <= v <= 1 else "EValue",
    "ray_extinction_min_depth": lambda v, m: "EValue" if v < 0 else None,
    "ray_max_depth": lambda v, m: "EValue" if v < 0 else None,
    "ray_important_path_weight": lambda v, m: None if 0 <= v <= 1 else "EValue",
    "pixel_samples": lambda v, m: "EValue" if v <= 0 else None,
    "samples_per_task": lambda v, m: "EValue" if v <= 0 else None,
    "sensitivity": lambda v, m: "EValue" if v <= 0 else None,
    "acceptance_angle": lambda v, m: None if 0 < v <= 90 else "EOther",
    "radius": lambda v, m: "EOther" if v <= 0 else None,
    "x_width": lambda v, m: "EOther" if v <= 0 else None,
    "y_width": lambda v, m: "EOther" if v <= 0 else None,
    "targetted_path_prob": lambda v, m: "EValue" if v < 0 or v > 1 else None,
}


NO_EXTREME = {"x_width", "y_width", "radius", "acceptance_angle"}


def fits32(x):
    with np.errstate(over="ignore"):
        return float(np.float32(x)) == float(x)


class ListSub(list):
    pass


class TupleSub(tuple):
    pass
UNIQUE = ["u%d" % i for i in range(128)]          # unique member names used by the search

TY = {"SightLine": 1, "FibreOptic": 2, "Pixel": 3, "TargettedPixel": 4, "SpectroscopicSightLine": 5,
      "SpectroscopicFibreOptic": 6, "BolometerFoil": 7, "NotObserver": 9}


# ---------------------------------------------------------------------------------------------
# the real implementation
# ---------------------------------------------------------------------------------------------
class Impl:
    """real classes, counting member subclasses, object registry"""

    def __init__(self):
        from raysect.core import Node, Point3D, Vector3D
        from raysect.core.workflow import RenderEngine, SerialEngine
        from raysect.optical.observer import (SightLine, FibreOptic, Pixel, TargettedPixel, RadiancePipeline0D,
                                              PowerPipeline0D, SpectralPowerPipeline0D, SpectralRadiancePipeline0D)
        from raysect.optical.observer.base import Pipeline0D
        from raysect.primitive import Sphere
        from raysect.core.scenegraph.primitive import Primitive
        from cherab.tools.observers.group.base import Observer0DGroup
        from cherab.tools.observers.group import (SightLineGroup, FibreOpticGroup, PixelGroup, TargettedPixelGroup,
                                                  SpectroscopicFibreOpticGroup, SpectroscopicSightLineGroup)
        from cherab.tools.observers.group.spectroscopic import SpectroscopicObserver0DGroup
        from cherab.tools.observers.spectroscopy import SpectroscopicFibreOptic, SpectroscopicSightLine
        from cherab.tools.observers.bolometry import BolometerCamera, BolometerFoil, BolometerSlit, BolometerIRVB

        self.Point3D, self.Vector3D, self.Node = Point3D, Vector3D, Node
        self.RenderEngine, self.SerialEngine = RenderEngine, SerialEngine
        self.Pipeline0D, self.Primitive, self.Sphere = Pipeline0D, Primitive, Sphere
        self.pipeline_classes = [RadiancePipeline0D, PowerPipeline0D, SpectralPowerPipeline0D, SpectralRadiancePipeline0D]
        self.spectral_pipeline = SpectralPowerPipeline0D
        self.classes = [("Observer0DGroup", Observer0DGroup), ("SightLineGroup", SightLineGroup),
                        ("FibreOpticGroup", FibreOpticGroup), ("PixelGroup", PixelGroup),
                        ("TargettedPixelGroup", TargettedPixelGroup),
                        ("SpectroscopicObserver0DGroup", SpectroscopicObserver0DGroup),
                        ("SpectroscopicFibreOpticGroup", SpectroscopicFibreOpticGroup),
                        ("SpectroscopicSightLineGroup", SpectroscopicSightLineGroup),
                        ("BolometerCamera", BolometerCamera)]
        self.cls = dict(self.classes)
        self.trace = []
        trace = self.trace

        def counting(base):
            class C(base):
                def observe(self):
                    trace.append(self)
                    self.verif_obs = getattr(self, "verif_obs", 0) + 1
            C.__name__ = "Counting" + base.__name__
            return C
        self.base_types = {1: SightLine, 2: FibreOptic, 3: Pixel, 4: TargettedPixel, 5: SpectroscopicSightLine,
                           6: SpectroscopicFibreOptic, 7: BolometerFoil}
        self.member_types = {t: counting(b) for t, b in self.base_types.items()}
        self.slits = [BolometerSlit("slit%d" % i, Point3D(0.01 * i, 0, 0), Vector3D(1, 0, 0), 0.005, Vector3D(0, 1, 0), 0.005)
                      for i in range(3)]
        self.slit = self.slits[0]
        self.n_foils = 0
        self.sphere0 = Sphere(0.5)
        self.declared = {}
        for cname, cls in self.classes:
            self.declared[cname] = (BolometerFoil, BolometerIRVB) if cname == "BolometerCamera" else cls._OBSERVER_TYPE
        # identity registry
        self.reg = {}
        self.keep = []

    def accept_matrix(self):
        return [(cname, [t for t in sorted(self.base_types) if issubclass(self.base_types[t], self.declared[cname])])
                for cname, _ in self.classes]

    def make_member(self, ty, name):
        P, V = self.Point3D, self.Vector3D
        C = self.member_types.get(ty)
        if ty in (1, 2, 3, 5, 6):
            return C(name=name)
        if ty == 4:
            return C([self.sphere0], name=name)
        if ty == 7:
            self.n_foils += 1           # foils share three slits (pattern 0,1,0,2,1,0,...: repeats and new ones in any order)
            o = C(name, P(0, 0, -0.08), V(1, 0, 0), 0.0025, V(0, 1, 0), 0.005, self.slits[(self.n_foils * 7 // 3) % 3])
            o.spectral_bins = 15       # a foil is built with one spectral bin, which would refuse spectral_rays > 1
            return o
        return self.Node(name=name)          # ty 9: a scene-graph node that is not an observer

    def new_group(self, cname):
        return self.cls[cname](name="group")

    def members(self, cname, g):
        return list(g.foil_detectors) if cname == "BolometerCamera" else list(g.observers)

    # -- values ------------------------------------------------------------------------------
    def obj_id(self, o):
        k = id(o)
        if k not in self.reg:
            if isinstance(o, self.RenderEngine):
                tag = 1
            elif isinstance(o, self.Primitive):
                tag = 2
            elif isinstance(o, self.Pipeline0D):
                tag = 3
            else:
                tag = 0
            self.reg[k] = (tag, len(self.reg) + 1)
            self.keep.append(o)
        return self.reg[k]

    def enc(self, v):
        if v is None:
            return "VNone"
        if isinstance(v, (bool, np.bool_)):
            return "(VB %s)" % ("true" if v else "false")
        if isinstance(v, (int, np.integer)):
            return "(VQ %s)" % qlit(int(v))
        if isinstance(v, (float, np.floating)):
            return "(VQ %s)" % qlit(float(v))
        if isinstance(v, str):
            return "(VS %s)" % coq_string(v)
        if isinstance(v, list):
            return "(VSeq KList [%s])" % "; ".join(self.enc(x) for x in v)
        if isinstance(v, tuple):
            return "(VSeq KTuple [%s])" % "; ".join(self.enc(x) for x in v)
        if isinstance(v, np.ndarray):
            return "(VSeq KArr [%s])" % "; ".join(self.enc(x) for x in v)
        if isinstance(v, self.Point3D):
            return "(VRec tag_point [%s])" % "; ".join("VQ " + qlit(c) for c in (v.x, v.y, v.z))
        if isinstance(v, self.Vector3D):
            return "(VRec tag_vector [%s])" % "; ".join("VQ " + qlit(c) for c in (v.x, v.y, v.z))
        tag, idx = self.obj_id(v)
        return "(VObj %d %d)" % (tag, idx)

    def same(self, a, b):
        """equality of two values as the property means it (container kind of read-back values ignored)"""
        num = (int, float, np.integer, np.floating)
        if isinstance(a, (bool, np.bool_)) or isinstance(b, (bool, np.bool_)):
            return isinstance(a, (bool, np.bool_)) and isinstance(b, (bool, np.bool_)) and bool(a) == bool(b)
        if isinstance(a, num) and isinstance(b, num):
            return float(a) == float(b)
        seq = (list, tuple, np.ndarray)
        if isinstance(a, seq) and isinstance(b, seq):
            return len(a) == len(b) and all(self.same(x, y) for x, y in zip(a, b))
        for T in (self.Point3D, self.Vector3D):
            if isinstance(a, T) and isinstance(b, T):
                return (a.x, a.y, a.z) == (b.x, b.y, b.z)
        if a is None or b is None or isinstance(a, str) or isinstance(b, str):
            return type(a) is type(b) and a == b
        return a is b

    def norm_read(self, attr, v):
        """deprecated spectroscopic observers report display_progress / accumulate as a list with one
        entry per pipeline; with the single default pipeline that is [value]"""
        if attr in ("display_progress", "accumulate") and isinstance(v, list) and len(v) == 1:
            return v[0]
        return v

    def read(self, m, attr):
        # an attribute the object does not have reads as None (only possible for an object that should
        # never have become a member; the model then disagrees and the case is reported)
        return self.norm_read(attr, getattr(m, attr, None))

    # -- random values -------------------------------------------------------------------------
    def rand_value(self, rng, attr, mode="plain"):
        """mode 'plain': a value every member accepts, in its usual Python form.
        mode 'any': additionally exact bounds of the member's guards, 0 / -0.0 / negative / huge /
        subnormal values (some of which the member refuses) and numpy scalar / bool / int forms."""
        d = DOM[attr]
        edge = mode == "any" and rng.random() < 0.3
        if d[0] == "int":
            if edge:
                v = rng.choice([0, -1, 1, 2, d[1], d[2], 9, 10, 11, 99, 100, 101, INT_MAX, INT_MAX + 1, -INT_MAX - 1])
            else:
                v = rng.randint(d[1], d[2])
            if mode == "any":
                f = rng.random()
                if f < 0.2:
                    v = np.int64(v)
                elif f < 0.3 and -INT_MAX <= v <= INT_MAX:
                    v = np.int32(v)
                elif f < 0.4 and v in (0, 1):
                    v = bool(v)
            return v
        if d[0] == "float":
            if edge:
                v = rng.choice([0.0, -0.0, 1.0, -1.0, float(d[1]), float(d[2]), 2.0 ** 900, 5e-324, 2.0 ** -1000, 90.0,
                                float(np.nextafter(90.0, 100.0)), float(np.nextafter(1.0, 2.0)), float(np.nextafter(1.0, 0.0)),
                                0.5, -2.0 ** 900])
                if attr in NO_EXTREME and not (2.0 ** -60 <= abs(v) <= 2.0 ** 60 or v == 0):
                    v = 1.0        # these setters also build samplers from the value; extremes fail inside raysect
            else:
                v = dyadic(rng, d[1], d[2], 6)
            if mode == "any":
                f = rng.random()
                if f < 0.2:
                    v = np.float64(v)
                elif f < 0.3 and fits32(v):
                    v = np.float32(v)
                elif f < 0.4 and float(v).is_integer() and abs(v) < 2 ** 53:
                    v = int(v)
            return v
        if d[0] == "bool":
            v = rng.random() < 0.5
            if mode == "any":
                f = rng.random()
                if f < 0.2:
                    v = np.bool_(v)
                elif f < 0.35:
                    v = int(v)
            return v
        if d[0] == "engine":
            return self.SerialEngine()
        if d[0] == "name":
            return rng.choice(NAMES)
        if d[0] == "pipelines":
            return [rng.choice(self.pipeline_classes)() for _ in range(rng.randint(1, 2))]
        if d[0] == "targets":
            return [self.Sphere(0.25) for _ in range(rng.randint(1, 3))]
        if d[0] == "point":
            return self.Point3D(dyadic(rng, -4, 4, 3), dyadic(rng, -4, 4, 3), dyadic(rng, -4, 4, 3))
        if d[0] == "vector":
            return self.Vector3D(*rng.choice([(1, 0, 0), (-1, 0, 0), (0, 1, 0), (0, -1, 0), (0, 0, 1)]))
        raise KeyError(attr)

    def probe_rules(self):
        """behavioural probe of RULES / coerce (the harness' prediction of which member refuses what):
        every rule is compared with the real member setter on the boundary values of its guards"""
        n, bad = 0, []
        ints = [0, -1, 1, 2, 9, 10, 11, 15, 16, 99, 100, 101, INT_MAX, INT_MAX + 1, -INT_MAX - 1, -INT_MAX - 2]
        floats = [0.0, -0.0, 1.0, -1.0, 0.5, 2.0 ** 900, 5e-324, 2.0 ** -1000, 90.0, float(np.nextafter(90.0, 100.0)),
                  float(np.nextafter(1.0, 2.0)), float(np.nextafter(1.0, 0.0)), -2.0 ** 900, 375.0, 740.0, 100.0, 900.0]
        for ty in sorted(self.base_types):
            for attr in sorted(RULES):
                probe = self.make_member(ty, "p")
                if not hasattr(probe, attr):
                    continue
                try:
                    setattr(probe, attr, getattr(probe, attr))
                except AttributeError:
                    continue          # read-only on this observer type (e.g. FibreOptic.sensitivity): no group sets it
                vals = ints if DOM[attr][0] == "int" else [v for v in floats if attr not in NO_EXTREME or v == 0 or 2.0 ** -60 <= abs(v) <= 2.0 ** 60]
                m = probe                      # one live member per (type, attribute): the rules read its current state
                for v in vals:
                    want = self.rejects(attr, v, m)
                    n += 1
                    try:
                        setattr(m, attr, v)
                        got = None
                        if want is None and not self.same(getattr(m, attr), self.coerce(attr, v)):
                            bad.append((ty, attr, v, "stored %r" % (getattr(m, attr),)))
                    except Exception as ex:
                        got = err_of(ex)
                    if got != want:
                        bad.append((ty, attr, v, "rule says %s, member says %s" % (want, got)))
        return n, bad

    def numeric(self, attr):
        return DOM[attr][0] in ("int", "float", "bool")

    def coerce(self, attr, x):
        """the conversion done by the member's C-typed attribute (int / double / bint)"""
        k = DOM[attr][0]
        if k == "int":
            return int(x)
        if k == "float":
            return float(x)
        if k == "bool":
            return bool(x)
        return x

    def rejects(self, attr, v, m):
        """error kind with which member m refuses value v for attr (raysect's rules), or None"""
        k = DOM[attr][0]
        if k == "bool":
            return None
        v = int(v) if k == "int" else float(v)
        rule = RULES.get(attr)
        e = rule(v, m) if rule else None           # the Python-level comparisons of the setter come first ...
        if e is None and k == "int" and not -INT_MAX - 1 <= v <= INT_MAX:
            return "EOther"                          # ... then the store into a C int (OverflowError)
        return e

    def first_refusal(self, attr, v, ms):
        """(index, error) of the first member that refuses, for a value the group takes as scalar or
        as a sequence of group length; None when every member accepts"""
        seq = isinstance(v, (list, tuple, np.ndarray))
        for i, m in enumerate(ms):
            e = self.rejects(attr, v[i] if seq else v, m)
            if e:
                return i, e
        return None

    def enc_assigned(self, attr, v):
        """encoding of an assigned value: numeric elements as the member will store them"""
        if not self.numeric(attr):
            return self.enc(v)
        if isinstance(v, (list, tuple, np.ndarray)):
            kind = "KList" if isinstance(v, list) else "KTuple" if isinstance(v, tuple) else "KArr"
            return "(VSeq %s [%s])" % (kind, "; ".join(self.enc(self.coerce(attr, x)) for x in v))
        return self.enc(self.coerce(attr, v))

    def to_kind(self, kind, vals, attr, rng=None):
        """rng given: also list / tuple subclasses, narrower dtypes, non-contiguous and read-only arrays"""
        if kind == "list":
            return ListSub(vals) if rng and rng.random() < 0.1 else list(vals)
        if kind == "tuple":
            return TupleSub(vals) if rng and rng.random() < 0.1 else tuple(vals)
        k = DOM[attr][0]
        dtype = {"int": np.int64, "float": np.float64, "bool": np.bool_}[k]
        if rng and rng.random() < 0.35:
            if k == "int" and all(-INT_MAX <= int(x) <= INT_MAX for x in vals):
                dtype = np.int32
            elif k == "float" and all(fits32(x) for x in vals):
                dtype = np.float32
            elif k == "float" and all(float(x).is_integer() and abs(float(x)) < 2 ** 53 for x in vals):
                dtype = np.int64
            elif k == "bool":
                dtype = np.int8
        if k == "int" and any(not -2 ** 63 <= int(x) < 2 ** 63 for x in vals):
            vals = [min(max(int(x), -2 ** 63), 2 ** 63 - 1) for x in vals]
        arr = np.array([self.coerce(attr, x) if k != "bool" else bool(x) for x in vals], dtype=dtype)
        if rng and rng.random() < 0.2 and len(vals):
            arr = np.repeat(arr, 2)[::2]                 # non-contiguous view
        if rng and rng.random() < 0.2:
            arr.flags.writeable = False
        return arr


# ---------------------------------------------------------------------------------------------
# failing-input search: the property, executed on the real classes
# ---------------------------------------------------------------------------------------------
def class_attrs(cls):
    """every Python-level property of the class that is not the member list itself"""
    out = []
    for name in sorted(dir(cls)):
        a = inspect.getattr_static(cls, name)
        if isinstance(a, property) and name not in MEMBER_PROPS and (cls.__name__, name) not in tr.IGNORE:
            out.append((name, a))
    return out


def accepted_types(impl, cname):
    return [t for t in sorted(impl.base_types) if issubclass(impl.base_types[t], impl.declared[cname])]


def usable_types(impl, cname):
    """accepted member types that carry every attribute of the group class"""
    ts = accepted_types(impl, cname)
    if cname.startswith("Spectroscopic"):
        ts = [t for t in ts if t in (5, 6)]
    return ts


def build_group(impl, rng, cname, n, unique_names=True):
    g = impl.new_group(cname)
    ts = usable_types(impl, cname)
    ms = []
    for i in range(n):
        m = impl.make_member(rng.choice(ts), UNIQUE[i] if unique_names else rng.choice(NAMES[:2]))
        if cname == "BolometerCamera":
            g.add_foil_detector(m)
        else:
            g.add_observer(m)
        ms.append(m)
    return g, ms


def full_snapshot(impl, cname, g, attrs):
    ms = impl.members(cname, g)
    return [(m, m.parent is g, [impl.read(m, tr_member_attr(a)) for a in attrs]) for m in ms]


def tr_member_attr(a):
    return "name" if a == "names" else a


def snap_same(impl, s1, s2):
    return len(s1) == len(s2) and all(a[0] is b[0] and a[1] == b[1] and len(a[2]) == len(b[2])
                                      and all(impl.same(x, y) for x, y in zip(a[2], b[2])) for a, b in zip(s1, s2))


def search(impl, rng, sizes, only=None):
    """returns (failures, number of checks).  A failure is a dict with a stable key."""
    fails = []
    checks = 0

    def fail(cname, where, claim, **kw):
        fails.append(dict({"key": "c15:%s.%s:%s" % (cname, where, claim.split(":")[0]), "class": cname, "where": where,
                           "claim": claim}, **{k: repr(v)[:300] for k, v in kw.items()}))

    for cname, cls in impl.classes:
        if only and cname not in only:
            continue
        props = class_attrs(cls)
        attrs = [a for a, _ in props]
        for a, p in props:
            if a not in DOM:
                fail(cname, a, "unknown-attribute: the check has no value domain for this group attribute")
                continue
            src = inspect.getsource(p.fset) if p.fset is not None else ""
            kinds = ["list", "tuple"] + (["array"] if "ndarray" in src and impl.numeric(a) else [])
            ma = tr_member_attr(a)
            for n in sizes:
                # ---- single value -------------------------------------------------------------
                if a not in NO_SCALAR:
                    g, ms = build_group(impl, rng, cname, n)
                    v = impl.rand_value(rng, a)
                    checks += 1
                    try:
                        setattr(g, a, v)
                        bad = [i for i, m in enumerate(ms) if not impl.same(impl.read(m, ma), v)]
                        got = [impl.norm_read(a, x) for x in getattr(g, a)]
                        if bad:
                            fail(cname, a, "scalar: a single value is not given to every member", n=n, value=v, members=bad)
                        elif not (len(got) == n and all(impl.same(x, v) for x in got)):
                            fail(cname, a, "read: reading does not return the members' values in order", n=n, value=v, got=got)
                        elif impl.members(cname, g) != ms or any(m.parent is not g for m in ms):
                            fail(cname, a, "members: assignment disturbed membership / parents", n=n)
                    except Exception as ex:
                        fail(cname, a, "scalar: assigning a single value raised", n=n, value=v, error=repr(ex))
                # ---- a sequence of group length ---------------------------------------------------
                for kind in kinds:
                    g, ms = build_group(impl, rng, cname, n)
                    vals = [impl.rand_value(rng, a) for _ in range(n)]
                    if a == "names":
                        vals = [NAMES[(i + 2) % 6] for i in range(n)]
                    seq = impl.to_kind(kind, vals, a)
                    # (the deprecated spectroscopic observers keep display_progress / accumulate inside their pipelines)
                    other = [b for b in attrs if b != a and not (a == "pipelines" and b in ("display_progress", "accumulate"))]
                    before = full_snapshot(impl, cname, g, other)
                    checks += 1
                    try:
                        setattr(g, a, seq)
                        bad = [i for i, m in enumerate(ms) if not impl.same(impl.read(m, ma), vals[i])]
                        got = [impl.norm_read(a, x) for x in getattr(g, a)]
                        if bad:
                            fail(cname, a, "zip: a sequence of group length is not assigned element-wise", n=n, kind=kind,
                                 value=vals, members=bad)
                        elif not (len(got) == n and all(impl.same(x, y) for x, y in zip(got, vals))):
                            fail(cname, a, "read: reading does not return the members' values in order", n=n, kind=kind,
                                 value=vals, got=got)
                        elif not snap_same(impl, before, full_snapshot(impl, cname, g, other)):
                            fail(cname, a, "frame: assignment changed another attribute / membership / parent", n=n, kind=kind)
                    except Exception as ex:
                        fail(cname, a, "zip: assigning a sequence of group length raised", n=n, kind=kind, value=vals,
                             error=repr(ex))
                    # ---- a sequence of another length -------------------------------------------
                    for wl in sorted({n + 1, n + 3} | ({n - 1, 0} if n > 0 else set())):
                        if wl == n:
                            continue
                        g, ms = build_group(impl, rng, cname, n)
                        wvals = [impl.rand_value(rng, a) for _ in range(wl)]
                        wseq = impl.to_kind(kind, wvals, a)
                        before = full_snapshot(impl, cname, g, attrs)
                        checks += 1
                        try:
                            setattr(g, a, wseq)
                            fail(cname, a, "wrong-length: a sequence of another length did not raise ValueError", n=n,
                                 kind=kind, length=wl)
                        except ValueError:
                            if not snap_same(impl, before, full_snapshot(impl, cname, g, attrs)):
                                fail(cname, a, "wrong-length: a rejected sequence changed the group", n=n, kind=kind, length=wl)
                        except Exception as ex:
                            fail(cname, a, "wrong-length: a sequence of another length raised something else than ValueError",
                                 n=n, kind=kind, length=wl, error=repr(ex))
        # ---- retrieval, parents, type guard, observe --------------------------------------------
        for n in sizes:
            g, ms = build_group(impl, rng, cname, n)
            checks += 1
            if impl.members(cname, g) != ms or len(g) != n:
                fail(cname, "add", "order: members are not kept in the order they were added", n=n)
            if any(m.parent is not g for m in ms):
                fail(cname, "add", "parent: a member's scene-graph parent is not the group", n=n)
            for i in range(-n, n):
                try:
                    if g[i] is not ms[i]:
                        fail(cname, "__getitem__", "index: group[i] is not the i-th member", n=n, i=i)
                except Exception as ex:
                    fail(cname, "__getitem__", "index: group[i] raised for a valid index", n=n, i=i, error=repr(ex))
            for _ in range(4):
                lo = rng.choice([None] + list(range(-n - 1, n + 2)))
                hi = rng.choice([None] + list(range(-n - 1, n + 2)))
                st = rng.choice([None, None, 1, 2, -1])
                sl = builtins.slice(lo, hi, st)
                try:
                    got = list(g[sl])
                    if len(got) != len(ms[sl]) or any(x is not y for x, y in zip(got, ms[sl])):
                        fail(cname, "__getitem__", "slice: group[slice] is not the slice of the members", n=n, slice=sl)
                except Exception as ex:
                    fail(cname, "__getitem__", "slice: members are not retrievable by slice", n=n, slice=sl, error=repr(ex))
            for i, m in enumerate(ms):
                try:
                    if g[UNIQUE[i]] is not m:
                        fail(cname, "__getitem__", "name: group[unique name] is not that member", n=n, name=UNIQUE[i])
                except Exception as ex:
                    fail(cname, "__getitem__", "name: group[unique name] raised", n=n, name=UNIQUE[i], error=repr(ex))
            # type guard
            for t in sorted(impl.base_types) + [9]:
                ok_type = t != 9 and issubclass(impl.base_types[t], impl.declared[cname])
                if ok_type:
                    continue
                adders = ["add_foil_detector"] if cname == "BolometerCamera" else \
                    ["add_observer"] + (["add_sight_line"] if hasattr(g, "add_sight_line") else [])
                lists = ["foil_detectors"] if cname == "BolometerCamera" else \
                    ["observers"] + (["sight_lines"] if hasattr(cls, "sight_lines") else [])
                for adder in adders:
                    obj = impl.make_member(t, "z")
                    try:
                        getattr(g, adder)(obj)
                        fail(cname, adder, "type: an object that is not an observer of the group's type was accepted", n=n, type=t)
                        g, ms = build_group(impl, rng, cname, n)
                    except (ValueError, TypeError):
                        if impl.members(cname, g) != ms:
                            fail(cname, adder, "type: a rejected object changed the member list", n=n, type=t)
                for la in lists:
                    obj = impl.make_member(t, "z")
                    try:
                        setattr(g, la, ms + [obj])
                        fail(cname, la + "=", "type: a member list with a foreign object was accepted", n=n, type=t)
                        g, ms = build_group(impl, rng, cname, n)
                    except (ValueError, TypeError):
                        if impl.members(cname, g) != ms:
                            fail(cname, la + "=", "type: a rejected member list changed the group", n=n, type=t)
            # observe
            del impl.trace[:]
            try:
                g.observe()
                if len(impl.trace) != n or any(x is not y for x, y in zip(impl.trace, ms)):
                    fail(cname, "observe", "observe: observing the group does not observe every member once, in order", n=n,
                         trace=[getattr(x, "name", None) for x in impl.trace])
            except Exception as ex:
                fail(cname, "observe", "observe: observe() raised", n=n, error=repr(ex))
            # member list assignment keeps parents
            lists = ["foil_detectors"] if cname == "BolometerCamera" else \
                ["observers"] + (["sight_lines"] if hasattr(cls, "sight_lines") else [])
            for la in lists:
                perm = list(ms)
                rng.shuffle(perm)
                perm.insert(rng.randint(0, len(perm)), impl.make_member(rng.choice(usable_types(impl, cname)), "y"))
                try:
                    setattr(g, la, perm)
                    if impl.members(cname, g) != perm:
                        fail(cname, la + "=", "order: after assigning the member list the members are not that list", n=n)
                    elif any(m.parent is not g for m in perm):
                        fail(cname, la + "=", "parent: after assigning the member list a member's parent is not the group", n=n)
                    ms = perm
                except Exception as ex:
                    fail(cname, la + "=", "members: assigning a list of observers of the group's type raised", n=n, error=repr(ex))
            # every adder: appended last, parent set
            for adder in (["add_foil_detector"] if cname == "BolometerCamera" else
                          ["add_observer"] + (["add_sight_line"] if hasattr(g, "add_sight_line") else [])):
                obj = impl.make_member(rng.choice(usable_types(impl, cname)), "x")
                try:
                    getattr(g, adder)(obj)
                    now = impl.members(cname, g)
                    if len(now) != len(ms) + 1 or now[-1] is not obj or any(x is not y for x, y in zip(now, ms)):
                        fail(cname, adder, "order: an added observer is not appended after the existing members", n=n)
                    elif obj.parent is not g:
                        fail(cname, adder, "parent: an added observer's parent is not the group", n=n)
                    ms = now
                except Exception as ex:
                    fail(cname, adder, "add: adding an observer of the group's type raised", n=n, error=repr(ex))
    from c15_live import search_live
    checks += search_live(impl, rng, sizes, fail)
    return fails, checks


# ---------------------------------------------------------------------------------------------
# correspondence: random histories
# ---------------------------------------------------------------------------------------------
def opt(x):
    return "None" if x is None else "(Some %s)" % zlit(x)


class Case:
    """one history on one group of one class: generated and executed on the implementation at the
    same time (the generator needs the current size)"""

    def __init__(self, impl, rng, cname, table_rows, attrs, max_ops, base_names=(), script=None):
        self.impl, self.rng, self.cname = impl, rng, cname
        self.rows = {r["name"]: r for r in table_rows if r["name"] not in MEMBER_PROPS}
        self.specific = sorted(a for a in self.rows if a not in base_names)   # attributes the subclass adds
        self.attrs = attrs            # member attributes compared in the final state (Coq's attrs_of)
        self.bolo = cname == "BolometerCamera"
        self.g = impl.new_group(cname)
        self.pool = []                # (id, ty, obj, initial store text)
        self.ids = {}
        self.ops, self.res, self.desc = [], [], []
        self.dropped = set()
        self.stats = {}
        self.cps = []
        self.slit_cps = []
        if script is None:
            self.run(max_ops)
        else:
            self.run_script(script)
        self.finish()

    # -- objects ----------------------------------------------------------------------------------
    def new_obj(self, ty):
        name = self.rng.choice(NAMES)
        o = self.impl.make_member(ty, name)
        oid = len(self.pool) + 1
        if ty == 9:
            st = "[]"
        else:
            names = ["name"] + [a for a in self.attrs if a != "name" and hasattr(o, a)]
            st = "[" + "; ".join(["(%s, %s)" % (coq_string(a), self.impl.enc(self.impl.read(o, a))) for a in names]
                                 + (["(\"slit\", %s)" % self.impl.enc(o.slit)] if ty == 7 else [])) + "]"
        self.pool.append((oid, ty, o, st))
        self.ids[id(o)] = oid
        return oid, o

    def members(self):
        return self.impl.members(self.cname, self.g)

    def has_repeats(self):
        ms = self.members()
        return len({id(m) for m in ms}) != len(ms)

    def stat(self, k):
        self.stats[k] = self.stats.get(k, 0) + 1

    # -- one operation ------------------------------------------------------------------------------
    def do(self, coq_op, desc, fn):
        try:
            r = fn()
        except Exception as ex:                      # mapped to the error enum and compared with the model
            r = "RErr %s" % err_of(ex)
            self.stat("errors:" + err_of(ex))
        self.ops.append(coq_op)
        self.res.append(r)
        self.desc.append(desc)
        if self.bolo and self.rng.random() < 0.6:
            self.slit_cps.append("(%d%%nat, [%s])" % (len(self.ops) - 1, "; ".join(str(self.impl.obj_id(x)[1]) for x in self.g.slits)))
        # checkpoint: the full state of every member right after this operation (always after a member
        # refused a value, an error, a member-list assignment; otherwise at random)
        if len(self.members()) <= 12 and (coq_op.startswith(("OAssignRej", "OSetMembers", "ODirect")) or r.startswith("RErr")
                                          or self.rng.random() < 0.08):
            self.cps.append("(%d%%nat, [%s])" % (len(self.ops) - 1, ";\n    ".join(self.snapshot())))

    def snapshot(self):
        snaps = []
        for m in self.members():
            vals = "; ".join(self.impl.enc(self.impl.read(m, a)) for a in self.attrs)
            snaps.append("{| s_id := %d; s_ty := %d; s_parent_ok := %s; s_obs := %d; s_vals := [%s] |}" % (
                self.ids[id(m)], self.pool[self.ids[id(m)] - 1][1], "true" if m.parent is self.g else "false",
                getattr(m, "verif_obs", 0), vals))
        return snaps

    def op_add(self, wrong=False, ty=None, method=None):
        impl, rng = self.impl, self.rng
        ok = usable_types(impl, self.cname)
        cur = self.members()
        if ty is None and not wrong and cur and rng.random() < 0.05:
            o = rng.choice(cur)                  # the same observer once more: a second slot for one object
            oid = self.ids[id(o)]
            meth = self.g.add_foil_detector if self.bolo else self.g.add_observer
            self.stat("add_member_again")
            return self.do("OAdd %d" % oid, "add #%d again" % oid, lambda: (meth(o), "ROk")[1])
        if ty is not None:
            wrong = ty == 9 or ty not in accepted_types(impl, self.cname)
        elif wrong:
            bad = [t for t in list(impl.base_types) + [9] if t == 9 or t not in accepted_types(impl, self.cname)]
            ty = rng.choice(bad)
        else:
            ty = rng.choice(ok)
        oid, o = self.new_obj(ty)
        if self.bolo:
            meth = self.g.add_foil_detector
        elif self.cname.startswith("Spectroscopic") and rng.random() < 0.3:
            meth = self.g.add_sight_line
        else:
            meth = self.g.add_observer
        if method is not None:
            meth = getattr(self.g, method)
        self.stat("add_wrong_type" if wrong else "add")
        self.do("OAdd %d" % oid, "add #%d (type %d)" % (oid, ty), lambda: (meth(o), "ROk")[1])

    def op_setmembers(self):
        impl, rng = self.impl, self.rng
        cur = self.members()
        objs = list(cur)
        rng.shuffle(objs)
        objs = objs[:rng.randint(0, len(objs))] if rng.random() < 0.4 else objs
        if rng.random() < 0.4:
            objs.append(self.new_obj(rng.choice(usable_types(impl, self.cname)))[1])
        if rng.random() < 0.15:
            bad = [t for t in list(impl.base_types) + [9] if t == 9 or t not in accepted_types(impl, self.cname)]
            objs.insert(rng.randint(0, len(objs)), self.new_obj(rng.choice(bad))[1])
        if objs and rng.random() < 0.15:
            objs.insert(rng.randint(0, len(objs)), rng.choice(objs))      # one observer named twice
            self.stat("setmembers:with-repeat")
        kind = rng.choice(["list", "list", "tuple", "scalar"] if not self.bolo else ["list", "list", "tuple"])
        ids = [self.ids[id(o)] for o in objs]
        if kind == "scalar":
            if not objs:
                objs = [self.new_obj(rng.choice(usable_types(impl, self.cname)))[1]]
                ids = [self.ids[id(objs[0])]]
            value, k = objs[0], "None"
            ids = ids[:1]
        else:
            value = list(objs) if kind == "list" else tuple(objs)
            k = "(Some %s)" % ("KList" if kind == "list" else "KTuple")
        attr = "foil_detectors" if self.bolo else ("sight_lines" if self.cname.startswith("Spectroscopic") and rng.random() < 0.5
                                                   else "observers")
        self.stat("setmembers:" + kind)

        def fn():
            setattr(self.g, attr, value)
            return "ROk"
        before = list(cur)
        self.do("OSetMembers %s [%s]" % (k, "; ".join(map(str, ids))), "%s = %s of #%s" % (attr, kind, ids), fn)
        now = self.members()
        for o in before:
            if not any(o is x for x in now):
                self.dropped.add(id(o))

    def op_assign(self, attr=None, mode=None):
        impl, rng = self.impl, self.rng
        n = len(self.members())
        a = rng.choice(self.specific) if self.specific and rng.random() < 0.4 else rng.choice(sorted(self.rows))
        if self.cname.startswith("Spectroscopic") and a == "pipelines":
            a = "display_progress"        # replacing the pipelines resets display_progress/accumulate (held by the pipelines)
        if attr is not None:
            a = attr
        shape = self.rows[a]["shape"]
        kinds = ["list", "tuple"] + (["array"] if "KArr" in shape and impl.numeric(a) else [])
        r = rng.random()
        forced_kind = mode if mode in ("list", "tuple", "array") else None
        if mode is not None:
            r = {"scalar": 0.0, "seq": 0.5, "list": 0.5, "tuple": 0.5, "array": 0.5, "wrong-length": 0.8, "type-error": 0.95}[mode]
        if r < 0.30 and a not in NO_SCALAR:
            mode, v = "scalar", impl.rand_value(rng, a, "any")
        elif r < 0.65:
            mode = forced_kind or rng.choice(kinds)
            v = impl.to_kind(mode, [impl.rand_value(rng, a, "any") for _ in range(n)], a, rng)
        elif r < 0.90:
            mode = "wrong-length"
            wl = rng.choice([x for x in (n - 1, n + 1, 0, n + 2, 2 * n) if x >= 0 and x != n])
            v = impl.to_kind(rng.choice(kinds), [impl.rand_value(rng, a, "any") for _ in range(wl)], a, rng)
        else:
            mode = "type-error"
            if a == "render_engine":
                vals = [impl.rand_value(rng, a) for _ in range(n)]
                if n and rng.random() < 0.6:
                    vals[rng.randrange(n)] = 3
                    v = rng.choice([list, tuple])(vals)
                else:
                    v = 3
            elif a in NO_SCALAR or a == "targets":
                v = rng.choice([7, self.impl.sphere0]) if a != "names" else rng.choice([7, None])
            elif a == "names":
                v = rng.choice([7, None, "ab"[:n] or "x"])
            else:
                mode, v = "scalar", impl.rand_value(rng, a, "any")
        # which member (if any) refuses its value: predicted from raysect's rules, not from the outcome
        if attr is None and forced_kind is None and getattr(self, "last", None) and rng.random() < 0.12:
            a, v, mode = self.last[0], self.last[1], "same-value-again:" + self.last[2]     # the very same object once more
        elif mode != "type-error":
            self.last = (a, v, mode)
        refusal = None
        is_seq = isinstance(v, (list, tuple, np.ndarray))
        if impl.numeric(a) and not mode.endswith("type-error") and not (is_seq and len(v) != n):
            refusal = impl.first_refusal(a, v, self.members())
        if self.has_repeats() and (refusal is not None or (a == "render_engine" and mode.endswith("type-error"))):
            # a loop stopping half way on a group that holds one observer twice is outside the sharing model
            mode, v = "scalar", impl.rand_value(rng, a)
            if impl.numeric(a) and impl.first_refusal(a, v, self.members()) is not None:
                return self.op_len()     # (the members' state refuses even the usual values)
            refusal = None
        self.stat("assign:" + mode.split(":")[0])
        self.stat("assign@" + a)

        def fn():
            setattr(self.g, a, v)
            return "ROk"
        if refusal is not None:
            self.stat("assign:member-refuses")
            self.do("OAssignRej %s %s %d %s" % (coq_string(a), impl.enc_assigned(a, v), refusal[0], refusal[1]),
                    "%s = <%s, member %d refuses: %s>" % (a, mode, refusal[0], refusal[1]), fn)
        else:
            self.do("OAssign %s %s" % (coq_string(a), impl.enc_assigned(a, v)), "%s = <%s>" % (a, mode), fn)

    def op_direct(self):
        """change a member directly (not through the group): the group must read the new value"""
        impl, rng = self.impl, self.rng
        ms = self.members()
        cands = [a for a in self.rows if impl.numeric(a)] + (["names"] if "names" in self.rows else [])
        if not ms or not cands:
            return self.op_len()
        m = rng.choice(ms)
        a = rng.choice(sorted(cands))
        ma = tr_member_attr(a)
        v = impl.rand_value(rng, a, "any")
        if impl.numeric(a) and impl.rejects(a, v, m):
            v = impl.rand_value(rng, a)
            if impl.rejects(a, v, m):
                return self.op_len()
        self.stat("direct_member_change")
        self.do("ODirect %d %s %s" % (self.ids[id(m)], coq_string(ma), impl.enc_assigned(a, v)),
                "member #%d .%s = value" % (self.ids[id(m)], ma), lambda: (setattr(m, ma, v), "ROk")[1])

    def op_connect(self):
        """connect_pipelines (base signature): the identities of the new pipelines are an outcome; the model
        accepts the outcome only if it meets the identity-free specification (connect_valid)"""
        impl, rng = self.impl, self.rng
        if self.bolo or self.cname.startswith("Spectroscopic") or self.has_repeats():
            return self.op_len()       # (two slots of one observer read the same row: outside the identity-free specification)
        P = impl.pipeline_classes
        idx = [rng.randrange(len(P)) for _ in range(rng.choice([1, 1, 2, 2, 3, 0]))]
        mode = rng.choice(["default", "default", "given", "given", "mismatch"])
        kw = None if mode == "default" else [{} for _ in idx] if mode == "given" else [{} for _ in range(len(idx) + rng.choice([1, -1]) if idx else 1)]
        if kw is not None and kw and rng.random() < 0.5:
            kw[0] = {"name": "p"}
        w = len(impl.reg)
        self.stat("connect_pipelines:" + mode)
        try:
            if kw is None:
                self.g.connect_pipelines([P[i] for i in idx])
            else:
                self.g.connect_pipelines([P[i] for i in idx], kw, suppress_display_progress=rng.random() < 0.5)
            result = "ROk"
        except Exception as ex:               # mapped to the error enum and compared with the model
            result = "RErr %s" % err_of(ex)
            self.stat("errors:" + err_of(ex))
        rows = []
        for m in self.members():
            rows.append("[%s]" % "; ".join("(%d, %d)" % (next((k for k, c in enumerate(P) if type(p) is c), 99), impl.obj_id(p)[1])
                                           for p in m.pipelines))
        op = "OConnect [%s] %s %d [%s]" % ("; ".join(map(str, idx)), "None" if kw is None else "(Some %d%%nat)" % len(kw), w,
                                           "; ".join(rows))
        self.do(op, "connect_pipelines(%d classes, keywords %s)" % (len(idx), mode), lambda: result)

    def op_members(self):
        """read the member list through every public route"""
        rng = self.rng
        routes = ["foil_detectors", "iter"] if self.bolo else \
            ["observers", "getitem-iteration"] + (["sight_lines"] if self.cname.startswith("Spectroscopic") else [])
        route = rng.choice(routes)
        self.stat("members:" + route)

        def fn():
            xs = list(self.g) if route in ("iter", "getitem-iteration") else list(getattr(self.g, route))
            return "RMems [%s]" % "; ".join(str(self.ids[id(o)]) for o in xs)
        self.do("OIter" if route in ("iter", "getitem-iteration") else "OMembers", "member list via %s" % route, fn)

    def op_get(self, attr=None):
        rng = self.rng
        a = rng.choice(self.specific) if self.specific and rng.random() < 0.4 else rng.choice(sorted(self.rows))
        if attr is not None:
            a = attr
        self.stat("get")
        self.do("OGet %s" % coq_string(a), "read %s" % a,
                lambda: "RVals [%s]" % "; ".join(self.impl.enc(self.impl.norm_read(a, x)) for x in getattr(self.g, a)))

    def op_key(self, forced=None):
        rng = self.rng
        n = len(self.members())
        r = rng.random()
        if forced is not None and forced[0] == "int":
            k, key = "KInt %s" % zlit(forced[1]), forced[1]
        elif forced is not None and forced[0] == "slice":
            k, key = "KSlice %s %s" % (opt(forced[1]), opt(forced[2])), builtins.slice(forced[1], forced[2])
        elif forced is not None and forced[0] == "name":
            k, key = "KStr %s" % coq_string(forced[1]), forced[1]
        elif r < 0.35:
            i = rng.choice([rng.randint(-n - 2, n + 1), n, n - 1, -n, -n - 1, 0, -1])
            f = rng.random()
            if f < 0.2:
                k, key = "KIdx %s" % zlit(i), np.int64(i)          # a numpy integer is not an int
                self.stat("key:numpy-int")
            elif f < 0.3 and i in (0, 1):
                k, key = "KInt %s" % zlit(i), bool(i)               # a bool is an int
                self.stat("key:bool")
            else:
                k, key = "KInt %s" % zlit(i), i
                self.stat("key:int")
        elif r < 0.6:
            lo = rng.choice([None] + list(range(-n - 2, n + 3)))
            hi = rng.choice([None] + list(range(-n - 2, n + 3)))
            step = rng.choice([None, None, 1, 2, 3, -1, -1, -2, -3, 0, n + 1, -n - 1])
            if step is None:
                k, key = "KSlice %s %s" % (opt(lo), opt(hi)), builtins.slice(lo, hi)
                self.stat("key:slice")
            else:
                k, key = "KSliceStep %s %s %s" % (opt(lo), opt(hi), zlit(step)), builtins.slice(lo, hi, step)
                self.stat("key:slice-step")
        elif r < 0.92:
            s = rng.choice(NAMES)
            k, key = "KStr %s" % coq_string(s), s
            self.stat("key:name")
        else:
            k, key = "KBad", rng.choice([1.5, None])
            self.stat("key:bad")

        def fn():
            x = self.g[key]
            if isinstance(x, (tuple, list)):
                return "RMems [%s]" % "; ".join(str(self.ids[id(o)]) for o in x)
            return "RMem %d" % self.ids[id(x)]
        self.do("OKey (%s)" % k, "group[%r]" % (key,), fn)

    def op_observe(self):
        self.stat("observe")

        def fn():
            del self.impl.trace[:]
            self.g.observe()
            return "RObs [%s]" % "; ".join(str(self.ids[id(o)]) for o in self.impl.trace)
        self.do("OObserve", "observe()", fn)

    def op_len(self):
        self.stat("len")
        self.do("OLen", "len()", lambda: "RLen %d" % len(self.g))

    def run(self, max_ops):
        rng = self.rng
        big = [10, 11, 33] if max_ops <= 9 else [10, 11, 33, 99, 100, 101]
        n0 = rng.choice(big) if rng.random() < 0.04 else rng.choice([0, 1, 2, 2, 3, 3, 4, 5])
        if not self.bolo and rng.random() < 0.5:
            # members given to the constructor (observers=list or tuple) instead of add_observer
            objs = [self.new_obj(rng.choice(usable_types(self.impl, self.cname))) for _ in range(n0)]
            seq = rng.choice([list, tuple])(o for _, o in objs)
            self.g = self.impl.cls[self.cname](name="group", observers=seq)
            self.stat("constructed_with_observers")
            for oid, _ in objs:
                self.ops.append("OAdd %d" % oid)
                self.res.append("ROk")
                self.desc.append("constructor observers= #%d" % oid)
        else:
            for _ in range(n0):
                self.op_add()
        self.n_init = len(self.members())
        for _ in range(rng.randint(3, max_ops)):
            r = rng.random()
            if self.bolo:
                r = 0.5 + r / 2
            if r < 0.45 and self.rows:
                self.op_assign()
            elif r < 0.52 and self.rows:
                self.op_direct()
            elif r < 0.63 and self.rows:
                self.op_get()
            elif r < 0.77:
                self.op_key()
            elif r < 0.83:
                self.op_observe()
            elif r < 0.85:
                self.op_len()
            elif r < 0.87:
                self.op_members()
            elif r < 0.89:
                self.op_connect()
            elif r < 0.95:
                self.op_add(wrong=rng.random() < 0.3)
            else:
                self.op_setmembers()

    def run_script(self, script):
        """a corpus history: [["add", type], ["assign", attr, mode], ["get", attr], ["key", "int"|"slice"|"name", ...],
        ["observe"], ["len"], ["setmembers"]]; values are drawn from the case's own generator"""
        self.n_init = 0
        for st in script:
            kind, args = st[0], st[1:]
            if kind == "add":
                self.op_add(ty=args[0], method=args[1] if len(args) > 1 else None)
            elif kind == "assign":
                self.op_assign(attr=args[0], mode=args[1])
            elif kind == "get":
                self.op_get(attr=args[0])
            elif kind == "key":
                self.op_key(forced=args)
            elif kind == "observe":
                self.op_observe()
            elif kind == "len":
                self.op_len()
            elif kind == "setmembers":
                self.op_setmembers()
            else:
                raise ValueError("unknown corpus step %r" % (st,))

    def finish(self):
        # final state of every member
        self.snaps = self.snapshot()
        self.n_final = len(self.snaps)

    def coq(self, i):
        pool = ";\n    ".join("(%d, (%d, %s))" % (oid, ty, st) for oid, ty, _, st in self.pool)
        return ("Definition env_%d : env := {| e_pool := [\n    %s] |}.\n"
                "Definition ops_%d : list op := [%s].\n"
                "Definition impl_%d : list res := [%s].\n"
                "Definition final_%d : list snap := [%s].\n"
                "Definition cps_%d : list (nat * list snap) := [%s].\n" % (
                    i, pool, i, ";\n  ".join(self.ops), i, ";\n  ".join(self.res), i, ";\n  ".join(self.snaps),
                    i, ";\n  ".join(self.cps)),
                "check_case_cp cls_%s env_%d ops_%d impl_%d final_%d cps_%d" % (self.cname, i, i, i, i, i)
                + (" && check_slits cls_%s env_%d ops_%d [%s]" % (self.cname, i, i, "; ".join(self.slit_cps)) if self.bolo else ""))

    def meta(self):
        return {"class": self.cname, "initial_size": self.n_init, "final_size": self.n_final,
                "ops": self.desc, "impl_results": self.res}


def parse_attrs(out):
    """output of Eval vm_compute in (map (fun c => (c_name c, attrs_of c)) canonical)"""
    res = {}
    for m in re.finditer(r'\("(\w+)",\s*\[([^\]]*)\]\)', out):
        res[m.group(1)] = re.findall(r'"(\w+)"', m.group(2))
    return res


# ---------------------------------------------------------------------------------------------
def run(ctx):
    ctx.trusted += [
        "Coq 8.16.1 kernel, vm_compute (no native_compute)",
        "harness/c15_translate.py (fail-closed ast matcher, the ignore list %s) and harness/c15.py: history generator, "
        "value encoder, error enum mapping, the counting Python subclasses of the raysect observers" % sorted(tr.IGNORE),
        "raysect: member observers' own attribute setters are modelled as plain stores (values are drawn inside the "
        "ranges they accept); Node.parent; CPython property binding (inspected on the running classes)",
    ]
    ctx.assumptions += [
        "in the modelled histories objects added to a group are distinct and an object removed by a member-list assignment is "
        "not added again (the same observer added twice is two member slots sharing one state; the search checks order, "
        "parent, index lookup and reading for such a list on the implementation, not 'observed once')",
        "which member refuses which value is raysect's business: the harness predicts it from raysect's rules (RULES in "
        "harness/c15.py) and the model is told the index and error kind (OAssignRej); values that make raysect fail after "
        "storing (extreme widths / radii building samplers) are not generated",
        "'a single value' excludes names and pipelines (class docstring: 'for any property except names and pipelines'); "
        "for targets a single value is a flat list of primitives, a sequence is a list of lists",
        "the values assigned are ones the member observers accept; ndarray only for numeric attributes whose setters name it",
        "observers are not re-parented from outside the group during a history",
    ]
    ctx.rebuild()
    ctx.proofs("Properties.C15", THEOREMS, extra_modules=("Model.C15_Check",))

    import cherab
    from common import REPO
    assert list(cherab.__path__) == [REPO + "/cherab"], cherab.__path__
    impl = Impl()
    rng = ctx.rng
    quick = ctx.quick

    n_probe, bad_probe = impl.probe_rules()
    ctx.obligation("probe: the harness' table of raysect's member-setter guards (RULES, C-type coercions) agrees with the "
                   "real member setters on %d boundary probes" % n_probe, "probe", not bad_probe, str(bad_probe[:5]))
    # ---- (T) translator + Gen tie lemmas ------------------------------------------------------
    table = tr.extract(impl.classes)
    n_entries = sum(len(rows) for _, rows in table)
    defs = tr.to_coq(table)
    mtable = tr.extract_methods(impl.classes)
    acc = impl.accept_matrix()
    acc_txt = "Definition accept_matrix : list (string * list Z) := [\n  %s].\n" % ";\n  ".join(
        "(%s, [%s])" % (coq_string(c), "; ".join(map(str, ts))) for c, ts in acc)
    ties = {
        "Tie_wf.v": HEADER + defs + "Eval vm_compute in (bad_wf extracted).\n"
                    "Lemma extracted_wf : all_wf extracted = true.\nProof. vm_compute. reflexivity. Qed.\n",
        "Tie_canon.v": HEADER + defs + "Eval vm_compute in (canon_diff extracted).\n"
                       "Lemma extracted_is_canonical : canon_agrees extracted = true.\nProof. vm_compute. reflexivity. Qed.\n",
        "Tie_accept.v": HEADER + acc_txt + "Eval vm_compute in (accept_diff accept_matrix).\n"
                        "Lemma accept_is_canonical : accept_agrees accept_matrix = true.\nProof. vm_compute. reflexivity. Qed.\n",
        "Tie_methods.v": HEADER + tr.methods_to_coq(mtable) + "Eval vm_compute in (methods_diff extracted_methods).\n"
                         "Lemma methods_are_canonical : methods_agree extracted_methods = true.\nProof. vm_compute. reflexivity. Qed.\n",
        "attrs.v": HEADER + "Eval vm_compute in (map (fun c => (c_name c, attrs_of c)) canonical).\n",
    }
    paths = {k: ctx.write_gen(k, v) for k, v in ties.items()}
    res = coqc_many(list(paths.values()), timeout=300)
    tie_names = {"Tie_wf.v": "Gen tie: every extracted descriptor is well formed (%d entries of %d classes)" % (n_entries, len(table)),
                 "Tie_canon.v": "Gen tie: extracted table = hand-written table the model runs with",
                 "Tie_accept.v": "Gen tie: isinstance matrix of the real classes = c_accept of the model",
                 "Tie_methods.v": "Gen tie: bodies of __init__/__getitem__/__len__/__iter__/add_*/observe of the %d classes = the bodies "
                                  "the model mirrors (%d methods)" % (len(mtable), sum(1 for _, r in mtable for _, sh in r if sh != "MAbsent"))}
    tie_fail = {}
    for k, title in tie_names.items():
        ok, out = res[paths[k]]
        vals = parse_evals(out)
        ctx.obligation(title, "gen-tie", ok, (vals[0] if vals else "") + "\n" + out[-600:] if not ok else "")
        if not ok:
            tie_fail[k] = vals[0] if vals else out[-300:]
            ctx.log("%s FAILED: %s" % (k, tie_fail[k][:400]))
    ok, out = res[paths["attrs.v"]]
    attrs_of = parse_attrs(out) if ok else {}
    if not ok or len(attrs_of) != len(impl.classes):
        ctx.broken.append("could not obtain attrs_of from Coq: " + out[-500:])
        return

    # ---- failing-input search: the property on the real classes (always run) ------------------------
    sizes = [0, 1, 2, 3, 4, 10] if quick else [0, 1, 2, 3, 4, 5, 6, 7, 9, 10, 11, 33]
    fails, n_checks = search(impl, rng, sizes)
    ctx.obligation("executable property on the implementation (%d checks, %d classes, sizes %s)" % (n_checks, len(impl.classes), sizes),
                   "search", not [f for f in fails if f["key"] not in ctx.known], str(fails[:3]))
    seen = set()
    for f in fails:
        if f["key"] in seen:
            continue
        seen.add(f["key"])
        if len(seen) > 12:
            break
        ctx.violation(f["key"], "%s.%s: %s" % (f["class"], f["where"], f["claim"]), f, found=True)
    unknown = [f for f in fails if f["key"] not in ctx.known]
    # ---- (X) correspondence -----------------------------------------------------------------------
    n_cases = 315 if quick else 3600
    max_ops = 9 if quick else 14
    rows_of = dict(table)
    cases = []
    base_names = {r["name"] for r in rows_of["Observer0DGroup"]}
    # corpus of minimised past disagreements first
    from common import VERIF
    import glob
    import json
    corpus = sorted(glob.glob(os.path.join(VERIF, "corpus", "C15", "*.json")))
    for path in corpus:
        entry = json.load(open(path))
        cname = entry["class"]
        cases.append(Case(impl, rng, cname, rows_of[cname], attrs_of[cname], max_ops, base_names, script=entry["script"]))
    n_corpus = len(cases)
    for i in range(n_cases):
        cname = impl.classes[i % len(impl.classes)][0]
        cases.append(Case(impl, rng, cname, rows_of[cname], attrs_of[cname], max_ops, base_names))
    ctx.log("generated and executed %d histories on the implementation" % len(cases))
    per_file = 60 if quick else 90
    files = []
    for s in range(0, len(cases), per_file):
        chunk = cases[s:s + per_file]
        defs_txt, calls = [], []
        for j, c in enumerate(chunk):
            d, call = c.coq(j)
            defs_txt.append(d)
            calls.append(call)
        txt = (HEADER + "\n".join(defs_txt) + "\nDefinition results : list bool := [\n  " + ";\n  ".join(calls)
               + "].\nEval vm_compute in (failing results).\n")
        files.append((ctx.write_gen("cases_%03d.v" % (s // per_file), txt), list(range(s, s + len(chunk)))))
    res = coqc_many([f for f, _ in files], timeout=900, jobs=16 if quick else 10)
    for f, _ in files:
        ok, out = res[f]
        if not ok and "Error" not in out:
            # no Coq error message: the process was killed (memory pressure on a shared machine) or timed out; once more, alone
            ctx.log("retrying %s (coqc ended without an error message: %r)" % (os.path.basename(f), out[-80:]))
            res[f] = coqc(f, timeout=1800)
    diff_cases = []
    for f, idxs in files:
        ok, out = res[f]
        vals = parse_evals(out) if ok else []
        good = ok and len(vals) == 1
        failing = parse_zlist(vals[0]) if good else []
        ctx.obligation("correspondence %s (%d histories)" % (os.path.basename(f), len(idxs)), "correspondence",
                       good and not failing, out[-1500:] if not good else "DIFF at local indices %s" % failing)
        if not good:
            ctx.broken.append("coqc failed on %s: %s" % (f, out[-800:]))
        diff_cases += [idxs[i] for i in failing]
    n_ops = sum(len(c.ops) for c in cases)
    ctx.log("correspondence: %d histories, %d operations, %d disagree" % (len(cases), n_ops, len(diff_cases)))
    diff_info = []
    for ci in diff_cases[:5]:
        c = cases[ci]
        d, call = c.coq(0)
        p = ctx.write_gen("diff_%d.v" % ci, HEADER + d + "Eval vm_compute in (diff_at cls_%s env_0 ops_0 impl_0).\n" % c.cname)
        ok, out = coqc(p, timeout=120)
        vals = parse_evals(out) if ok else []
        at = int(vals[0].strip("()")) if vals and re.match(r"^\(?-?\d+\)?$", vals[0]) else None
        info = {"class": c.cname, "first_differing_op": at,
                "op": c.desc[at] if at is not None and 0 <= at < len(c.desc) else "final state of the members",
                "implementation": c.res[at] if at is not None and 0 <= at < len(c.res) else None, "history": c.desc}
        diff_info.append(info)
        ctx.log("DIFF case %d: %s op %s: %s -> impl %s" % (ci, c.cname, at, info["op"], info["implementation"]))

    if not unknown:
        for k, v in tie_fail.items():
            ctx.violation("c15-tie:" + k, "Gen tie lemma %s no longer checks (%s); the executable property found no failing input"
                          % (k, v[:300]), {"tie": k, "diagnostic": v}, found=False)
        for info in diff_info[:3]:
            ctx.violation("c15-diff:%s" % info["class"], "model and implementation disagree on a history of %s at '%s'; the "
                          "executable property found no failing input" % (info["class"], info["op"]), info, found=False)

    # ---- coverage -----------------------------------------------------------------------------------
    stats = {}
    for c in cases:
        for k, v in c.stats.items():
            stats[k] = stats.get(k, 0) + v
    by_class = {}
    sizes_seen = {}
    for c in cases:
        by_class[c.cname] = by_class.get(c.cname, 0) + 1
        sizes_seen[c.n_final] = sizes_seen.get(c.n_final, 0) + 1
    attr_hits = {k[7:]: v for k, v in stats.items() if k.startswith("assign@")}
    pairs = {(c.cname, d.split(" = ")[0]) for c in cases for d in c.desc if " = <" in d}
    nontrivial = sum(1 for c in cases if c.n_final > 0 and any(" = <" in d for d in c.desc))
    ctx.coverage.update({
        "evaluations": n_ops,
        "distinct_nontrivial": nontrivial,
        "rule": "one case = one history (initial adds + 3..%d operations) on an initially empty group of one class, run on the real "
                "class and on the model in Coq; every operation result (value lists, member identities, observe trace, error kind) "
                "and the final state of every member (every attribute of the class, parent, observe count) compared exactly; "
                "non-trivial = the group is non-empty at the end and the history contains an assignment" % max_ops,
        "distribution": {"histories": len(cases), "corpus_histories": n_corpus, "operations": n_ops, "by_class": by_class, "final_group_size": sizes_seen,
                         "op_mix": {k: v for k, v in sorted(stats.items()) if not k.startswith("assign@")},
                         "assignments_per_attribute": attr_hits, "class_attribute_pairs_assigned": len(pairs),
                         "extracted_table_entries": n_entries, "search_checks": n_checks, "search_group_sizes": sizes,
                         "disagreeing_histories": len(diff_cases),
                         "intermediate_state_checkpoints": sum(len(c.cps) for c in cases),
                         "slit_list_checkpoints": sum(len(c.slit_cps) for c in cases)},
        "tolerance": "none: numbers are dyadic and compared as exact rationals, objects by identity, error kinds exactly",
        "input_classes": ["histories on one live group incl. constructor observers= vs add_observer, direct member changes, the same "
                          "value object assigned again, member list re-assigned, observe repeated",
                          "values crossing a member's guard between steps (valid -> 0 / -0.0 / negative / above bound -> valid), "
                          "also in the middle of a sequence", "exact bounds of raysect's guards, nextafter, 2^900, subnormals, "
                          "C-int overflow, group sizes 0,1,2 .. and 10/11/33 (thorough 99/100/101), indices n, -n-1, -n, n-1",
                          "numpy scalars / bool / int forms, int32 / float32 / int8 arrays, non-contiguous and read-only arrays, "
                          "list and tuple subclasses, numpy-integer and bool keys, names differing by case, empty name",
                          "second-order routes: constructor, add_sight_line, sight_lines, iteration, member-list getters, "
                          "connect_pipelines"],
        "partial": ["the deprecated spectroscopic groups' pipelines assignment and connect_pipelines (their display_progress/accumulate "
                    "live inside the pipeline objects; the member store model does not couple them): search only",
                    "a loop that stops half way (member refusal, bad render engine) and connect_pipelines on a group holding one "
                    "observer twice are not generated",
                    "member observers' own validation (raysect) is outside the model (probed); BolometerIRVB members, camera_geometry not generated"],

    })
    ctx.coverage["samples"] = [cases[0].meta(), cases[min(len(cases) - 1, 4)].meta()]
    ctx.coverage["extracted_table"] = {c: ["%s:%s" % (r["name"], r["shape"]) for r in rows] for c, rows in table}
    ctx.grep_gate()
