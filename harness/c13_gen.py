"""Generators and literal printers for the C13 check."""
import math
from fractions import Fraction

from common import dyadic

INF = float("inf")
TINY = 5e-324
MINNORM = 2.2250738585072014e-308
MAXF = 1.7976931348623157e308


def frexact(x):
    return Fraction(x)


def fb(x):
    """binary64 value -> Coq term of type fbits (sign, canonical mantissa, exponent)"""
    x = float(x)
    if math.isnan(x):
        return "FNan"
    s = "true" if math.copysign(1.0, x) < 0 else "false"
    if math.isinf(x):
        return "(FInf %s)" % s
    if x == 0:
        return "(FZero %s)" % s
    m, e = math.frexp(abs(x))
    mi = int(m * (1 << 53))
    e -= 53
    if e < -1074:
        sh = -1074 - e
        assert mi % (1 << sh) == 0
        mi >>= sh
        e = -1074
    assert math.ldexp(mi, e) == abs(x)
    return "(FFin %s %d %s)" % (s, mi, "(%d)" % e if e < 0 else "%d" % e)


def fbl(xs):
    return "[" + "; ".join(fb(x) for x in xs) + "]"


def ordinary_float(rng):
    k = rng.randrange(3)
    if k == 0:
        return dyadic(rng, -8, 8, 10)
    if k == 1:
        return rng.uniform(-100.0, 100.0)
    return float(rng.randint(-20, 20))


def edge_float(rng, special=False):
    """finite doubles with the edge classes of the property's quantifier (special=True adds NaN/inf)"""
    k = rng.randrange(14 if special else 12)
    if k == 0:
        return rng.choice([0.0, -0.0])
    if k == 1:
        return rng.choice([TINY, -TINY, rng.randint(1, 2 ** 52 - 1) * TINY, -rng.randint(1, 2 ** 52 - 1) * TINY])
    if k == 2:
        return rng.choice([MINNORM, -MINNORM, 1e-300, -1e-300, 1e-20, -1e-20])
    if k == 3:
        return rng.choice([MAXF, -MAXF, 1e300, -1e300, 1e100, -1e100, 1e15, -1e15])
    if k == 4:
        return rng.choice([1.0, -1.0]) * (1.0 + rng.choice([-1, 1]) * 2.0 ** -52)
    if k == 5:
        return math.ldexp(rng.random() + 0.5, rng.randint(-1070, 1020)) * rng.choice([-1, 1])
    if k >= 12:
        return rng.choice([float("nan"), INF, -INF])
    return ordinary_float(rng)


def gen_periodic(rng, allow_zero=False):
    x, p, k = _gen_periodic(rng, allow_zero)
    if not math.isfinite(x):
        x = math.copysign(MAXF, x)
    return x, p, k


def _gen_periodic(rng, allow_zero=False):
    """(x, period, class).  Classes follow the quantifier: negative, zero, subnormal-near-zero, exact
    multiples of the period, huge values; 'tiny_negative' is the class of the F10 defect."""
    k = rng.randrange(10)
    if k == 0:
        p = rng.choice([1.0, 2.0, 0.5, 360.0, 4.0])
    elif k == 1:
        p = rng.choice([2 * math.pi, math.pi, 0.1, 0.3, 1e-3, 1.0 / 3.0])
    elif k == 2:
        p = rng.choice([1e-300, TINY, 3 * TINY, MINNORM, 1e300, MAXF, 1e15])
    elif k == 3:
        p = dyadic(rng, 0.125, 16, 6)
    else:
        p = rng.uniform(0.05, 20.0)
    if allow_zero and rng.randrange(8) == 0:
        p = 0.0
    c = rng.randrange(12)
    if p == 0.0:
        return edge_float(rng), p, "period_zero"
    if c in (0, 1, 2):
        # tiny negative arguments: fmod gives a tiny negative remainder, remainder + period rounds to the period
        j = rng.randrange(5)
        if j == 0:
            x = -p * 2.0 ** -rng.randint(53, 200)
        elif j == 1:
            x = -p * 2.0 ** -rng.randint(54, 60) * (1 + rng.random())
        elif j == 2:
            x = -rng.choice([TINY, 1e-300, 1e-20 * p, 1e-17 * p, MINNORM])
        elif j == 3:
            x = -p * rng.random() * 2.0 ** -54
        else:
            x = -10.0 ** -rng.randint(17, 300) * p
        if x == 0.0:
            x = -TINY
        if -x >= p:
            x = -p / 2 ** 60 if p / 2 ** 60 > 0 else -TINY
        return x, p, "tiny_negative"
    if c == 3:
        n = rng.choice([-3, -2, -1, 1, 2, 3, 7, -7, 10 ** 6, -10 ** 6, 2 ** 40, -2 ** 40])
        return n * p, p, "multiple"
    if c == 4:
        n = rng.choice([-3, -2, -1, 0, 1, 2, 5, -5, 1000, -1000])
        b = n * p
        return math.nextafter(b, rng.choice([-INF, INF])), p, "next_to_multiple"
    if c == 5:
        return rng.choice([0.0, -0.0, TINY, rng.randint(1, 2 ** 30) * TINY, MINNORM, 1e-300]), p, "zero_or_subnormal"
    if c == 6:
        x = rng.choice([1e300, -1e300, MAXF, -MAXF, 1e15 * p if math.isfinite(1e15 * p) else 1e300,
                        -1e15 * p if math.isfinite(1e15 * p) else -1e300, 1e22, -1e22])
        return x, p, "huge"
    if c == 7:
        return -p * (1 - 2.0 ** -rng.randint(1, 53)), p, "negative_near_minus_period"
    if c == 8:
        return rng.choice([p, -p, math.nextafter(p, 0), -math.nextafter(p, 0), math.nextafter(p, INF), -math.nextafter(p, INF)]), p, "period_itself"
    if c == 10:
        # scale covariance: an ordinary (x, period) pair multiplied by the same power of two, over the whole exponent range
        k = rng.randint(-1000, 990)
        p0 = rng.uniform(0.05, 20.0)
        x0 = rng.uniform(-10, 10) * p0
        xs, ps = math.ldexp(x0, k), math.ldexp(p0, k)
        if ps > 0 and math.isfinite(xs) and math.isfinite(ps):
            return xs, ps, "scaled_by_power_of_two"
    return rng.uniform(-10, 10) * p, p, "ordinary"


def gen_xyz(rng):
    """(x, y, z, class) for the axisymmetric / cylindrical wrappers"""
    z = edge_float(rng)
    k = rng.randrange(12)
    if k == 0:
        return rng.choice([0.0, -0.0]), rng.choice([0.0, -0.0]), z, "origin"
    if k == 1:
        return -abs(ordinary_float(rng)) - 0.5, rng.choice([0.0, -0.0, TINY, -TINY, 1e-300, -1e-300]), z, "branch_cut"
    if k == 2:
        return abs(ordinary_float(rng)) + 0.5, rng.choice([0.0, -0.0, TINY, -TINY]), z, "positive_x_axis"
    if k == 3:
        return rng.choice([0.0, -0.0, 1e-300, -1e-300]), rng.choice([-1, 1]) * (abs(ordinary_float(rng)) + 0.5), z, "y_axis"
    if k == 4:
        a = ordinary_float(rng) or 1.0
        return a, rng.choice([a, -a]), z, "diagonal"
    if k == 5:
        e = rng.choice([1e155, 1e160, 1e200, 1e300, 1.5e154])
        return rng.choice([-1, 1]) * e * (0.5 + rng.random() / 2), rng.choice([0.0, 1.0, e / 3, -e]), z, "huge"
    if k == 6:
        e = rng.choice([1e-160, 1e-170, 1e-200, 1e-300, TINY, 3e-162])
        return rng.choice([-1, 1]) * e, rng.choice([0.0, -0.0, e, -e / 2]), z, "tiny"
    if k == 7:
        return float(rng.choice([3, -3, 5, 8])), float(rng.choice([4, -4, 12, 15])), z, "integer"
    if k == 8:
        return dyadic(rng, -8, 8, 10), dyadic(rng, -8, 8, 10), z, "dyadic"
    if k == 9:
        s = rng.choice([1e100, 1e-100, 1e150, 1e-150])
        return rng.uniform(-1, 1) * s, rng.uniform(-1, 1) * s, z, "large_or_small_in_range"
    if k == 10:
        e = rng.randint(-1040, 1000)
        return math.ldexp(rng.uniform(-50, 50), e), math.ldexp(rng.uniform(-50, 50), e), z, "scaled_by_power_of_two"
    return rng.uniform(-50, 50), rng.uniform(-50, 50), z, "ordinary"


# ---- polygons ----------------------------------------------------------------------------------------
def _cross(o, a, b):
    return (a[0] - o[0]) * (b[1] - o[1]) - (a[1] - o[1]) * (b[0] - o[0])


def gen_polygon(rng):
    """simple polygon with dyadic vertices, (list of (x, y), kind); convex / star-shaped concave /
    orthogonal (L, U, comb), either orientation, arbitrary starting vertex, arbitrary offset"""
    while True:
        k = rng.randrange(4)
        ox, oy = dyadic(rng, -4, 4, 4), dyadic(rng, -4, 4, 4)
        if k in (0, 1):
            n = rng.randint(3, 10)
            angs = sorted(rng.sample(range(64), n))
            pts = []
            for a in angs:
                t = 2 * math.pi * a / 64
                rad = 1.0 if k == 0 else rng.choice([0.35, 0.5, 0.75, 1.0])
                pts.append((round(rad * math.cos(t) * 256) / 256, round(rad * math.sin(t) * 256) / 256))
            kind = "convex" if k == 0 else "star"
            # the centre must be strictly inside the angular fan: largest angular gap < pi
            gaps = [(angs[(i + 1) % n] - angs[i]) % 64 for i in range(n)]
            if max(gaps) >= 31:
                continue
            if k == 0:
                if any(_cross(pts[i], pts[(i + 1) % n], pts[(i + 2) % n]) <= 0 for i in range(n)):
                    continue
            else:
                # star-shaped polygons are simple; drop collinear triples (degenerate ears)
                if any(_cross(pts[i], pts[(i + 1) % n], pts[(i + 2) % n]) == 0 for i in range(n)):
                    continue
                kind = "convex" if all(_cross(pts[i], pts[(i + 1) % n], pts[(i + 2) % n]) > 0 for i in range(n)) else "star"
        elif k == 2:
            a, b = rng.randint(2, 6) / 4, rng.randint(2, 6) / 4
            c, d = a * rng.choice([0.25, 0.5, 0.75]), b * rng.choice([0.25, 0.5, 0.75])
            pts = [(0, 0), (a, 0), (a, d), (c, d), (c, b), (0, b)]          # L
            kind = "orthogonal_L"
        else:
            teeth = rng.randint(2, 3)
            w, h, base = 0.5, 1.0, 0.25
            pts = [(0, 0), (teeth * 2 * w - w, 0)]
            for t in reversed(range(teeth)):
                x0 = 2 * w * t
                pts += [(x0 + w, h), (x0, h)]
                if t > 0:
                    pts += [(x0, base), (x0 - w, base)]
            kind = "orthogonal_comb"
        if len(set(pts)) != len(pts):
            continue
        pts = [(float(x) + ox, float(y) + oy) for x, y in pts]
        if rng.randrange(2):
            pts.reverse()
            kind += "/cw"
        else:
            kind += "/ccw"
        r = rng.randrange(len(pts))
        pts = pts[r:] + pts[:r]
        return pts, kind


def polygon_margin(poly, p):
    """exact distance^2-free margin: min over edges of the distance (as Fraction, via squared distance
    compared through a safe lower bound) from p to the edge.  Returns a Fraction lower bound of the distance."""
    px, py = Fraction(p[0]), Fraction(p[1])
    best = None
    n = len(poly)
    for i in range(n):
        ax, ay = Fraction(poly[i][0]), Fraction(poly[i][1])
        bx, by = Fraction(poly[(i + 1) % n][0]), Fraction(poly[(i + 1) % n][1])
        dx, dy = bx - ax, by - ay
        t = ((px - ax) * dx + (py - ay) * dy) / (dx * dx + dy * dy)
        t = max(Fraction(0), min(Fraction(1), t))
        qx, qy = ax + t * dx, ay + t * dy
        d2 = (px - qx) ** 2 + (py - qy) ** 2
        # distance >= max(|dx|,|dy|) component bound: use the larger coordinate difference (<= distance)
        d = max(abs(px - qx), abs(py - qy))
        if best is None or d < best:
            best = d
    return best


def crossing_inside(poly, p):
    """reference point-in-polygon (even-odd rule), exact Fractions, written independently of the Coq model:
    counts edges whose open-below/closed-above y-span contains py and whose crossing lies right of px"""
    px, py = Fraction(p[0]), Fraction(p[1])
    n = len(poly)
    cnt = 0
    for i in range(n):
        ax, ay = Fraction(poly[i][0]), Fraction(poly[i][1])
        bx, by = Fraction(poly[(i + 1) % n][0]), Fraction(poly[(i + 1) % n][1])
        if (ay > py) != (by > py):
            xint = ax + (py - ay) * (bx - ax) / (by - ay)
            if xint > px:
                cnt += 1
    return cnt % 2 == 1
