"""C14 -- Caching functions are history-independent and interpolate the cached function
(cherab/core/math/caching/caching{1,2,3}d.pyx, cherab/core/math/interpolators/utility.pyx).

Theorems: coq/Properties/C14.v (all node arrays, all wrapped functions, all histories).
Tie: correspondence -- the real Caching1D/2D/3D are run (child process harness/c14_impl.py) on
generated objects and histories of points; the model is run by Coq (vm_compute) on the node arrays
the implementation built and on the same history, and compared step by step: raised / returned
exactly, the arguments of every call to the wrapped function exactly and in order, the value under
a tolerance, the final sets of calculated cells and sampled nodes exactly; the node arrays of
__init__ are compared with the model's grid.
Search: the executable statement of the property on the implementation (used-vs-fresh object bit for
bit, node values, multi-affine reproduction, error bound, outside policy, function bounds).
"""
import json
import math
import os
import struct
import subprocess
import sys
import time
from fractions import Fraction

import numpy as np

from common import qlit, zlit, dyadic, coqc_many, parse_evals, parse_zlist, frac, PY, REPO, VERIF

THEOREMS = ["C14_history_independent_1d", "C14_history_independent_2d", "C14_history_independent_3d",
            "C14_value_is_cell_cubic_1d", "C14_value_is_tensor_cubic_2d", "C14_value_is_tensor_cubic_3d",
            "C14_interpolates_nodes_1d", "C14_interpolates_nodes_2d", "C14_interpolates_nodes_3d",
            "C14_reproduces_linear_1d", "C14_reproduces_bilinear_2d", "C14_reproduces_trilinear_3d",
            "C14_function_bounds_irrelevant_1d", "C14_function_bounds_irrelevant_2d", "C14_function_bounds_irrelevant_3d",
            "C14_outside_policy_1d", "C14_outside_policy_2d", "C14_outside_policy_3d",
            "C14_accepted_axis_is_increasing", "C14_closed_form_solves_the_1d_system", "C14_1d_system_has_one_solution",
            "C14_error_bound_partial",
            "C14_cubic_stability_any_nodes", "C14_error_bound_from_taylor_1d", "C14_error_bound_from_taylor_2d",
            "C14_error_bound_from_taylor_3d", "C14_tensor_cubic_solves_the_2d_system", "C14_tensor_cubic_solves_the_3d_system",
            "C14_2d_system_has_one_solution", "C14_3d_system_has_one_solution",
            "C14_stored_block_is_that_polynomial_2d", "C14_stored_block_is_that_polynomial_3d",
            "C14_denormalised_evaluation_2d", "C14_denormalised_evaluation_3d", "C14_farorigin_cancellation",
            "C14_taylor_inequality_R", "C14_error_bound_C2_1d", "C14_error_bound_C2_2d", "C14_error_bound_C2_3d"]

EPS = 1.e-7
VAL_TOL = 1e-9          # search: relative to the scale of the function, polynomial wrapped functions
# search, non-polynomial wrapped functions (sin / exp): the code solves a 4x4 / 16x16 / 64x64 system and
# expresses the cubic in the monomial basis about the ORIGIN of the raw coordinates, which costs digits
# (measured on the unchanged tree over 900 objects of the thorough generator: 1-D 5e-13, 2-D 3.5e-10, 3-D 3.1e-7 of
# the scale; steeper functions on finer 3-D grids reach 1e-4)
SMOOTH_TOL = {1: 1e-10, 2: 1e-7, 3: 1e-4}
ACCURACY_CLAIMS = ("equals the wrapped function at a sampling node", "a function linear in each coordinate",
                   "approximates the wrapped function", "function bounds do not change",
                   "a point inside the caching area has a finite")
ERR_MULT = 4.0          # search: |cached - f| <= ERR_MULT * h^2 * (sum of max |second derivatives|)


# ---------------------------------------------------------------------------------------------
# generator
# ---------------------------------------------------------------------------------------------
def guess_axis(lo, hi, delta):
    """the formula of __init__ (only used to aim evaluation points at nodes; never to judge)"""
    n = max(int((hi - lo) / delta) + 1, 2)
    return np.concatenate((np.array([lo - delta]), np.linspace(lo - EPS, hi + EPS, n), np.array([hi + delta])))


RES_SCHEDULE = ["frac", "coarse", "multiple", "frac", "multiple+ulp", "int", "multiple-ulp", "coarse"]
_SCHED = {1: 0, 2: 0, 3: 0}      # per dimension: number of objects generated so far in this run (reset by run())


def gen_axis(rng, dim, quick, exact, force=None):
    """-> (lo, hi, delta, resolution class).  Resolution classes: 'frac' (area extent not a multiple of the
    resolution), 'coarse' (resolution >= extent: the max(.., 2) branch, one cell), 'multiple' (extent an exact
    multiple of the resolution: int() of an exact integer), 'multiple+ulp' / 'multiple-ulp' (one ulp either side of
    that), 'int' (integral bounds and resolution)."""
    cells = {1: [1, 1, 2, 3, 5, 8, 13, 20] + ([] if quick else [40, 80]),
             2: [1, 2, 3, 5, 8] + ([] if quick else [13, 20]),
             3: [1, 2, 3, 4] + ([] if quick else [6, 9])}[dim]
    m = rng.choice(cells)
    if exact:
        rcls = force or rng.choice(["frac", "frac", "frac", "coarse", "multiple", "multiple+ulp", "multiple-ulp", "int"])
        lo = rng.choice([dyadic(rng, -8, 8, 3), dyadic(rng, -8, 8, 3), 0.0, -0.0])
        width = dyadic(rng, 0.5, 6, 3)
        if rng.random() < 0.1:
            lo = -width                                       # hi == 0 exactly
        if rcls == "int":
            lo, width = float(rng.randint(-8, 8)), float(rng.randint(1, 6))
            delta = float(rng.choice([1, 1, 2, 3]))
        elif rcls == "coarse" or (m == 1 and rcls == "frac"):
            rcls = "coarse"
            delta = width * rng.choice([1.5, 2.0, 1.0, 1.0])      # 1.0: extent == resolution exactly
        elif rcls.startswith("multiple"):
            mm = rng.choice([1, 2, 4, 8] + ([16, 32] if dim == 1 else []))
            delta = width / mm                                # exact: width has 3 fractional bits, mm is a power of two
            if rcls == "multiple+ulp":
                delta = float(np.nextafter(delta, np.inf))
            elif rcls == "multiple-ulp":
                delta = float(np.nextafter(delta, 0.0))
        else:
            delta = max(round(width / m * rng.uniform(0.55, 1.0) * 256) / 256, 1 / 256)
        hi = lo + width
    else:
        rcls = "random"
        lo = rng.uniform(-8, 8)
        hi = lo + rng.uniform(0.5, 6)
        if force == "coarse" or rng.random() >= 0.8:
            rcls, delta = "random-coarse", (hi - lo) * rng.uniform(1.0, 2.0)
        else:
            delta = (hi - lo) / m * rng.uniform(0.55, 1.0)
    return lo, hi, delta, rcls


def gen_coord(rng, lo, hi, delta, nodes, cls, s=1.0, huge_ok=True, subnormal_ok=True):
    c = gen_coord0(rng, lo, hi, delta, nodes, cls, s, huge_ok, subnormal_ok)
    if not subnormal_ok and 0 < abs(c) < 2.0 ** -200:
        c = math.copysign(2.0 ** -200, c)        # (one ulp from a bound / node that is exactly zero)
    return c


def gen_coord0(rng, lo, hi, delta, nodes, cls, s=1.0, huge_ok=True, subnormal_ok=True):
    """one coordinate; lo, hi, delta, nodes are the (scaled) values handed to the constructor, s the coordinate scale"""
    top = len(nodes) - 1
    if cls == "in":
        return dyadic(rng, lo / s, hi / s, 10) * s
    if cls == "node":
        return float(nodes[rng.choice([0, 1, 1, 2, top - 2, top - 1, top - 1, top] + list(range(top + 1)))])
    if cls == "near":
        k = rng.choice([1, top - 1, rng.randint(0, top), rng.randint(0, top)])
        return float(np.nextafter(nodes[k], rng.choice([-np.inf, np.inf])))
    if cls == "edge":
        return rng.choice([lo, hi, hi + EPS / 2, lo - EPS / 2, float(np.nextafter(lo, -np.inf)), float(np.nextafter(lo, np.inf)),
                           float(np.nextafter(hi, -np.inf)), float(np.nextafter(hi, np.inf))])
    if cls == "gap":
        return rng.choice([lo - delta / 2, hi + delta / 2, lo - EPS * 2, hi + EPS * 2])
    if cls == "far":
        return rng.choice([lo - delta - dyadic(rng, 0, 4, 6) * s, hi + delta + dyadic(rng, 0, 4, 6) * s, lo - delta, hi + delta])
    if cls == "special":
        # zero, minus zero, subnormal, tiny, huge: inside or outside depending on the area
        # (subnormals only in 1-D: their exact rationals have 1074-bit denominators, which the tensor model of the
        # 2-D/3-D correspondence would have to carry through three levels of cubics)
        return rng.choice([0.0, -0.0, 2.0 ** -60, -2.0 ** -60]
                          + ([5e-324, -5e-324, 2.0 ** -1022] if subnormal_ok else [2.0 ** -200, -2.0 ** -200])
                          + ([2.0 ** 100, -2.0 ** 100] if huge_ok else [64.0, -64.0]))
    raise ValueError(cls)


INSIDE_CLASSES = ["in"] * 6 + ["node", "near", "edge", "special"]
OUTSIDE_CLASSES = ["gap", "far", "gap", "node", "special"]

FB_CLASSES = ["none", "none", "none", "wide", "narrow", "degenerate", "reversed", "unit", "zero_one", "tiny", "big", "negzero"]


def gen_fb(rng, fbcls, vscale):
    """function_boundaries by class (scaled with the values of the wrapped function)"""
    a = rng.choice([2.0, -0.5, 10.0, -3.0, 0.25])
    fb = {"none": None, "wide": [-1000.0, 1000.0], "narrow": [dyadic(rng, -2, 0, 4), dyadic(rng, 0.25, 2, 4)],
          "degenerate": [rng.choice([1.5, -2.0, 0.0]), None], "reversed": [8.0, -8.0],
          "unit": [a, a + 1.0],                    # width exactly one, non-zero minimum
          "zero_one": [0.0, 1.0], "tiny": [1.0, 1.0 + 2.0 ** -20], "big": [-2.0 ** 20, 2.0 ** 20],
          "negzero": rng.choice([[-0.0, 1.0], [-1.0, -0.0], [-0.0, 0.0]])}[fbcls]
    if fb is None:
        return None
    if fb[1] is None:
        fb[1] = fb[0]
    if fbcls in ("unit", "zero_one", "negzero"):
        return fb                                     # the point of these classes is the exact width
    return [v * vscale for v in fb]


def gen_poly(rng, dim, degcls):
    """nested coefficient list, degree per variable by class"""
    deg = {"const": 0, "affine": 1, "quad": 2, "cubic": 3}[degcls]

    def co():
        return dyadic(rng, -4, 4, 3)
    if dim == 1:
        return [co() for _ in range(deg + 1)]
    if dim == 2:
        return [[co() for _ in range(deg + 1)] for _ in range(deg + 1)]
    deg = min(deg, 2)
    return [[[co() for _ in range(deg + 1)] for _ in range(deg + 1)] for _ in range(deg + 1)]


def scale_poly(c, dim, svars, vscale):
    """coefficients of vscale * f(x / sx, y / sy, ..): c[a][b].. * vscale / (sx^a sy^b ..)  (powers of two: exact)"""
    def div(c, d):
        return [div(v, d) for v in c] if isinstance(c, list) else c / d

    def rec(c, a):
        if a == dim:
            return c * vscale
        return [div(rec(sub, a + 1), svars[a] ** n) for n, sub in enumerate(c)]
    return rec(c, 0)


def representable32(vals):
    return all(float(np.float32(v)) == float(v) for v in vals)


def gen_forms(rng, case):
    """unusual but valid argument forms, chosen only where they represent the values exactly"""
    dim = case["dim"]
    forms = {}
    cand = ["float", "float", "np64"]
    if all(float(v).is_integer() for v in case["area"]):
        cand.append("int")
    if representable32(case["area"]):
        cand.append("np32")
    forms["area"] = rng.choice(cand)
    cand = ["float", "float", "np64"]
    if all(float(v).is_integer() for v in case["res"]):
        cand.append("int")
    if representable32(case["res"]):
        cand.append("np32")
    forms["res"] = rng.choice(cand)
    if case["fb"] is not None:
        cand = ["tuple", "list", "nparray"]
        if all(float(v).is_integer() and str(v) != "-0.0" for v in case["fb"]):
            cand.append("int")
        forms["fb"] = rng.choice(cand)
    forms["nbe"] = rng.choice(["bool", "int"])
    forms["style"] = rng.choice(["keyword", "positional", "defaults"])
    forms["fn"] = rng.choice(["plain", "plain", "partial", "lambda", "pyfunc"])
    forms["call"] = rng.choice(["float", "float", "np64", "np0d"])
    forms["route"] = rng.choice(["call", "call", "mul1"])
    return forms


def gen_case(rng, cid, dim, quick, exact, smooth=False, far_origin=False):
    # resolution classes are scheduled, not drawn: over the objects of one dimension every class occurs on every axis
    n = _SCHED[dim]
    _SCHED[dim] += 1
    axes0 = [gen_axis(rng, dim, quick, exact, force=RES_SCHEDULE[(n + 3 * a) % len(RES_SCHEDULE)]) for a in range(dim)]
    # scale classes: coordinates by 2^k per axis, values by 2^m (the property is covariant under both; the
    # absolute EPSILON = 1e-7 of the code is not, so small scales also stress the padding of the grid)
    scls = rng.choice(["unit", "unit", "coord", "value", "both"]) if exact and not smooth else "unit"
    svars = [2.0 ** rng.randint(-12, 12) if scls in ("coord", "both") else 1.0 for _ in range(dim)]
    vscale = 2.0 ** rng.randint(-40, 40) if scls in ("value", "both") else 1.0
    offs = [0.0] * dim
    if far_origin:
        # caching area far from the origin of the coordinates compared with its cell size
        offs = [rng.choice([-1, 1]) * 2.0 ** rng.randint(6, 20) for _ in range(dim)]
    axes = [((lo * s) + o, (hi * s) + o, d * s, rc) for (lo, hi, d, rc), s, o in zip(axes0, svars, offs)]
    area = []
    for lo, hi, _, _ in axes:
        area += [lo, hi]
    res = [d for _, _, d, _ in axes]
    fbcls = rng.choice(FB_CLASSES)
    fb = gen_fb(rng, fbcls, vscale)
    nbe = rng.random() < 0.5
    if smooth:
        kind = rng.choice(["trig", "expo"])
        k = [dyadic(rng, -2, 2, 4) for _ in range(dim)]
        fn = {"kind": kind, "A": dyadic(rng, 0.5, 3, 3), "k": k, "C": dyadic(rng, -2, 2, 3)}
        if kind == "trig":
            fn["phase"] = dyadic(rng, -3, 3, 4)
        else:
            fn["k"] = [v / 4 for v in k]
        if far_origin:
            fn["origin"] = offs                       # f(p - origin): the same function, moved with the area
        degcls = kind
    else:
        degcls = rng.choice(["const", "affine", "affine", "quad", "cubic", "cubic"])
        fn = {"kind": "poly", "coeffs": scale_poly(gen_poly(rng, dim, degcls), dim, svars, vscale)}
        if far_origin:
            fn["origin"] = offs
    nodes = [guess_axis(lo, hi, d) for lo, hi, d, _ in axes]
    npts = {1: rng.randint(8, 24), 2: rng.randint(6, 16), 3: rng.randint(3, 8)}[dim]
    if not quick:
        npts *= 2
    pts, pcls = [], []
    for _ in range(npts):
        r = rng.random()
        if pts and r < 0.1:
            pts.append(list(rng.choice(pts)))
            pcls.append("repeat")
            continue
        if r < 0.7:
            cl = [rng.choice(INSIDE_CLASSES) for _ in range(dim)]
        elif r < 0.9:
            cl = [rng.choice(INSIDE_CLASSES) for _ in range(dim)]
            cl[rng.randrange(dim)] = rng.choice(OUTSIDE_CLASSES)
        else:
            cl = [rng.choice(INSIDE_CLASSES + OUTSIDE_CLASSES) for _ in range(dim)]
        pts.append([gen_coord(rng, axes[a][0], axes[a][1], axes[a][2], nodes[a], cl[a], svars[a], huge_ok=not smooth,
                              subnormal_ok=(dim == 1 or smooth)) for a in range(dim)])
        pcls.append("+".join(cl))
    node_picks = [[rng.random() for _ in range(dim)] for _ in range(3)]
    case = {"id": cid, "dim": dim, "area": area, "res": res, "fb": fb, "fbcls": fbcls, "nbe": nbe, "fn": fn,
            "degcls": degcls, "exact": exact, "pts": pts, "pcls": pcls, "node_picks": node_picks,
            "rescls": [rc for _, _, _, rc in axes], "scalecls": scls, "coord_scale": svars, "value_scale": vscale}
    if far_origin:
        case["far_origin"] = True
        case["search_only"] = True
    case["forms"] = gen_forms(rng, case)
    if not smooth and not far_origin and degcls == "const" and rng.random() < 0.3:
        # a plain number as the wrapped function (autowrap turns it into a constant function): calls cannot be recorded
        case["forms"]["fn"] = "const"
        v = case["fn"]["coeffs"]
        while isinstance(v, list):
            v = v[0]
        case["fn"]["const_value"] = v
        case["search_only"] = True
    return case


def gen_find_case(rng, cid):
    """node array with dyadic entries (so that x[0] - padding is exact in double precision), a padding, and values at
    every decision boundary of find_index: ends, ends -/+ padding, one ulp either side, nodes, interior"""
    n = rng.choice([2, 2, 3, 4, 5, 8, 13])
    x = [dyadic(rng, -4, 4, 4)]
    for _ in range(n - 1):
        x.append(x[-1] + dyadic(rng, 0.0625, 2, 4))
    pad = rng.choice([0.0, 0.0, dyadic(rng, 0.0625, 2, 4), 2.0 ** -30, 64.0])
    vs = []
    for b in (x[0], x[-1], x[0] - pad, x[-1] + pad):
        vs += [b, float(np.nextafter(b, -np.inf)), float(np.nextafter(b, np.inf))]
    vs += [x[0] - pad / 2, x[-1] + pad / 2, x[0] - pad - 1.0, x[-1] + pad + 1.0, 0.0, -0.0]
    for _ in range(4):
        k = rng.randrange(n)
        vs += [x[k], float(np.nextafter(x[k], rng.choice([-np.inf, np.inf]))), dyadic(rng, x[0], x[-1], 10)]
    return {"id": cid, "kind": "find", "dim": 1, "x": x, "pad": pad, "vs": vs, "pts": [], "pcls": [], "search_only": False,
            "area": [x[0], x[-1]], "res": [1.0],
            "fn": {"kind": "poly", "coeffs": [0.0]}, "fb": None, "nbe": False, "degcls": "find", "fbcls": "none"}


def coq_find_case(case, out):
    obs = []
    for v, (kind, val) in zip(case["vs"], out["find"]):
        if kind not in (0, 2) or (kind == 0 and not (isinstance(val, float) and math.isfinite(val))):
            kind, val = 3, 0.0
        obs.append("(%s, %s, %s)" % (qlit(v), zz(kind), qlit(val)))
    return "check_find %s %s [%s]" % (nested_q(case["x"]), qlit(case["pad"]), "; ".join(obs))


def cell_orders(ncell, pattern, d, k0):
    """sequence of cell numbers (0 .. ncell-1) along one axis"""
    if pattern == "gap":           # cells k and k+d, then every cell strictly in between (alternating from both ends)
        k = min(k0, ncell - 1 - d)
        inner = list(range(k + 1, k + d))
        order = []
        while inner:
            order.append(inner.pop(len(inner) // 2))
        return [k, k + d] + order
    if pattern == "leapfrog":      # 0, 6, 3, 9, 5, 8, 1, ...
        base = [0, 6, 3, 9, 5, 8, 1, 7, 4, 2]
        return [c for c in base if c < ncell]
    if pattern == "outside-in":
        out, lo, hi = [], 0, ncell - 1
        while lo <= hi:
            out.append(lo)
            if hi != lo:
                out.append(hi)
            lo, hi = lo + 1, hi - 1
        return out
    if pattern == "inside-out":
        mid, out = ncell // 2, []
        for r in range(ncell):
            for c in ((mid + r), (mid - r)) if r else (mid,):
                if 0 <= c < ncell and c not in out:
                    out.append(c)
        return out
    raise ValueError(pattern)


def gen_gap_case(rng, cid, dim, varied, pattern, d, idx):
    """a history that visits cells of a long axis (>= 10 cells) in a non-monotone order with gaps, for the axes in `varied`
    (the other coordinates are held fixed); scheduled by run(), not drawn"""
    axes, ncells = [], []
    for a in range(dim):
        lo = dyadic(rng, -4, 4, 2)
        if a in varied:
            delta, n = rng.choice([0.25, 0.5, 0.375]), 10 + (idx + a) % 3
            hi = lo + delta * n + delta / 4
        else:
            delta, n = 0.5, 1 + (idx + a) % 2
            hi = lo + delta * n + 0.125
        axes.append((lo, hi, delta, "gap-history"))
        ncells.append(n)
    nodes = [guess_axis(lo, hi, dl) for lo, hi, dl, _ in axes]
    maxlen = {1: 12, 2: 8, 3: 5}[dim]
    orders = {a: cell_orders(len(nodes[a]) - 3, pattern, d, (idx * 2) % 3)[:maxlen] for a in varied}
    npts = min(len(o) for o in orders.values())
    fixed = [dyadic(rng, axes[a][0], axes[a][1], 6) for a in range(dim)]
    pts = []
    for t in range(npts):
        p = []
        for a in range(dim):
            if a in varied:
                c = orders[a][t]
                p.append(float(nodes[a][c + 1] + (nodes[a][c + 2] - nodes[a][c + 1]) * rng.choice([0.25, 0.5, 0.75])))
            else:
                p.append(fixed[a])
        pts.append(p)
    fbcls = FB_CLASSES[(idx * 5 + dim) % len(FB_CLASSES)]
    degcls = ["quad", "cubic", "affine"][idx % 3]
    area = []
    for lo, hi, _, _ in axes:
        area += [lo, hi]
    case = {"id": cid, "dim": dim, "area": area, "res": [dl for _, _, dl, _ in axes], "fb": gen_fb(rng, fbcls, 1.0), "fbcls": fbcls,
            "nbe": bool(idx % 2), "fn": {"kind": "poly", "coeffs": gen_poly(rng, dim, degcls)}, "degcls": degcls, "exact": True,
            "pts": pts, "pcls": ["%s%s:%s" % (pattern, d if pattern == "gap" else "", "".join("xyz"[a] for a in varied))] * len(pts),
            "node_picks": [[rng.random() for _ in range(dim)]], "rescls": ["gap-history"] * dim, "scalecls": "unit",
            "gap_history": {"pattern": pattern, "d": d, "axes": ["xyz"[a] for a in varied],
                            "cells": {"xyz"[a]: orders[a][:npts] for a in varied}}}
    return case


def gap_schedule(seed, quick):
    """(dim, varied axes, pattern, d) of the scheduled gap histories of one run: per dimension and per axis one leap-frog
    order and one of {gap d (d = 2..7), outside-in, inside-out} (rotating with the seed), plus one pair of axes"""
    rot = ["gap", "outside-in", "gap", "inside-out", "gap", "gap"]
    out, n = [], 0
    reps = 1 if quick else 12
    for rep in range(reps):
        for dim in (1, 2, 3):
            for a in range(dim):
                out.append((dim, [a], "leapfrog", 6))
                r = seed + rep + n
                out.append((dim, [a], rot[r % len(rot)], 2 + r % 6))
                n += 1
            if dim >= 2:
                pair = [(0, 1), (0, 2), (1, 2)][(seed + rep) % (1 if dim == 2 else 3)]
                out.append((dim, list(pair), "leapfrog" if (seed + rep) % 2 == 0 else "gap", 2 + (seed + rep + 4) % 6))
    return out


def gen_badform_case(rng, cid, dim):
    """argument forms the unchanged code rejects: the rejection is the expected outcome"""
    c = gen_case(rng, cid, dim, True, True)
    c["pts"], c["pcls"], c["node_picks"] = [], [], []
    c["forms"]["bad"] = "list_area" if dim == 1 else rng.choice(["list_area", "list_res"])
    c["search_only"] = True
    c["expect_ctor"] = "TypeError"
    return c


def gen_ctor_case(rng, cid, dim):
    """constructor arguments around the acceptance thresholds"""
    axes = []
    bad_axis = rng.randrange(dim)
    for a in range(dim):
        lo = dyadic(rng, -4, 4, 3)
        hi = lo + dyadic(rng, 0.5, 3, 3)
        delta = dyadic(rng, 0.25, 1, 4)
        if a == bad_axis:
            w = rng.choice(["eq", "rev", "eps", "epsup", "epsdn", "zero", "neg", "fine"])
            if w == "eq":
                hi = lo
            elif w == "rev":
                lo, hi = hi, lo
            elif w == "eps":
                delta = EPS
            elif w == "epsup":
                delta = float(np.nextafter(EPS, 1))      # accepted: keep the area tiny so that the grid stays small
                hi = lo + 2.0 ** -19
            elif w == "fine":
                delta = 2.0 ** -20
                hi = lo + 2.0 ** -16
            elif w == "epsdn":
                delta = float(np.nextafter(EPS, 0))
            elif w == "zero":
                delta = 0.0
            elif w == "neg":
                delta = -0.5
        axes.append((lo, hi, delta))
    area = []
    for lo, hi, _ in axes:
        area += [lo, hi]
    return {"id": cid, "dim": dim, "area": area, "res": [d for _, _, d in axes], "fb": None, "fbcls": "none",
            "nbe": False, "fn": {"kind": "poly", "coeffs": gen_poly(rng, dim, "affine")}, "degcls": "affine",
            "exact": True, "pts": [], "pcls": [], "node_picks": [], "ctor_case": True}


# ---------------------------------------------------------------------------------------------
# running the implementation (child process)
# ---------------------------------------------------------------------------------------------
def run_impl(cases, tag, timeout=1200):
    scratch = os.environ.get("VERIF_SCRATCH") or os.path.join(VERIF, "coq", "Gen", "C14")
    inp = os.path.join(scratch, "c14_%s_in.json" % tag)
    out = os.path.join(scratch, "c14_%s_out.json" % tag)
    json.dump(cases, open(inp, "w"))
    if os.path.exists(out):
        os.remove(out)
    env = dict(os.environ, VERIF_REPO=REPO, OMP_NUM_THREADS="1", OPENBLAS_NUM_THREADS="1")
    try:
        p = subprocess.run([PY, "-u", os.path.join(VERIF, "harness", "c14_impl.py"), inp, out], env=env,
                           stdout=subprocess.PIPE, stderr=subprocess.STDOUT, text=True, timeout=timeout)
        rc, log = p.returncode, p.stdout
    except subprocess.TimeoutExpired as e:
        rc, log = -9, "TIMEOUT after %ss %s" % (timeout, e.stdout or "")
    if rc == 0 and os.path.exists(out):
        return json.load(open(out)), None
    done = []
    if os.path.exists(out + ".part"):
        try:
            done = json.load(open(out + ".part"))
        except Exception:
            done = []
    return done, {"returncode": rc, "log": log[-2000:], "progress_file": out + ".progress"}


def culprit_index(err):
    try:
        return int(open(err["progress_file"]).read().strip())
    except Exception:
        return None


# ---------------------------------------------------------------------------------------------
# Coq text of a case
# ---------------------------------------------------------------------------------------------
def bits(v):
    return struct.pack("<d", float(v))


def qtuple(vals):
    return "(" + ", ".join(qlit(v) for v in vals) + ")" if len(vals) > 1 else qlit(vals[0])


def zz(n):
    return "(%d)%%Z" % int(n)


def ztuple(vals):
    return "(" + ", ".join(zz(v) for v in vals) + ")" if len(vals) > 1 else zz(vals[0])


def nested_q(c):
    if isinstance(c, list):
        return "[" + "; ".join(nested_q(v) for v in c) + "]"
    return qlit(c)


def call_codes(call, p, node_index):
    """per-axis code of a call argument: index of the node it equals, else -1 if it equals the evaluation point's own
    coordinate, else -99.  Equality of values (0.0 == -0.0), as in the model, whose rationals have one zero."""
    codes = []
    for a, v in enumerate(call):
        k = node_index[a].get(float(v))
        if k is None:
            k = -1 if float(v) == float(p[a]) else -99
        codes.append(k)
    return codes


def coq_case(case, out):
    dim = case["dim"]
    axes = out["axes"]
    node_index = [{float(v): k for k, v in reversed(list(enumerate(ax)))} for ax in axes]
    steps = []
    for p, st in zip(case["pts"], out["steps"]):
        kind, val = st["kind"], st["value"]
        if kind == 0 and not (isinstance(val, float) and math.isfinite(val)):
            kind, val = 3, 0.0
        if kind not in (0, 2):
            kind, val = 3, 0.0
        calls = "[" + "; ".join(ztuple(call_codes(c, p, node_index)) for c in st["calls"]) + "]"
        steps.append("(%s, %s, %s)" % (zz(kind), qlit(val), calls))
    fb = "None" if case["fb"] is None else "(Some (%s, %s))" % (qlit(case["fb"][0]), qlit(case["fb"][1]))
    return "check%d %s %s %s %s [%s] [%s] [%s] [%s]" % (
        dim, " ".join(nested_q(ax) for ax in axes), fb, "true" if case["nbe"] else "false",
        nested_q(case["fn"]["coeffs"]), "; ".join(qtuple(p) for p in case["pts"]), ";\n     ".join(steps),
        "; ".join(ztuple(k) for k in out["cells"]),
        "; ".join("(%s, %s)" % (ztuple(k), qlit(v)) for k, v in zip(out["nodes"], out["node_values"])))


def count_ambiguous(case):
    """number of axes on which int((hi - lo) / delta) is decided by double rounding: the exact quotient is not an
    integer but closer than 2^-40 (relative) to one.  The model takes the floor of the exact quotient."""
    n = 0
    for a in range(case["dim"]):
        lo, hi, d = case["area"][2 * a], case["area"][2 * a + 1], case["res"][a]
        if frac(d) <= 0 or frac(hi) <= frac(lo):
            continue
        q = (frac(hi) - frac(lo)) / frac(d)
        r = round(q)
        if q != r and abs(q - r) < Fraction(1, 2 ** 40) * max(1, r):
            n += 1
    return n


def coq_axis_cases(case, out, stats=None):
    res = []
    for a in range(case["dim"]):
        lo, hi, d = case["area"][2 * a], case["area"][2 * a + 1], case["res"][a]
        acc = out["ctor"] == "ok"
        q = (frac(hi) - frac(lo)) / frac(d)
        r = round(q)
        if q != r and abs(q - r) < Fraction(1, 2 ** 40) * max(1, r):
            continue                      # ambiguous node count: excluded from the exact comparison, counted in the evidence
        if acc:
            res.append(("check_axis %s %s %s true %s" % (qlit(lo), qlit(hi), qlit(d), nested_q(out["axes"][a])), a))
    return res


def ctor_expected(case):
    """acceptance of the constructor arguments, decided on the exact values (same comparisons as the
    model's axis_ok; the Coq side re-decides it for accepted cases)"""
    for a in range(case["dim"]):
        lo, hi, d = case["area"][2 * a], case["area"][2 * a + 1], case["res"][a]
        if not (frac(lo) < frac(hi) and frac(EPS) < frac(d)):
            return False
    return True


# ---------------------------------------------------------------------------------------------
# executable statement of the property on the implementation
# ---------------------------------------------------------------------------------------------
def absbound(c, ext, dim, der=None):
    """bound of |d^der f| over the box |x_a| <= ext[a] for a nested-coefficient polynomial;
    der = tuple of derivative orders per axis"""
    der = der or (0,) * dim

    def rec(c, a):
        if a == dim:
            return abs(c)
        tot = 0.0
        for n, sub in enumerate(c):
            if n < der[a]:
                continue
            fall = 1.0
            for j in range(der[a]):
                fall *= (n - j)
            tot += fall * ext[a] ** (n - der[a]) * rec(sub, a + 1)
        return tot
    return rec(c, 0)


def fn_bounds(fn, dim, ext):
    """(scale = bound of |f|, M = sum over a,b of the bound of |d_a d_b f|) over the box |x_a| <= ext[a]"""
    if fn["kind"] == "poly":
        scale = absbound(fn["coeffs"], ext, dim)
        M = 0.0
        for a in range(dim):
            for b in range(dim):
                der = [0] * dim
                der[a] += 1
                der[b] += 1
                M += absbound(fn["coeffs"], ext, dim, tuple(der))
        return scale, M
    if fn["kind"] == "trig":
        return abs(fn["A"]) + abs(fn["C"]), abs(fn["A"]) * sum(abs(k) for k in fn["k"]) ** 2
    e = math.exp(min(60.0, sum(abs(k) * x for k, x in zip(fn["k"], ext))))
    return abs(fn["A"]) * e + abs(fn["C"]), abs(fn["A"]) * e * sum(abs(k) for k in fn["k"]) ** 2


def same_bits(a, b):
    if isinstance(a, str) or isinstance(b, str):
        return a == b
    return bits(a) == bits(b)


def is_multiaffine(case):
    if case["fn"]["kind"] != "poly":
        return False
    return case["degcls"] in ("const", "affine")


def judge_case(case, out, stats):
    """-> list of failures of the property's executable statement on this case"""
    fails = []
    if case.get("kind") == "find":
        return fails                  # a helper of the anchored file, not the property itself: tied by the correspondence only
    dim = case["dim"]

    def fail(claim, **kw):
        fails.append(dict(kw, claim=claim, case_id=case["id"]))
    vtol = VAL_TOL if case["fn"]["kind"] == "poly" else SMOOTH_TOL[dim]
    tag = "%dd_%s" % (dim, "poly" if case["fn"]["kind"] == "poly" else "smooth")

    def peak(name, v):
        d = stats.setdefault(name, {})
        d[tag] = max(d.get(tag, 0.0), v)
    expect_ok = ctor_expected(case)
    expect = case.get("expect_ctor") or ("ok" if expect_ok else "ValueError")
    if out.get("ctor") != expect:
        fail("constructor accepts exactly min < max and resolution > 1e-7 (ValueError otherwise; TypeError for a list "
             "in place of the area / resolution tuple)", ctor=out.get("ctor"), expected=expect)
        return fails
    if expect != "ok":
        return fails
    axes = out["axes"]
    if out.get("ctor_calls"):
        fail("constructor does not evaluate the wrapped function", calls=out["ctor_calls"])
    for a, ax in enumerate(axes):
        if not all(ax[i] < ax[i + 1] for i in range(len(ax) - 1)):
            # resolution so close to 1e-7 that, in double precision, the guard node lo - resolution coincides with
            # the first sampling node lo - 1e-7: outside the model's hypothesis (strictly increasing nodes); such
            # objects are only checked for constructor acceptance and node positions
            stats["degenerate_grid"] += 1
            return fails
    org = case["fn"].get("origin") or [0.0] * dim
    ext = [max(abs(ax[0] - o), abs(ax[-1] - o)) for ax, o in zip(axes, org)]
    hmax = max(max(ax[i + 1] - ax[i] for i in range(len(ax) - 1)) for ax in axes)
    fbmag = 0.0 if case["fb"] is None else abs(case["fb"][0]) + abs(case["fb"][1])
    for si, (p, st) in enumerate(zip(case["pts"], out["steps"])):
        pext = [max(e, abs(v - o)) for e, v, o in zip(ext, p, org)]
        scale, M = fn_bounds(case["fn"], dim, pext)
        scale += fbmag + 1e-300
        info = {"step": si, "point": p}
        VT = vtol
        if st["kind"] == 3:
            fail("evaluation raises only ValueError (outside the area)", got=st["value"], **info)
            continue
        # (1) history independence: the used object and a fresh one agree bit for bit
        if st["kind"] != st["fresh"][0] or not same_bits(st["value"], st["fresh"][1]):
            fail("value does not depend on the points evaluated before (used vs fresh object, bit for bit)",
                 used=[st["kind"], st["value"]], fresh=st["fresh"], **info)
        # (1b) the same point on a third object driven through the reversed history: same bits
        rv = out.get("rev")
        if rv is not None and (rv[si][0] != st["kind"] or not same_bits(rv[si][1], st["value"])):
            fail("value does not depend on the order of evaluation (same history reversed on another object, bit for bit)",
                 forward=[st["kind"], st["value"]], reversed=rv[si], **info)
        in_user_area = all(case["area"][2 * a] <= p[a] <= case["area"][2 * a + 1] for a in range(dim))
        in_nodes = all(axes[a][1] <= p[a] <= axes[a][-2] for a in range(dim))
        fval = st["f"]
        if in_user_area:
            stats["inside"] += 1
            if st["kind"] != 0:
                fail("a point inside the caching area is evaluated (no exception)", **info)
                continue
            if not math.isfinite(st["value"]):
                fail("a point inside the caching area has a finite value", got=st["value"], **info)
                continue
            # (4) error bound: |cached - f| <= ERR_MULT h^2 M
            err = abs(st["value"] - fval)
            bound = ERR_MULT * hmax * hmax * M + VT * scale
            if M > 0 and hmax > 0:
                peak("max_err_over_h2_curvature", err / (hmax * hmax * M))
            if err > bound:
                fail("approximates the wrapped function within %g * h^2 * max curvature" % ERR_MULT, got=st["value"],
                     f=fval, h=hmax, curvature=M, **info)
            # (3) multi-affine functions are reproduced exactly
            if is_multiaffine(case):
                stats["affine_points"] += 1
                peak("max_affine_err", err / scale)
                if err > VT * scale:
                    fail("a function linear in each coordinate is reproduced exactly", got=st["value"], f=fval, **info)
        elif not in_nodes:
            stats["outside"] += 1
            # (5) outside: raises, or evaluates the wrapped function directly
            if case["nbe"]:
                recorded = case.get("forms", {}).get("fn") != "const"
                if st["kind"] != 0 or not same_bits(st["value"], fval) or \
                        (recorded and [list(c) for c in st["calls"]] != [list(map(float, p))]):
                    fail("outside the area with no_boundary_error the wrapped function is evaluated directly at the point",
                         got=[st["kind"], st["value"]], f=fval, calls=st["calls"][:3], **info)
            elif st["kind"] != 2:
                fail("outside the area a ValueError is raised", got=[st["kind"], st["value"]], **info)
        else:
            stats["shell"] += 1
        # (6) function bounds change nothing
        if "nofb" in st:
            nk, nv = st["nofb"]
            stats["fb_points"] += 1
            if nk != st["kind"]:
                fail("function bounds do not change the result", with_bounds=[st["kind"], st["value"]], without=[nk, nv], **info)
            elif nk == 0:
                d = abs(nv - st["value"]) if (math.isfinite(nv) and math.isfinite(st["value"])) else float("inf")
                if math.isfinite(d):
                    peak("max_fb_diff", d / scale)
                if not d <= VT * scale:
                    fail("function bounds do not change the result", with_bounds=st["value"], without=nv, **info)
    # (2) sampling nodes
    scale, _ = fn_bounds(case["fn"], dim, ext)
    scale += fbmag + 1e-300
    for nvl in out.get("nodevals", []):
        stats["node_points"] += 1
        if nvl["kind"] != 0 or not math.isfinite(nvl["value"]) or abs(nvl["value"] - nvl["f"]) > vtol * scale:
            fail("equals the wrapped function at a sampling node", key=nvl["key"], point=nvl["p"],
                 got=[nvl["kind"], nvl["value"]], f=nvl["f"])
        else:
            peak("max_node_err", abs(nvl["value"] - nvl["f"]) / scale)
    return fails


def shrink(case, claim, ctx):
    """drop points of the history while the same claim still fails; one batch of candidates per round"""
    cur = dict(case)
    for rnd in range(12):
        cands = []
        n = len(cur["pts"])
        if n <= 1:
            break
        for j in range(n):
            c = dict(cur, id=j, pts=cur["pts"][:j] + cur["pts"][j + 1:], pcls=cur["pcls"][:j] + cur["pcls"][j + 1:],
                     node_picks=[])
            cands.append(c)
        outs, err = run_impl(cands, "shrink")
        if err:
            break
        better = None
        for c, o in zip(cands, outs):
            st = new_stats()
            if any(f["claim"] == claim for f in judge_case(c, o, st)):
                if better is None or len(c["pts"]) < len(better["pts"]):
                    better = c
        if better is None:
            break
        cur = better
        # try a shorter prefix too
    return cur


def new_stats():
    return {"degenerate_grid": 0, "inside": 0, "outside": 0, "shell": 0, "affine_points": 0, "fb_points": 0, "node_points": 0,
            "max_err_over_h2_curvature": {}, "max_affine_err": {}, "max_fb_diff": {}, "max_node_err": {}}


# ---------------------------------------------------------------------------------------------
def run(ctx):
    ctx.trusted += [
        "Coq 8.16.1 kernel, vm_compute (no native_compute)",
        "standard-library classical reals + Coquelicot (only under the four theorems over R: C14_taylor_inequality_R, "
        "C14_error_bound_C2_{1d,2d,3d}): ClassicalDedekindReals.sig_forall_dec, ClassicalDedekindReals.sig_not_dec, "
        "Classical_Prop.classic, FunctionalExtensionality.functional_extensionality_dep; every other C14 theorem is closed "
        "under the global context",
        "harness/c14.py + harness/c14_impl.py: generators, recording wrapper around the wrapped function, "
        "exact Q literal printer, mapping of call arguments to node indices, comparator Model/C14_Check.v",
        "numpy.linalg.solve (LAPACK), numpy.linspace and IEEE double rounding: the model is exact, values are compared "
        "under 2^-34 of the scale of the wrapped function, node positions under 2^-46 of the magnitude of the arguments",
        "Cython code generation and memory views (boundscheck off in the code)",
    ]
    ctx.assumptions += [
        "the wrapped function is a pure total function returning finite non-NaN values (NaN is the code's 'not yet sampled' sentinel)",
        "2-D/3-D: the model stores the tensor product of the 1-D cubic; that the 16x16 / 64x64 solve of the code yields it is "
        "tied by the correspondence (values), not proved line by line",
        "the O(h^2 * curvature) error bound needs Taylor's theorem with remainder over the reals, which is not proved in Coq (partial)",
    ]
    ctx.rebuild()
    ctx.proofs("Properties.C14", THEOREMS, extra_modules=("Model.C14_Check",))

    # ---- translator: rows, right-hand sides, EPSILON regenerated from the current source; kernel-checked tie ----
    import c14_translate
    from common import coqc
    try:
        tinfo = c14_translate.generate(REPO, ctx.gen)
        ctx.obligation("translator: caching{1,2,3}d.pyx -> Gen/C14/C14_Src.v", "tie", True, json.dumps(tinfo))
        ok1, out1 = coqc(os.path.join(ctx.gen, "C14_Src.v"))
        ok2, out2 = coqc(os.path.join(ctx.gen, "C14_SrcTie.v")) if ok1 else (False, "C14_Src.v did not compile")
        ctx.obligation("Gen tie lemmas C14_SrcTie.v (EPSILON, cm rows 1-D/2-D, _constraints3d components and flags, cv right-hand "
                       "sides 1-D/2-D/3-D)", "tie", ok1 and ok2, (out1 + out2)[-1500:])
    except c14_translate.TranslateError as e:
        tinfo = {"error": str(e)}
        ctx.obligation("translator: caching{1,2,3}d.pyx -> Gen/C14/C14_Src.v", "tie", False,
                       "the source is no longer in the form the model was tied to: %s" % e)
    ctx.log("translator:", json.dumps(tinfo)[:200])
    rng = ctx.rng
    quick = ctx.quick
    for k in _SCHED:
        _SCHED[k] = 0
    # ---- replay ---------------------------------------------------------------------------------
    if ctx.replay:
        obj = json.load(open(ctx.replay))
        case = obj.get("replay", {}).get("case")
        if case:
            outs, err = run_impl([case], "replay")
            st = new_stats()
            fails = judge_case(case, outs[0], st) if outs else [{"claim": "implementation crashed", "err": err}]
            ctx.log("replay: %d failure(s)" % len(fails))
            for f in fails[:3]:
                ctx.log("   ", f["claim"], {k: v for k, v in f.items() if k not in ("claim",)})
                ctx.violation("c14:" + f["claim"][:48], f["claim"], {"case": case, "failure": f}, found=True)
    # ---- corpus -----------------------------------------------------------------------------------
    cases = []
    cdir = os.path.join(VERIF, "corpus", "C14")
    if os.path.isdir(cdir):
        for fn in sorted(os.listdir(cdir)):
            if fn.endswith(".json"):
                c = json.load(open(os.path.join(cdir, fn)))
                c["id"] = len(cases)
                c["corpus"] = fn
                cases.append(c)
    n_corpus = len(cases)
    # ---- generated cases --------------------------------------------------------------------------
    n_hist = {1: 44, 2: 15, 3: 5} if quick else {1: 1200, 2: 600, 3: 160}
    n_ctor = 18 if quick else 200
    n_smooth = {1: 20, 2: 14, 3: 8} if quick else {1: 400, 2: 300, 3: 100}
    for dim in (1, 2, 3):
        for i in range(n_hist[dim]):
            cases.append(gen_case(rng, len(cases), dim, quick, exact=(i % 4 != 3)))
    # scheduled gap / leap-frog / outside-in / inside-out histories on long axes, each axis in turn and pairs of axes
    for gi, (gdim, varied, pattern, gd) in enumerate(gap_schedule(ctx.seed, quick)):
        cases.append(gen_gap_case(rng, len(cases), gdim, varied, pattern, gd, gi + ctx.seed))
    for i in range(n_ctor):
        cases.append(gen_ctor_case(rng, len(cases), 1 + i % 3))
    for i in range(8 if quick else 200):
        cases.append(gen_find_case(rng, len(cases)))
    n_coq_cases = len(cases)
    for i in range(6 if quick else 60):
        cases.append(gen_badform_case(rng, len(cases), 1 + i % 3))
    # caching areas far from the origin of the coordinates (search only; see known_findings.txt key c14-farorigin)
    for i in range(9 if quick else 150):
        cases.append(gen_case(rng, len(cases), 1 + i % 3, quick, exact=True, smooth=bool(i % 2), far_origin=True))
    for dim in (1, 2, 3):
        for i in range(n_smooth[dim]):
            cases.append(gen_case(rng, len(cases), dim, quick, exact=bool(i % 2), smooth=True))
    t0 = time.time()
    n_generated = len(cases)
    for c in cases[n_coq_cases:]:
        c["search_only"] = True
    n_ambiguous_axes = sum(count_ambiguous(c) for c in cases if not c.get("search_only"))
    # run the implementation; a crash / hang of the child process is pinned to the case that was running
    # (progress file), reported, and the remaining cases are run in a new child process
    kept, outs, remaining = [], [], cases
    for attempt in range(6):
        o, err = run_impl(remaining, "main%d" % attempt, timeout=600 if quick else 3000)
        if not err:
            kept += remaining[:len(o)]
            outs += o
            break
        ci = culprit_index(err)
        if ci is None or ci >= len(remaining):
            ci = min(len(o), len(remaining) - 1)
        ndone = min(len(o), ci)
        kept += remaining[:ndone]
        outs += o[:ndone]
        bad = remaining[ci]
        ctx.obligation("implementation ran on generated case %s" % bad["id"], "correspondence", False, json.dumps(err)[:1500])
        ctx.violation("c14:crash", "the implementation crashed / hung / could not be imported while evaluating a generated case "
                      "(Caching%dD, child process exit %s)" % (bad["dim"], err["returncode"]),
                      {"case": bad, "error": err}, found=True)
        remaining = remaining[ndone:ci] + remaining[ci + 1:]
        if not remaining or err["returncode"] in (1, 2):     # import error / usage error: no point in retrying
            break
    cases = kept
    by_id = {c["id"]: c for c in cases}
    ctx.log("implementation: %d of %d cases run in %.1fs" % (len(outs), n_generated, time.time() - t0))
    # ---- Coq correspondence ------------------------------------------------------------------------
    texts, owners = [], []
    cost = []
    for c, o in zip(cases, outs):
        if c.get("search_only"):
            continue
        if c.get("kind") == "find":
            texts.append(coq_find_case(c, o))
            owners.append((c["id"], "find_index"))
            cost.append(5)
            continue
        if o.get("ctor") == "ok":
            for t, a in coq_axis_cases(c, o):
                texts.append(t)
                owners.append((c["id"], "axis%d" % a))
                cost.append(1)
            if c["pts"]:
                texts.append(coq_case(c, o))
                owners.append((c["id"], "history"))
                cost.append(sum(1 for _ in c["pts"]) * (4 ** c["dim"]))
        else:
            # rejected by the constructor: the model must reject as well (some axis not axis_ok)
            parts = []
            for a in range(c["dim"]):
                lo, hi, d = c["area"][2 * a], c["area"][2 * a + 1], c["res"][a]
                parts.append("axis_ok %s %s %s" % (qlit(lo), qlit(hi), qlit(d)))
            texts.append("negb (%s)" % " && ".join(parts))
            owners.append((c["id"], "ctor-rejected"))
            cost.append(1)
    # shard by estimated cost so that the 16 coqc processes finish together
    nshards = 16 if quick else 64
    order = sorted(range(len(texts)), key=lambda i: -cost[i])
    shards = [[] for _ in range(nshards)]
    load = [0] * nshards
    for i in order:
        j = load.index(min(load))
        shards[j].append(i)
        load[j] += cost[i] + 20
    files = []
    for si, ids in enumerate(shards):
        if not ids:
            continue
        txt = ("Require Import Cherab.Common.Qx Cherab.Model.C14_Cache Cherab.Model.C14_Caching Cherab.Model.C14_Check.\n"
               "Open Scope Q_scope.\nDefinition results : list bool := [\n  "
               + ";\n  ".join(texts[i] for i in ids) + "].\nEval vm_compute in (failing results).\n")
        files.append((ctx.write_gen("cases_%03d.v" % si, txt), ids))
    t0 = time.time()
    res = coqc_many([f for f, _ in files], timeout=900 if quick else 3000)
    ctx.log("coqc: %d files, %d checks in %.1fs" % (len(files), len(texts), time.time() - t0))
    diff = []
    for f, ids in files:
        ok, out = res[f]
        vals = parse_evals(out) if ok else []
        good = ok and len(vals) == 1
        failing = parse_zlist(vals[0]) if good else []
        ctx.obligation("correspondence %s (%d checks)" % (os.path.basename(f), len(ids)), "correspondence",
                       good and not failing, out if not good else "DIFF at local indices %s" % failing)
        if not good:
            ctx.broken.append("coqc failed on %s: %s" % (f, out[-500:]))
        diff += [owners[ids[i]] for i in failing]
    ctx.log("correspondence: %d checks, %d disagree %s" % (len(texts), len(diff), diff[:6]))

    # ---- failing-input search: the property's executable statement on every case -------------------------
    stats = new_stats()
    all_fails = []
    for c, o in zip(cases, outs):
        all_fails += judge_case(c, o, stats)
    strict_fails = [f for f in all_fails if not (by_id[f["case_id"]].get("far_origin") and "c14-farorigin" in ctx.known
                                                 and f["claim"].startswith(ACCURACY_CLAIMS))]
    ctx.obligation("executable property on the implementation (%d objects, %d evaluations)"
                   % (len(outs), sum(len(c["pts"]) for c in cases)), "search", not strict_fails,
                   json.dumps(strict_fails[:3], default=str)[:1500])
    by_claim = {}
    diff_ids = {cid for cid, _ in diff}
    for f in all_fails:
        # prefer a failure in a case that also disagrees with the model, then the shortest history
        c = by_id[f["case_id"]]
        far = bool(c.get("far_origin")) and f["claim"].startswith(ACCURACY_CLAIMS)
        key = ("far" if far else "") + f["claim"]
        rank = (0 if f["case_id"] in diff_ids else 1, len(c["pts"]))
        if key not in by_claim or rank < by_claim[key][0]:
            by_claim[key] = (rank, f, far)
    n_far_fail = sum(1 for f in all_fails if by_id[f["case_id"]].get("far_origin") and f["claim"].startswith(ACCURACY_CLAIMS))
    for key, (_, f, far) in list(by_claim.items())[:8]:
        c = by_id[f["case_id"]]
        claim = f["claim"]
        if far:
            # accuracy claims on areas far from the origin: one stable key (genuine numerical finding on the unchanged tree)
            ctx.violation("c14-farorigin", claim + " -- fails on the implementation (Caching%dD) for a caching area far from the "
                          "origin of the coordinates compared with its cell size (%d such failures in this run)" % (c["dim"], n_far_fail),
                          {"case": c, "failure": f}, found=True)
            continue
        small = shrink(c, claim, ctx) if c["pts"] else c
        ctx.violation("c14:" + claim[:48], claim + " -- fails on the implementation (Caching%dD)" % c["dim"],
                      {"case": small, "failure": f, "original_history_length": len(c["pts"])}, found=True)
    if diff and not strict_fails:
        for cid, what in diff[:3]:
            c = by_id[cid]
            if c.get("kind") == "find":
                ctx.violation("c14-diff:find_index", "utility.find_index with an extrapolation padding (observed through Interpolate1DLinear) "
                              "disagrees with the model; the caching classes call it with padding 0 only, the executable property found "
                              "no failing input", {"case": c, "correspondence": "coq/Gen/C14/cases_*.v"}, found=False)
                continue
            ctx.violation("c14-diff:%dd:%s" % (c["dim"], what.rstrip("012")),
                          "model and implementation disagree (%s of a Caching%dD case: exception kind, calls to the wrapped "
                          "function, value, cached cells or node positions); the executable property found no failing input"
                          % (what, c["dim"]), {"case": c, "what": what, "correspondence": "coq/Gen/C14/cases_*.v"}, found=False)

    # ---- coverage ----------------------------------------------------------------------------------
    dist = {"by_dim": {}, "fb_class": {}, "degree_class": {}, "point_class": {}, "resolution_class": {}, "scale_class": {},
            "argument_forms": {}, "no_boundary_error": 0,
            "nodes_per_axis": {}, "history_length": {"min": None, "max": None}}
    n_eval = 0
    new_cell_steps = 0
    cached_cell_steps = 0
    err_steps = 0
    for c, o in zip(cases, outs):
        if not c["pts"]:
            continue
        d = str(c["dim"])
        dist["by_dim"][d] = dist["by_dim"].get(d, 0) + 1
        dist["fb_class"][c["fbcls"]] = dist["fb_class"].get(c["fbcls"], 0) + 1
        dist["degree_class"][c["degcls"]] = dist["degree_class"].get(c["degcls"], 0) + 1
        dist["no_boundary_error"] += int(c["nbe"])
        for rc in c.get("rescls", []):
            dist["resolution_class"][rc] = dist["resolution_class"].get(rc, 0) + 1
        dist["scale_class"][c.get("scalecls", "unit")] = dist["scale_class"].get(c.get("scalecls", "unit"), 0) + 1
        for k, v in c.get("forms", {}).items():
            dist["argument_forms"]["%s=%s" % (k, v)] = dist["argument_forms"].get("%s=%s" % (k, v), 0) + 1
        for cl in c["pcls"]:
            for part in cl.split("+"):
                dist["point_class"][part] = dist["point_class"].get(part, 0) + 1
        if o.get("ctor") == "ok":
            for ax in o["axes"]:
                b = "%d" % (1 << max(len(ax) - 1, 1).bit_length())
                dist["nodes_per_axis"]["<%s" % b] = dist["nodes_per_axis"].get("<%s" % b, 0) + 1
            for st in o["steps"]:
                n_eval += 1
                if st["kind"] == 2:
                    err_steps += 1
                elif st["calls"] and len(st["calls"]) > 1:
                    new_cell_steps += 1
                else:
                    cached_cell_steps += 1
        L = len(c["pts"])
        dist["history_length"]["min"] = L if dist["history_length"]["min"] is None else min(L, dist["history_length"]["min"])
        dist["history_length"]["max"] = L if dist["history_length"]["max"] is None else max(L, dist["history_length"]["max"])
    dist.update({"evaluations_raising": err_steps, "evaluations_filling_a_cell": new_cell_steps,
                 "evaluations_on_cached_cell_or_direct": cached_cell_steps, "constructor_cases": n_ctor,
                 "corpus_cases": n_corpus,
                 "gap_histories(scheduled)": [c["gap_history"] for c in cases if c.get("gap_history")][:40],
                 "find_index_with_padding_cases": sum(1 for c in cases if c.get("kind") == "find"),
                 "rejected_argument_form_cases": sum(1 for c in cases if c.get("expect_ctor")),
                 "far_origin_cases(search only, known finding)": sum(1 for c in cases if c.get("far_origin")),
                 "far_origin_accuracy_failures": n_far_fail,
                 "axes_with_ambiguous_node_count(excluded from the exact grid comparison)": n_ambiguous_axes, "smooth_function_cases(search only)": sum(1 for c in cases if c.get("search_only")),
                 "search_point_counts": {k: v for k, v in stats.items() if not k.startswith("max_")}})
    # non-trivial: a history in which a cell is evaluated after a neighbouring cell (sharing nodes) was filled, or a
    # cell is revisited: exactly the situations in which lazily filled state is reused
    def nontrivial(c, o):
        if o.get("ctor") != "ok":
            return False
        filled = 0
        for st in o["steps"]:
            n = len(st["calls"])
            if st["kind"] == 0 and (n == 0 or (1 < n < 4 ** c["dim"])) and filled:
                return True
            if n > 1:
                filled += 1
        return False
    nt = [(c, o) for c, o in zip(cases, outs) if c["pts"] and nontrivial(c, o)]
    ctx.coverage.update({
        "evaluations": n_eval,
        "distinct_nontrivial": len({json.dumps([c["dim"], c["area"], c["res"], c["fb"], c["nbe"], c["fn"], c["pts"]]) for c, _ in nt}),
        "rule": "one case = one caching object (dimension, area, resolution, no_boundary_error, function bounds, wrapped function) and "
                "one history of evaluation points; 'evaluations' counts single evaluations of used objects (each is also repeated on a "
                "fresh object). A case is non-trivial when its history reuses lazily filled state: some evaluation hits an already "
                "calculated cell, or fills a cell that shares already sampled nodes with a previously filled one. distinct = distinct "
                "(object, history).",
        "distribution": dist,
        "cases": len(cases), "coq_checks": len(texts), "correspondence_disagreements": len(diff),
        "tolerance": {"value (Coq)": "2^-34 * (bound of |f| on the grid box and at the point + |function bounds|)",
                      "node positions (Coq)": "2^-46 * (|lo| + |hi| + |delta| + 1)", "calls, exception kind, cached cells, sampled nodes": "exact",
                      "data_view entries (Coq, intermediate values)": "2^-44 * (bound of |f| + |data_min|) / |data_delta|",
                      "used vs fresh object (search)": "bit for bit",
                      "search values": "%g * scale (polynomial wrapped functions); sin/exp wrapped functions: %s * scale by dimension "
                                       "(numerical conditioning of the code's solve + monomial basis, measured)" % (VAL_TOL, SMOOTH_TOL), "error bound (search)": "%g * h^2 * sum max|d_a d_b f|" % ERR_MULT},
        "measured": {k: v for k, v in stats.items() if k.startswith("max_")},
        "regenerated_from_source": tinfo,
        "partial": ["none of the property's clauses is left with an unproved hypothesis: the error bound is a theorem over R for twice "
                    "differentiable functions (Coquelicot's Taylor_Lagrange; classical-reals assumptions named in trusted_base); the "
                    "uniform-cell theorem C14_error_bound_partial keeps its name for continuity",
                    "tied by values, not by theorem: that numpy.linalg.solve returns the (proved unique) solution of the 4x4/16x16/64x64 "
                    "systems up to rounding, and IEEE rounding of the implementation's arithmetic (see tolerance)",
                    "known finding c14-farorigin: explained by theorem C14_farorigin_cancellation (error grows with (|x0|/h)^3), not fixed"],
    })
    samples = []
    for c, o in (nt[:1] + [(c, o) for c, o in zip(cases, outs) if c["dim"] == 2 and c["pts"]][:1]):
        samples.append({"case": {k: c[k] for k in ("dim", "area", "res", "fb", "nbe", "fn", "pts", "pcls")},
                        "implementation": [{"kind": s["kind"], "value": s["value"], "n_calls": len(s["calls"])} for s in o.get("steps", [])]})
    ctx.coverage["samples"] = samples or [cases[0]]
    ctx.grep_gate()
