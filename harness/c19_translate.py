"""Translator for C19: cherab/core/atomic/elements.pyx -> the list of module-level definitions.

elements.pyx is Cython, so it cannot be parsed as a whole with `ast`.  Its module level, however,
is plain Python: imports, two `{}` assignments (and possibly other literal constants), the class / function blocks, ~370 assignments of
the form  name = Element('..', '..', Z, w)  /  name = Isotope('..', '..', element, A, w)  and the
two calls that build the indices.  The translator walks the column-0 logical lines, skips the
indented class / def bodies, parses every other logical line with `ast` and accepts only the forms
listed above.  Anything else makes it fail (fail-closed): the caller reports that as a broken tie.

Weights: the right-hand side is evaluated twice, (a) with IEEE double arithmetic exactly as the
compiled module does (Python float semantics), (b) exactly, from the decimal text, in Fraction.
"""
import ast
import io
import tokenize
from fractions import Fraction


class TranslateError(Exception):
    pass


def _logical_lines(text):
    """Yield (lineno, source) of every column-0 logical line outside class/def bodies."""
    lines = text.splitlines(keepends=True)
    i, n = 0, len(lines)
    while i < n:
        ln = lines[i]
        stripped = ln.strip()
        if not stripped or stripped.startswith("#"):
            i += 1
            continue
        if ln[0] in " \t":
            raise TranslateError("line %d: indented code outside a class/def block" % (i + 1))
        head = stripped.split("(")[0].split(":")[0].split()
        if head and head[0] in ("cdef", "cpdef", "def", "class", "ctypedef") and stripped.endswith(":"):
            # a block: skip its header and every following blank / comment / indented line
            i += 1
            while i < n and (not lines[i].strip() or lines[i][0] in " \t" or lines[i].startswith("#")):
                i += 1
            continue
        if head and head[0] == "@":
            raise TranslateError("line %d: decorator at module level" % (i + 1))
        # accumulate a complete logical line
        start = i
        buf = ln
        while True:
            try:
                list(tokenize.generate_tokens(io.StringIO(buf).readline))
                break
            except tokenize.TokenError:
                i += 1
                if i >= n:
                    raise TranslateError("line %d: unterminated statement" % (start + 1))
                buf += lines[i]
        yield start + 1, buf
        i += 1


def _num(node, src, mode):
    """Evaluate a numeric expression: mode 'float' (IEEE double, Python semantics) or 'exact'."""
    if isinstance(node, ast.Constant) and type(node.value) in (int, float):
        if mode == "float":
            return node.value
        seg = ast.get_source_segment(src, node)
        return Fraction(seg.replace("_", ""))
    if isinstance(node, ast.UnaryOp) and isinstance(node.op, (ast.USub, ast.UAdd)):
        v = _num(node.operand, src, mode)
        return -v if isinstance(node.op, ast.USub) else v
    if isinstance(node, ast.BinOp) and isinstance(node.op, (ast.Add, ast.Sub, ast.Mult, ast.Div)):
        a, b = _num(node.left, src, mode), _num(node.right, src, mode)
        if isinstance(node.op, ast.Add):
            return a + b
        if isinstance(node.op, ast.Sub):
            return a - b
        if isinstance(node.op, ast.Mult):
            return a * b
        return a / b
    raise TranslateError("unsupported numeric expression: %s" % ast.dump(node))


def _wexpr(node, src):
    """Coq text of the weight expression in the language of coq/Model/C19_Weights.v (literals as exact rationals)"""
    if isinstance(node, ast.Constant) and type(node.value) in (int, float):
        fr = Fraction(ast.get_source_segment(src, node).replace("_", ""))
        return "(WLit (Qmake %s %d))" % ("(%d)" % fr.numerator if fr.numerator < 0 else "%d" % fr.numerator, fr.denominator)
    if isinstance(node, ast.UnaryOp) and isinstance(node.op, ast.USub):
        return "(WNeg %s)" % _wexpr(node.operand, src)
    if isinstance(node, ast.UnaryOp) and isinstance(node.op, ast.UAdd):
        return _wexpr(node.operand, src)
    if isinstance(node, ast.BinOp) and isinstance(node.op, (ast.Add, ast.Sub, ast.Mult, ast.Div)):
        name = {ast.Add: "WAdd", ast.Sub: "WSub", ast.Mult: "WMul", ast.Div: "WDiv"}[type(node.op)]
        return "(%s %s %s)" % (name, _wexpr(node.left, src), _wexpr(node.right, src))
    raise TranslateError("unsupported numeric expression: %s" % ast.dump(node))


def _str(node):
    if isinstance(node, ast.Constant) and isinstance(node.value, str):
        if not node.value.isascii():
            raise TranslateError("non-ASCII identifier %r" % node.value)
        return node.value
    raise TranslateError("expected a string literal, got %s" % ast.dump(node))


def _int(node):
    if isinstance(node, ast.Constant) and type(node.value) is int:
        return node.value
    if isinstance(node, ast.UnaryOp) and isinstance(node.op, ast.USub) and isinstance(node.operand, ast.Constant) \
            and type(node.operand.value) is int:
        return -node.operand.value
    raise TranslateError("expected an integer literal, got %s" % ast.dump(node))


def translate(path):
    """Returns (stmts, info).  stmts: list of dicts in source order
         {'kind': 'element', 'attr', 'name', 'symbol', 'Z', 'w' (float), 'w_exact' (Fraction), 'line'}
         {'kind': 'isotope', 'attr', 'name', 'symbol', 'elem_attr', 'A', 'w', 'w_exact', 'line'}
       info: {'index_calls': [...], 'ignored': [...]}"""
    text = open(path, encoding="utf8").read()
    stmts, index_calls, ignored = [], [], []
    literal_names = set()
    for lineno, src in _logical_lines(text):
        try:
            tree = ast.parse(src)
        except SyntaxError as e:
            raise TranslateError("line %d: not a Python statement: %s" % (lineno, e))
        for st in tree.body:
            if isinstance(st, (ast.Import, ast.ImportFrom)):
                ignored.append((lineno, "import"))
                continue
            if isinstance(st, ast.Expr) and isinstance(st.value, ast.Constant) and isinstance(st.value.value, str):
                ignored.append((lineno, "docstring"))
                continue
            if isinstance(st, ast.Expr) and isinstance(st.value, ast.Call) and isinstance(st.value.func, ast.Name) \
                    and st.value.func.id in ("_build_element_index", "_build_isotope_index") \
                    and not st.value.args and not st.value.keywords:
                index_calls.append((st.value.func.id, len(stmts)))
                continue
            if isinstance(st, ast.Assign) and len(st.targets) == 1 and isinstance(st.targets[0], ast.Name):
                attr = st.targets[0].id
                v = st.value
                if isinstance(v, ast.Dict) and not v.keys and attr in ("_element_index", "_isotope_index"):
                    ignored.append((lineno, "index dict"))
                    continue
                # a module constant that is a plain literal ([], {}, 3, 'text', None ...) cannot define a species; it is
                # ignored unless it rebinds a name that holds one
                try:
                    ast.literal_eval(v)
                    is_literal = True
                except (ValueError, SyntaxError, TypeError):
                    is_literal = False
                if is_literal:
                    if any(x["attr"] == attr for x in stmts):
                        raise TranslateError("line %d: %s rebinds a species to a literal" % (lineno, attr))
                    literal_names.add(attr)
                    ignored.append((lineno, "literal constant " + attr))
                    continue
                if attr in literal_names:
                    pass        # (a species assigned to a name that held a literal is an ordinary definition)
                if isinstance(v, ast.Call) and isinstance(v.func, ast.Name) and not v.keywords:
                    if v.func.id == "Element" and len(v.args) == 4:
                        stmts.append({"kind": "element", "attr": attr, "name": _str(v.args[0]),
                                      "symbol": _str(v.args[1]), "Z": _int(v.args[2]),
                                      "w": float(_num(v.args[3], src, "float")),
                                      "w_exact": _num(v.args[3], src, "exact"), "w_expr": _wexpr(v.args[3], src),
                                      "line": lineno})
                        continue
                    if v.func.id == "Isotope" and len(v.args) == 5 and isinstance(v.args[2], ast.Name):
                        stmts.append({"kind": "isotope", "attr": attr, "name": _str(v.args[0]),
                                      "symbol": _str(v.args[1]), "elem_attr": v.args[2].id,
                                      "A": _int(v.args[3]), "w": float(_num(v.args[4], src, "float")),
                                      "w_exact": _num(v.args[4], src, "exact"), "w_expr": _wexpr(v.args[4], src),
                                      "line": lineno})
                        continue
            raise TranslateError("line %d: module-level statement of an unknown form: %s" % (lineno, src.strip()[:120]))
    names = [c for c, _ in index_calls]
    if sorted(names) != ["_build_element_index", "_build_isotope_index"]:
        raise TranslateError("the index builders are not each called exactly once at module level: %r" % names)
    for c, pos in index_calls:
        if pos != len(stmts):
            raise TranslateError("%s() is called before the last definition (definitions after it are not indexed)" % c)
    return stmts, {"index_calls": index_calls, "ignored": len(ignored)}


def commented_rows(path):
    """The source also lists, as comments, the elements it does not define:
         # technetium = Element('technetium', 'Tc', 43, None)
       Returns [(Z, name, symbol)] of those lines (used only to cross-check the model's periodic table)."""
    import re
    rows = []
    for ln in open(path, encoding="utf8"):
        m = re.match(r"^#\s*(\w+)\s*=\s*Element\(\s*'([A-Za-z]+)'\s*,\s*'([A-Za-z]+)'\s*,\s*(\d+)\s*,", ln)
        if m:
            rows.append((int(m.group(4)), m.group(2), m.group(3)))
    return rows
