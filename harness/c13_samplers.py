"""Sampler cases of the C13 check: sample1d/2d/3d, *_grid, *_points and the vector variants."""
import math
from fractions import Fraction

import numpy as np

from common import qlit, zlit, dyadic
from c13_gen import fb, fbl

ERR = {None: "None", "ValueError": "(Some ErrValue)", "TypeError": "(Some ErrType)"}


def ql(xs):
    return "[" + "; ".join(qlit(float(x)) for x in xs) + "]"


def gen_range(rng):
    k = rng.randrange(8)
    n = rng.choice([1, 1, 2, 2, 3, 4, 5, 7, 17])
    if k == 0:
        a = b = dyadic(rng, -4, 4, 6)
    elif k == 1:
        a, b = 0.0, 1.0
    elif k == 2:
        a = dyadic(rng, -8, 0, 6)
        b = a + dyadic(rng, 0.125, 8, 6)
    elif k == 3:
        a = rng.uniform(-10, 10)
        b = a + rng.uniform(0.0, 10)
    elif k == 4:
        a, b = -1e6 * rng.random(), 1e6 * rng.random()
    elif k == 5:
        a, b = rng.randint(-5, 0), rng.randint(0, 5)          # python ints are accepted
    elif k == 6:
        a = rng.uniform(-1, 1) * 1e-3
        b = a + rng.random() * 1e-9
    else:
        a = rng.uniform(-3, 3)
        b = a + rng.uniform(0.1, 3)
    return (a, b, n)


def linspace_ok(xs, a, b, n):
    """evenly spaced, both end points included (exact reference in Fractions)"""
    if len(xs) != n:
        return False
    a_, b_ = Fraction(a), Fraction(b)
    tol = Fraction(max(abs(a), abs(b))) / 2 ** 48
    for i, x in enumerate(xs):
        want = a_ if n == 1 else a_ + (b_ - a_) * i / (n - 1)
        if abs(Fraction(float(x)) - want) > tol:
            return False
    if float(xs[0]) != float(a):
        return False
    if n > 1 and float(xs[-1]) != float(b):
        return False
    return True


def grid_mismatch(xs, a, b, n):
    """None if the returned coordinate array IS the documented grid numpy.linspace(min, max, samples) bit for bit (first
    point == min, last point == max, every interior point equal); else the concrete (index, observed, expected)"""
    want = np.linspace(float(a), float(b), int(n))
    xs = np.asarray(xs, dtype=float)
    if xs.shape != want.shape:
        return ("shape", list(xs.shape), list(want.shape))
    for i in range(len(want)):
        o, w = float(xs[i]), float(want[i])
        if not (o == w and math.copysign(1.0, o) == math.copysign(1.0, w)):
            return (i, o.hex() + " = " + repr(o), w.hex() + " = " + repr(w))
    if n > 1 and float(xs[-1]) != float(b):
        return (int(n) - 1, repr(float(xs[-1])), repr(float(b)))
    if float(xs[0]) != float(a) and not (n == 1):
        return (0, repr(float(xs[0])), repr(float(a)))
    return None


# end points that binary64 cannot represent, negative and large offsets; sample counts 2..200 incl. primes, 38, 50, 99
EXACT_RANGES = [(0.0, 1.0), (0.1, 0.7), (0.3, 0.9), (1.0 / 3.0, 2.0 / 3.0), (0.0, math.pi), (-math.pi, math.pi), (-0.7, -0.1),
                (1e6 + 0.1, 1e6 + 0.7), (-1e9 / 3.0, 1e9 / 7.0), (1e-3, 1.1e-3), (-0.9, 0.3), (2.5, 2.5000000001), (0.1, 1e15 / 3.0)]
EXACT_COUNTS = [2, 3, 5, 7, 11, 13, 38, 50, 97, 99, 100, 101, 127, 199, 200, 4, 6, 9, 10, 17, 23, 64, 150]


def exact_grid_plan(rng, quick):
    """(sampler, ranges): every range sampler; the long axis takes every count, the other axes stay short"""
    plan = []
    long_kinds = [("sample1d", 1), ("sample2d", 2), ("sample3d", 3), ("samplevector2d", 2), ("samplevector3d", 3)]
    off = rng.randrange(len(EXACT_RANGES))
    for ki, (kind, dim) in enumerate(long_kinds):
        pairs = []
        if quick:
            # every count once and every range twice per run for sample1d; a rotating third of that for the others
            for t, n in enumerate(EXACT_COUNTS[:15]):
                pairs.append((EXACT_RANGES[(off + t + ki) % len(EXACT_RANGES)], n))
            for t, r in enumerate(EXACT_RANGES):
                pairs.append((r, EXACT_COUNTS[(off + 2 * t + ki) % 15]))
                pairs.append((r, 2))
            if dim > 1:
                pairs = pairs[ki::3]
        else:
            pairs = [(r, n) for r in EXACT_RANGES for n in EXACT_COUNTS]
            if dim > 1:
                pairs = pairs[ki::2]
        for t, ((a, b), n) in enumerate(pairs):
            if dim == 3 or (quick and dim == 2):
                n = min(n, 50)
            ranges = []
            for d in range(dim):
                if d == t % dim:
                    ranges.append((a, b, n))
                else:
                    a2, b2 = EXACT_RANGES[(off + t + d + 1) % len(EXACT_RANGES)]
                    ranges.append((a2, b2, 2 if (dim == 3 or quick) else 3))
            plan.append((kind, ranges))
    return plan


def sampler_cases(ctx, C, samplers, Vector3D, rng, count):
    calls = []

    def f1(x):
        calls.append((x,))
        return float(len(calls) - 1)

    def f2(x, y):
        calls.append((x, y))
        return float(len(calls) - 1)

    def f3(x, y, z):
        calls.append((x, y, z))
        return float(len(calls) - 1)

    def v2(x, y):
        calls.append((x, y))
        c = float(len(calls) - 1)
        return Vector3D(c, c + 0.5, -c)

    def v3(x, y, z):
        calls.append((x, y, z))
        c = float(len(calls) - 1)
        return Vector3D(c, c + 0.5, -c)

    def lookup(v, vector):
        """v: array of call indices (component 0 for vectors) -> nested lists of the arguments of that call;
        also the check that the other two components belong to the same call"""
        ok = True
        if vector:
            c = v[..., 0]
            ok = bool(np.all(v[..., 1] == c + 0.5) and np.all(v[..., 2] == -c))
            v = c
        flat = v.reshape(-1)
        idx = []
        for t in flat:
            if not (t == int(t) and 0 <= int(t) < len(calls)):
                return None, False
            idx.append(int(t))
        arr = np.empty(len(flat), dtype=object)
        for i, t in enumerate(idx):
            arr[i] = list(calls[t])
        return arr.reshape(v.shape).tolist(), ok and len(calls) == len(flat) and len(set(idx)) == len(idx)

    def nested_q(got, depth):
        if depth == 0:
            return ql(got)
        return "[" + "; ".join(nested_q(g, depth - 1) for g in got) + "]"

    kinds = ["sample1d", "sample2d", "sample3d", "sample2d_grid", "sample3d_grid", "sample1d_points", "sample2d_points",
             "sample3d_points", "samplevector2d", "samplevector3d", "samplevector2d_grid", "samplevector3d_grid",
             "samplevector2d_points", "samplevector3d_points"]
    plan = exact_grid_plan(rng, count <= 200)
    for ci in range(count + len(plan)):
        planned = plan[ci - count] if ci >= count else None
        kind = planned[0] if planned else kinds[ci % len(kinds)]
        vector = kind.startswith("samplevector")
        dim = int(kind[len("samplevector" if vector else "sample")])
        calls.clear()
        fn = {(1, False): f1, (2, False): f2, (3, False): f3, (2, True): v2, (3, True): v3}[(dim, vector)]
        func = getattr(samplers, kind)
        if kind.endswith("_points"):
            rnd = ci // len(kinds)
            npts = [1, 0, 2, 5, 9, 10, 11][rnd % 7] if rnd < 7 else rng.choice([1, 2, 5, 9, 100])
            pts = np.array([[dyadic(rng, -8, 8, 8) for _ in range(dim)] for _ in range(npts)]).reshape(npts, dim)
            if npts >= 5:
                pts[3] = pts[0]            # repeated points are sampled again, in place
                pts[-1] = pts[0]
            arg = pts[:, 0] if dim == 1 else pts
            # unusual but valid containers (recorded: a read-only array is rejected, see forms_rejected)
            fk = (ci // len(kinds) + ci) % 6
            pform = ["float64_array", "nested_lists", "nested_tuples", "float32_array", "non_contiguous_view", "fortran_order"][fk]
            if fk == 1:
                arg = arg.tolist()
            elif fk == 2:
                arg = tuple(arg.tolist()) if dim == 1 else tuple(tuple(r_) for r_ in arg.tolist())
            elif fk == 3:
                arg = arg.astype(np.float32)
            elif fk == 4:
                big = np.zeros((2 * npts,) + ((dim,) if dim > 1 else ()))
                big[::2] = arg
                arg = big[::2]
            elif fk == 5 and dim > 1:
                arg = np.asfortranarray(arg)
            ctx.crumb({"stage": "samplers", "sampler": kind, "points": pts.tolist(), "form": pform})
            v = func(fn, arg)
            got, ok = lookup(np.asarray(v), vector)
            spec = ok and got is not None and all(tuple(g) == tuple(p) for g, p in zip(got, pts.tolist()))
            if dim == 1:
                expr = "chk_sample1 %s %s" % (ql(pts[:, 0]), nested_q(got or [], 1))
            else:
                tup = "[" + "; ".join("(" + ", ".join(qlit(float(t)) for t in p) + ")" for p in pts.tolist()) + "]"
                expr = "chk_points%d %s %s" % (dim, tup, nested_q(got or [], 1))
            C.add("sampler", "%s/n=%d/%s" % (kind, npts, pform), expr, {"sampler": kind, "points": pts.tolist(), "received_by_entry": got, "form": pform},
                  spec, "%s: v[i] == f(points[i])" % kind)
            continue
        fixed = [(0.0, 0.0, 1), (-1.0, 0.0, 3), (0.0, 1.0, 2), (-0.0, 0.0, 2), (-1.0, 1.0, 3), (0.0, 2.0, 5), (0, 0, 2)]
        ranges = [gen_range(rng) for _ in range(dim)]
        if ci < 2 * len(kinds):          # the first two rounds use ranges with exact zeros as end points / grid points
            ranges = [fixed[(ci + 3 * d) % len(fixed)] for d in range(dim)]
        rnd = ci // len(kinds)
        if 2 <= rnd < 8 and dim <= 2:       # counts around 10 and 100 (loop bounds) on the first axis
            a_, b_, _n = ranges[0]
            ranges[0] = (a_, b_, [9, 10, 11, 99, 100, 101][rnd - 2])
            if dim == 2:
                ranges[1] = ranges[1][:2] + (min(ranges[1][2], 3),)
        if dim == 3 and rnd == 2:
            ranges = [(0.0, 1.0, 2), (-1.0, 1.0, 3), (0.0, 3.0, 4)]      # all three sizes different
        if dim == 3:
            while ranges[0][2] * ranges[1][2] * ranges[2][2] > 200:
                ranges = [gen_range(rng) for _ in range(dim)]
        if planned:
            ranges = planned[1]
        ctx.crumb({"stage": "samplers", "sampler": kind, "ranges": ranges})
        if kind.endswith("_grid"):
            axes = [np.linspace(a, b, n) if rng.randrange(2) else np.sort(np.array([dyadic(rng, -8, 8, 8) for _ in range(n)]))
                    for (a, b, n) in ranges]
            given = []
            for d_, ax_ in enumerate(axes):
                fk = (ci + d_ + ci // len(kinds)) % 8
                if fk == 1:
                    ax_ = ax_[::-1].copy()                       # descending order is a valid axis
                elif fk == 2 and len(ax_) > 1:
                    ax_ = ax_.copy()
                    ax_[-1] = ax_[0]                             # repeated coordinate
                elif fk == 6 and d_ == 0 and ci >= len(kinds):
                    ax_ = ax_[:0]                                # empty axis: an empty array comes back
                axes[d_] = ax_
                given.append(ax_.tolist() if fk == 3 else tuple(ax_.tolist()) if fk == 4 else
                             np.repeat(ax_, 2)[::2] if fk == 5 else (ax_.astype(np.float32) if fk == 7 and np.array_equal(ax_.astype(np.float32), ax_) else ax_))
            v = func(fn, *given)
            lin_ok = True
            lin_expr = []
            grid_claim = None
        else:
            # the sample count as a numpy integer / an integral float, the end points as numpy scalars (all accepted)
            fk = (ci // len(kinds)) % 4
            given = [((a, b, np.int64(n)) if fk == 1 else (a, b, float(n)) if fk == 2 else (np.float64(a), np.float64(b), n) if fk == 3 else (a, b, n))
                     for (a, b, n) in ranges]
            grid_claim = None
            if planned:
                # a function whose domain is exactly the sampled box: one ulp outside it raises, as an interpolator sampled over
                # exactly its own domain would
                lo_ = [float(r[0]) for r in ranges]
                hi_ = [float(r[1]) for r in ranges]

                def bounded(*args, _f=fn):
                    for d__, t__ in enumerate(args):
                        if not (lo_[d__] <= t__ <= hi_[d__]):
                            raise OverflowError("sampled at %r (axis %d), outside the requested range [%r, %r]" % (t__, d__, lo_[d__], hi_[d__]))
                    return _f(*args)
                try:
                    res = func(bounded, *given)
                except OverflowError as ex:
                    grid_claim = "%s%r evaluates a function defined on exactly the requested box outside it: %s" % (kind, tuple(ranges), ex)
                    calls.clear()
                    res = func(fn, *given)
            else:
                res = func(fn, *given)
            axes, v = [np.asarray(t) for t in res[:dim]], res[dim]
            lin_ok = len(res) == dim + 1 and grid_claim is None
            for d_, (ax, (a, b, n)) in enumerate(zip(axes, ranges)):
                mm = grid_mismatch(ax, a, b, n)
                if mm is not None:
                    lin_ok = False
                    grid_claim = grid_claim or ("%s: coordinate array %d for range (min=%r, max=%r, samples=%d) differs from the documented grid "
                                                "numpy.linspace(min, max, samples) at index %s: observed %s, expected %s"
                                                % (kind, d_, a, b, n, mm[0], mm[1], mm[2]))
            lin_expr = ["chk_linspace_F %s %s %s %s" % (zlit(n), fb(float(a)), fb(float(b)), fbl([float(t) for t in ax]))
                        for ax, (a, b, n) in zip(axes, ranges)]
        v = np.asarray(v)
        shape_ok = v.shape == tuple(len(ax) for ax in axes) + ((3,) if vector else ())
        got, ok = lookup(v, vector) if shape_ok else (None, False)
        spec = lin_ok and shape_ok and ok
        if spec:
            it = np.ndindex(*[len(ax) for ax in axes])
            for ix in it:
                g = got
                for t in ix:
                    g = g[t]
                if tuple(g) != tuple(float(axes[d][ix[d]]) for d in range(dim)):
                    spec = False
                    break
        expr = " && ".join(lin_expr + ["chk_sample%d %s %s" % (dim, " ".join(ql(ax) for ax in axes), nested_q(got or [], dim))])
        big = sum(len(ax) for ax in axes) > 60
        C.add("sampler", "%s/%sn=%s" % (kind, "exact_grid/" if planned else "", "x".join(str(len(ax)) for ax in axes)), "(" + expr + ")",
              {"sampler": kind, "ranges": [list(r) for r in ranges], "axes": "(long)" if big else [ax.tolist() for ax in axes],
               "received_by_entry": "(long)" if big else got},
              spec, grid_claim or "%s: v[i,j,k] == f(x_i, y_j, z_k) on evenly spaced axes including both end points" % kind)

    # range validation: every range sampler, every axis, every way a range can be wrong
    for rep in range(max(1, count // 28)):
        for name, fn, dim in (("sample1d", f1, 1), ("sample2d", f2, 2), ("sample3d", f3, 3), ("samplevector2d", v2, 2), ("samplevector3d", v3, 3)):
            for pos in range(dim):
                a = dyadic(rng, -4, 4, 4)
                for tup in ((a, a + 1.0, 2), (a, a, 1), (a, a, 3), (a, a + 1.0, 0), (a, a + 1.0, -1), (a, a - 2.0 ** -4, 2),
                            (a + 1.0, a, 1), (a, a + 1.0), (a, a + 1.0, 2, 1)):
                    ranges = [(0.0, 1.0, 2)] * dim
                    ranges[pos] = tup
                    calls.clear()
                    try:
                        getattr(samplers, name)(fn, *ranges)
                        e = None
                    except (ValueError, TypeError) as ex:
                        e = type(ex).__name__
                    ln = len(tup)
                    n = tup[2] if ln >= 3 else 1
                    want = "ValueError" if (ln != 3 or tup[0] > tup[1] or n < 1) else None
                    C.add("validate", "%s:%s" % (name, want), "chk_range_validate %s %s %s %s %s" % (
                        zlit(ln), qlit(tup[0]), qlit(tup[1]), zlit(n), ERR.get(e, "(Some ErrOther)")),
                        {"sampler": name, "axis": pos, "range": list(tup), "raised": e}, e == want,
                        "%s: a range is (min, max, samples) with min <= max and samples >= 1" % name)
