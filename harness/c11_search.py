"""Failing-input search for C11: the executable statement of the property evaluated on the real
implementation (never on the Coq model).

SART: the returned solution and convergence list equal those of a NumPy re-statement of the DOCUMENTED
  update rule (docstring formula + clipping + documented stopping rule), the solution is never negative after
  a sweep, an exact non-negative solution stays fixed, the number of sweeps respects the limits.
NNLS / LSQ / SVD: the returned point has an objective |Wx-b|^2 + alpha^2 |Lx|^2 not above that of any
  competitor tried (independent solves + perturbations, projected to x >= 0 for NNLS), x >= 0 for NNLS,
  and the reported residual norm / sum of squares matches the solution.
"""
import warnings

import numpy as np
import scipy.optimize

E1 = float(np.exp(-1))


def ref_sart(W, b, x0, maxit, relax, tol, L=None, beta=0.0):
    """the documented rule, vectorised, long double accumulation"""
    ld = np.longdouble
    W_, b_, x = W.astype(ld), b.astype(ld), x0.astype(ld)
    dens, lens = W_.sum(axis=0), W_.sum(axis=1)
    bb = b_ @ b_
    conv = []
    margin = np.inf
    mag = float(np.abs(x).max(initial=0.0))       # magnitude of the terms the iterates are built from (rounding-error scale)
    for k in range(max(int(maxit), 0)):
        yhat = W_ @ x
        ratio = np.zeros_like(lens)
        nz = lens != 0
        ratio[nz] = (b_[nz] - yhat[nz]) / lens[nz]
        upd = np.zeros_like(x)
        pos = dens > 0
        upd[pos] = ld(relax) / dens[pos] * (W_.T @ ratio)[pos]
        aupd = np.zeros_like(x)
        aratio = np.zeros_like(lens)
        aratio[nz] = (np.abs(b_[nz]) + np.abs(W_) [nz] @ np.abs(x)) / np.abs(lens[nz])
        aupd[pos] = abs(ld(relax)) / dens[pos] * (np.abs(W_).T @ aratio)[pos]
        xn = x + upd
        if L is not None:
            xn = xn - ld(beta) * (L.astype(ld) @ x)
            aupd = aupd + abs(ld(beta)) * (np.abs(L.astype(ld)) @ np.abs(x))
        mag = max(mag, float((np.abs(x) + aupd).max(initial=0.0)))
        x = np.where(xn < 0, ld(0), xn)
        y = W_ @ x
        conv.append((bb - y @ y) / bb)
        if k > 0:
            d = abs(conv[k] - conv[k - 1])
            margin = min(margin, abs(float(d) - tol))
            if d < tol:
                break
    return x.astype(float), [float(c) for c in conv], margin, mag


def initial_array(g, n):
    if g is None:
        return np.zeros(n) + E1
    if isinstance(g, float):
        return np.zeros(n) + g
    return np.array(g, dtype=float)


def check_sart_case(case, out):
    impl = case.get("impl")
    if not impl:
        return
    kind, n = case["kind"], case["n"]
    W, b = case["W"], case["b"]
    base = {"kind": kind, "W": W.tolist(), "b": b.tolist(), "guess": case["guess"].tolist() if isinstance(case["guess"], np.ndarray) else case["guess"],
            "relaxation": case["relax"], "conv_tol": case["tol"], "max_iterations": case["maxit"],
            "passed_as": case.get("forms")}
    if kind == "csart":
        base.update({"laplacian": case["L"].tolist(), "beta_laplace": case["beta"]})
    out["n"] += 1
    if impl["status"] == "zerodiv":
        if not (case["maxit"] >= 1 and not np.any(b)):
            out["f"].append(dict(base, claim="ZeroDivisionError although the measurement vector is not zero"))
        return
    x0 = initial_array(case["guess"], n)
    x = np.array(impl["x"]) if impl["x"] is not None else x0
    cs = impl["convs"]
    if case["maxit"] >= 1 and not np.any(b):
        out["f"].append(dict(base, claim="no error for an all-zero measurement (convergence value undefined)"))
        return
    rx, rcs, margin, mag = ref_sart(W, b, x0, len(cs), case["relax"], -1.0, case.get("L"), case.get("beta", 0.0))
    mi = max(case["maxit"], 0)
    if not (min(2, mi) <= len(cs) <= mi):
        out["f"].append(dict(base, claim="number of sweeps outside [min(2, max_iterations), max_iterations]", sweeps=len(cs)))
        return
    # the documented stopping rule replayed EXACTLY on the implementation's own convergence values (same double
    # arithmetic: abs(c_k - c_(k-1)) < conv_tol, first at k = 1): it must have stopped at the first such k and nowhere else
    tol = case["tol"]
    first = next((k for k in range(1, len(cs)) if abs(cs[k] - cs[k - 1]) < tol), None)
    if first is not None and first != len(cs) - 1:
        out["f"].append(dict(base, claim="did not stop at the first sweep k >= 1 with |c_k - c_(k-1)| < conv_tol",
                             first_k=first, sweeps=len(cs), convs=cs))
        return
    if first is None and len(cs) < mi:
        out["f"].append(dict(base, claim="stopped before max_iterations although no |c_k - c_(k-1)| < conv_tol occurred",
                             sweeps=len(cs), convs=cs))
        return
    # the iterate against the documented rule (long double re-statement run for the same number of sweeps); tolerance
    # relative to the magnitude of the terms the iterates are built from
    scale = max(1e-300, np.abs(rx).max(initial=0.0), np.abs(x0).max(initial=0.0), mag)
    if np.abs(x - rx).max(initial=0.0) > 1e-9 * scale:
        j = int(np.argmax(np.abs(x - rx)))
        out["f"].append(dict(base, claim="returned solution differs from the iterate of the documented update rule",
                             cell=j, got=float(x[j]), want=float(rx[j]), sweeps=len(cs)))
        return
    # every convergence value against its definition evaluated at the implementation's own iterate of that sweep
    ld = np.longdouble
    bb = b.astype(ld) @ b.astype(ld)
    for k, xk in enumerate(impl.get("xs") or []):
        y = W.astype(ld) @ np.asarray(xk, dtype=ld)
        own = float((bb - y @ y) / bb)
        if abs(cs[k] - own) > 1e-9 * (2 + abs(own)):
            out["f"].append(dict(base, claim="convergence value differs from (|b|^2 - |W x|^2) / |b|^2 of the iterate",
                                 sweep=k, got=cs[k], want=own))
            return
    if len(cs) >= 1 and np.any(x < 0):
        out["f"].append(dict(base, claim="negative component in the solution after at least one sweep", got=x.tolist()))
    if "exact_solution_start" in case["tags"] and np.abs(x - x0).max(initial=0.0) > 1e-12 * scale:
        out["f"].append(dict(base, claim="an exact non-negative solution used as initial guess is not a fixed point",
                             got=x.tolist(), want=x0.tolist()))


def objective(W, b, alpha, L, x):
    ld = np.longdouble
    r = W.astype(ld) @ x.astype(ld) - b.astype(ld)
    s = L.astype(ld) @ x.astype(ld)
    return float(r @ r + ld(alpha) * ld(alpha) * (s @ s))


def obj_scale(W, b, alpha, L, x):
    C = np.vstack([np.abs(W), abs(alpha) * np.abs(L)])
    d = np.concatenate([np.abs(b), np.zeros(L.shape[0])])
    m = C @ np.abs(x) + d
    return float(m @ m) + 1e-300


def check_lsq_case(case, rng, out):
    impl = case.get("impl")
    if not impl:
        return
    kind, n, m = case["kind"], case["n"], case["m"]
    if case.get("scipy_nnls_defect"):
        return          # already reported under its own key (third-party solver returned a non-minimiser)
    W, b = case["W"], case["b"]
    alpha = case.get("alpha", 0.0) if kind != "svd" else 0.0
    L = case.get("L") if kind != "svd" else None
    Lm = np.identity(n) if L is None else L
    base = {"kind": kind, "W": W.tolist(), "b": b.tolist(), "alpha": alpha, "tikhonov_matrix": None if L is None else L.tolist(),
            "passed_as": case.get("forms")}
    out["n"] += 1
    vmax_zero = not (b.max(initial=0.0) != 0)
    if impl["status"] != "ok":
        if not (kind == "nnls" and vmax_zero):
            out["f"].append(dict(base, claim="raised %s although max(b) > 0" % impl["status"], message=impl.get("message")))
        return
    x = np.array(impl["x"])
    F = objective(W, b, alpha, Lm, x)
    sc = obj_scale(W, b, alpha, Lm, x)
    tol = (1e-5 if case.get("single") else 1e-9) * sc     # single precision inside the implementation for float32 (svd: also uint8/bool) input
    C = np.vstack([W, alpha * Lm])
    d = np.concatenate([b, np.zeros(n)])
    comps = []
    with warnings.catch_warnings():
        warnings.simplefilter("ignore")
        if kind == "nnls":
            if np.any(x < 0):
                out["f"].append(dict(base, claim="NNLS solution has a negative component", got=x.tolist()))
                return
            try:
                comps.append(("scipy nnls on the unnormalised stacked system", scipy.optimize.nnls(C, d)[0]))
            except Exception:
                pass
            try:
                comps.append(("lsq_linear bvls", scipy.optimize.lsq_linear(C, d, bounds=(0, np.inf), method="bvls").x))
            except Exception:
                pass
        else:
            comps.append(("pinv of the stacked system", np.linalg.pinv(C) @ d))
    for t in range(6):
        step = 10.0 ** (-rng.randint(1, 6)) * (1 + np.abs(x).max(initial=0.0))
        comps.append(("random perturbation", x + step * np.array([rng.uniform(-1, 1) for _ in range(n)])))
    for j in range(min(n, 4)):
        e = np.zeros(n)
        e[rng.randrange(n)] = 1e-3 * (1 + np.abs(x).max(initial=0.0))
        comps.append(("coordinate step", x + e))
        comps.append(("coordinate step", x - e))
    comps.append(("scaled", x * 0.999))
    comps.append(("scaled", x * 1.001))
    # a competitor counts as lower only beyond the eps-optimality that the certificate theorems guarantee for a backward
    # stable solver (C11_kkt_certificate_sufficient / C11_normal_equations_certificate_sufficient with the checker's eps):
    # for systems whose conditioning exceeds double precision (e.g. alpha 2^51 times larger than W) that is all the
    # property can mean, and the search must not demand more than the theorem states
    rel = 2.0 ** -17 if case.get("single") else 2.0 ** -30
    Cabs = np.vstack([np.abs(W), abs(alpha) * np.abs(Lm)])
    rowmag = Cabs @ np.abs(x) + np.concatenate([np.abs(b), np.zeros(Lm.shape[0])])
    e1 = rel * float(Cabs.sum(axis=0).max(initial=0.0) * rowmag.max(initial=0.0))
    for name, y in comps:
        y = np.asarray(y, dtype=float)
        if kind == "nnls":
            y = np.maximum(y, 0.0)
        Fy = objective(W, b, alpha, Lm, y)
        slack = 2 * e1 * (float(np.abs(y).sum()) if kind == "nnls" else float(np.abs(y - x).sum())) + (2 * n * rel * sc if kind == "nnls" else 0.0)
        if Fy < F - max(tol, slack):
            out["f"].append(dict(base, claim="returned point is not a minimiser of |Wx-b|^2 + alpha^2|Lx|^2%s: a competitor is lower"
                                 % (" over x >= 0" if kind == "nnls" else ""), competitor=name, objective_returned=F,
                                 objective_competitor=Fy, x=x.tolist(), y=y.tolist()))
            return
    if kind == "nnls":
        rn = impl["rnorm"]
        if rn < 0 or abs(rn * rn - F) > tol:
            out["f"].append(dict(base, claim="reported residual norm is not consistent with the solution (rnorm^2 vs objective)",
                                 rnorm=rn, sqrt_objective=float(np.sqrt(F)), x=x.tolist()))
    if kind == "lstsq":
        res = impl["residuals"]
        if len(res) > 1 or (len(res) == 1 and abs(res[0] - F) > tol):
            out["f"].append(dict(base, claim="reported sum of squared residuals is not consistent with the solution",
                                 residuals=res, objective=F, x=x.tolist()))


def plain_sart(inv, case, W, b, g):
    with warnings.catch_warnings():
        warnings.simplefilter("ignore")
        if case["kind"] == "sart":
            x, cs = inv.invert_sart(W, b, initial_guess=g, max_iterations=case["maxit"], relaxation=case["relax"],
                                    conv_tol=case["tol"])
        else:
            x, cs = inv.invert_constrained_sart(W, case["L"].copy(), b, initial_guess=g, max_iterations=case["maxit"],
                                                relaxation=case["relax"], beta_laplace=case["beta"], conv_tol=case["tol"])
    return np.array(x, dtype=float), [float(c) for c in cs]


def check_sart_covariance(inv, case, rng, out):
    """SCALE: W and b multiplied by the same power of two leave solution and convergence values unchanged (exactly, a
    power of two commutes with rounding).  ORDER: the observations in another order give the same solution (up to the
    rounding of a sum taken in another order)."""
    impl = case.get("impl")
    if not impl or impl["status"] != "ok" or not impl["convs"] or case["m"] == 0 or case["n"] == 0:
        return
    W, b = case["W"], case["b"]
    x0 = initial_array(case["guess"], case["n"])
    # baseline on plain contiguous float64 copies: the comparisons below then differ from it ONLY by the scaling / the order
    # (the case's own objects may be strided, and NumPy rounds sums differently for different strides)
    x, cs = plain_sart(inv, case, W.copy(), b.copy(), x0.copy())
    if not cs:
        return
    top = max(np.abs(W).max(), np.abs(b).max(), np.abs(x0).max(), 1e-300)
    low = min([v for v in (np.abs(W[W != 0]).min(initial=np.inf), np.abs(b[b != 0]).min(initial=np.inf)) if np.isfinite(v)] + [1.0])
    base = {"kind": case["kind"], "W": W.tolist(), "b": b.tolist(), "guess": x0.tolist(), "relaxation": case["relax"],
            "conv_tol": case["tol"], "max_iterations": case["maxit"]}
    if case["kind"] == "csart":
        base.update({"laplacian": case["L"].tolist(), "beta_laplace": case["beta"]})
    out["n"] += 1
    k = rng.randint(-100, 100)
    if top * 2.0 ** k < 1e120 and low * 2.0 ** k > 1e-120:
        sx, scs = plain_sart(inv, case, W * 2.0 ** k, b * 2.0 ** k, x0.copy())
        sc = max(np.abs(x).max(initial=0.0), np.abs(x0).max(initial=0.0), 1e-300)
        if len(scs) != len(cs) or np.abs(sx - x).max(initial=0.0) > 1e-12 * sc or any(
                abs(a - c) > 1e-12 * (2 + abs(c)) for a, c in zip(scs, cs)):
            out["f"].append(dict(base, claim="not scale covariant: W and b multiplied by 2^k give a different solution / convergence list",
                                 k=k, got=sx.tolist(), want=x.tolist(), got_convs=scs, want_convs=cs))
            return
    perm = list(range(case["m"]))
    rng.shuffle(perm)
    px, pcs = plain_sart(inv, case, W[perm, :].copy(), b[perm].copy(), x0.copy())
    _, _, _, mag = ref_sart(W, b, x0, len(cs), case["relax"], -1.0, case.get("L"), case.get("beta", 0.0))
    sc = max(np.abs(x).max(initial=0.0), np.abs(x0).max(initial=0.0), mag, 1e-300)
    if len(pcs) == len(cs) and np.abs(px - x).max(initial=0.0) > 1e-9 * sc:
        out["f"].append(dict(base, claim="the solution depends on the order of the observations", permutation=perm,
                             got=px.tolist(), want=x.tolist()))


def search(inv, nnls_mod, lstsq_mod, svd_mod, sart_cases, lsq_cases, rng, quick, seeds=()):
    out = {"n": 0, "f": []}
    for case in sart_cases:
        check_sart_case(case, out)
        if not case.get("derived") and rng.random() < 0.4:
            check_sart_covariance(inv, case, rng, out)
    for case in lsq_cases:
        check_lsq_case(case, rng, out)
    return {"n_checked": out["n"], "failures": out["f"]}


def nnls_scipy_attributable(case, x, rn):
    """True when the NNLS output is not a minimiser / has an inconsistent norm AND scipy.optimize.nnls called directly on the
    correctly built normalised system [W; alpha L] / vmax, [b; 0] / vmax (float64, built here from the case's values)
    returns that same output: the wrapper did its part, the third-party solver returned a non-minimiser."""
    n = case["n"]
    W, b, alpha = case["W"], case["b"], case["alpha"]
    Lm = np.identity(n) if case.get("L") is None else case["L"]
    C = np.vstack([W, alpha * Lm])
    d = np.concatenate([b, np.zeros(n)])
    vmax = d.max()
    if not vmax > 0:
        return False, None
    with warnings.catch_warnings():
        warnings.simplefilter("ignore")
        try:
            xs, rs = scipy.optimize.nnls(C / vmax, d / vmax, **(case.get("solver_kwargs") or {}))
            xr = scipy.optimize.nnls(C, d)[0]
        except Exception:
            return False, None
    x = np.asarray(x, dtype=float)
    same = xs.shape == x.shape and np.allclose(xs, x, rtol=1e-9, atol=1e-300) and abs(rs * vmax - rn) <= 1e-9 * abs(rn)
    F, Fr = objective(W, b, alpha, Lm, x), objective(W, b, alpha, Lm, np.maximum(xr, 0.0))
    sc = obj_scale(W, b, alpha, Lm, x)
    bad = (Fr < F - 1e-9 * sc) or abs(rn * rn - F) > 1e-9 * sc
    return bool(same and bad), {"objective_returned": F, "objective_of_nnls_on_unnormalised_system": Fr, "rnorm": rn,
                                "x": x.tolist(), "x_unnormalised": xr.tolist(), "vmax": float(vmax)}
